"""ATNK: closed obligations over the generated ANTLR artefacts of blackbird (DESIGN.md section 2.7).

Every obligation is a fact without free variables about files of the repository (serialized ATNs, generated
Python/C++ sources, .tokens/.interp files, blackbird.g4, Makefile, error.py) decided completely by evaluation or
automata construction (backend "closed-eval"). Run with

    cd /verif && PYTHONPATH=/verif /venv/bin/python -m atnk.run --groups all        (see atnk/run.py)

Modules: atn (own ATN decoder + carriers), g4 (grammar reader), automata (NFA/DFA kit), ctx (artefact access, obligation
builder), lexlang / look (shared lexer-language and LOOK-set helpers) and one module per obligation group:
identity, lexer_eq, parser_eq, codegen_sim, precedence, literals, dominance, layout, canon_lex.
"""
