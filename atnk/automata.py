"""Small deterministic automata kit: epsilon-NFAs over hashable symbols or over code-point ranges, subset
construction, product walks for equivalence / inclusion with shortest witnesses. No randomness: every iteration
is over sorted collections, so results (including the witnesses) do not depend on PYTHONHASHSEED."""
from collections import deque

MAXC = 0x10FFFF


class NFA(object):
    """epsilon-NFA. `tr[s]` is a list of (label, target); a label is a hashable symbol, or (for character automata)
    a tuple of inclusive (lo, hi) ranges. `acc` maps accepting states to a tag (token type; True for plain acceptance)."""

    def __init__(self):
        self.n = 0
        self.eps = {}
        self.tr = {}
        self.acc = {}

    def new(self):
        self.n += 1
        return self.n - 1

    def e(self, a, b):
        self.eps.setdefault(a, []).append(b)

    def t(self, a, label, b):
        self.tr.setdefault(a, []).append((label, b))

    def copy(self):
        m = NFA()
        m.n = self.n
        m.eps = {k: list(v) for k, v in self.eps.items()}
        m.tr = {k: list(v) for k, v in self.tr.items()}
        m.acc = dict(self.acc)
        return m

    def symbols(self):
        return {lab for lst in self.tr.values() for lab, _ in lst}

    def closure(self, states):
        seen = set(states)
        stack = list(seen)
        while stack:
            x = stack.pop()
            for y in self.eps.get(x, ()):
                if y not in seen:
                    seen.add(y)
                    stack.append(y)
        return frozenset(seen)


def complement_ranges(rs, lo=0, hi=MAXC):
    out = []
    cur = lo
    for a, b in sorted(rs):
        if a > cur:
            out.append((cur, a - 1))
        cur = max(cur, b + 1)
    if cur <= hi:
        out.append((cur, hi))
    return tuple(out)


def cut_points(nfas):
    """boundaries of the coarsest partition of [0, MAXC] that refines every range label of the given NFAs."""
    cuts = {0, MAXC + 1}
    for n in nfas:
        for lst in n.tr.values():
            for rs, _ in lst:
                for a, b in rs:
                    cuts.add(a)
                    cuts.add(b + 1)
    return sorted(cuts)


def classes_of(cuts):
    return [(cuts[i], cuts[i + 1] - 1) for i in range(len(cuts) - 1)]


def classify(nfa, cuts):
    """character NFA -> NFA whose symbols are indices into classes_of(cuts) (cuts must refine the NFA's ranges)."""
    import bisect
    m = NFA()
    m.n, m.eps, m.acc = nfa.n, nfa.eps, nfa.acc
    for s, lst in nfa.tr.items():
        out = []
        for rs, tgt in lst:
            for a, b in rs:
                i = bisect.bisect_left(cuts, a)
                assert cuts[i] == a, "cuts do not refine the automaton"
                while i < len(cuts) - 1 and cuts[i] <= b:
                    out.append((i, tgt))
                    i += 1
        m.tr[s] = out
    return m


class DFA(object):
    """complete-on-demand DFA: `trans[q]` maps symbol -> state (missing = dead); `tag[q]` 0/False = rejecting.
    `members[q]` is the frozenset of NFA states, `word[q]` a shortest symbol sequence reaching q."""

    def __init__(self):
        self.trans = []
        self.tag = []
        self.members = []
        self.word = []
        self.start = 0

    def size(self):
        return len(self.trans)

    def run(self, syms):
        q = self.start
        for s in syms:
            q = self.trans[q].get(s)
            if q is None:
                return None
        return q


def determinise(nfa, start, alphabet=None, tag=None):
    """Subset construction, breadth first, symbols in sorted order. `tag(nfa, members)` defaults to the *minimum*
    accept tag among the members (ANTLR: first rule wins among equally long matches), 0 if none accepts."""
    if tag is None:
        tag = min_tag
    idx = {}
    for s in sorted(nfa.tr):
        d = idx.setdefault(s, {})
        for lab, tgt in nfa.tr[s]:
            d.setdefault(lab, set()).add(tgt)
    if alphabet is None:
        alphabet = sorted(nfa.symbols(), key=sym_key)
    dfa = DFA()
    s0 = nfa.closure([start])
    ids = {s0: 0}
    dfa.trans.append({})
    dfa.tag.append(tag(nfa, s0))
    dfa.members.append(s0)
    dfa.word.append(())
    queue = deque([s0])
    while queue:
        S = queue.popleft()
        q = ids[S]
        moves = {}
        for x in S:
            for lab, tgts in idx.get(x, {}).items():
                moves.setdefault(lab, set()).update(tgts)
        for lab in alphabet:
            if lab not in moves:
                continue
            T = nfa.closure(moves[lab])
            if T not in ids:
                ids[T] = len(dfa.trans)
                dfa.trans.append({})
                dfa.tag.append(tag(nfa, T))
                dfa.members.append(T)
                dfa.word.append(dfa.word[q] + (lab,))
                queue.append(T)
            dfa.trans[q][lab] = ids[T]
    return dfa


def min_tag(nfa, members):
    ts = [nfa.acc[x] for x in members if x in nfa.acc]
    return min(ts) if ts else 0


def sym_key(s):
    """total order on mixed symbols (ints, tuples)."""
    return (0, s) if isinstance(s, int) else (1, tuple(sym_key(x) for x in s)) if isinstance(s, tuple) else (2, str(s))


def compare(d1, d2, alphabet, same=lambda a, b: a == b):
    """Breadth-first product walk of two DFAs. Returns (None, n_pairs) if every reachable pair has `same` tags,
    else ((word, tag1, tag2), n_pairs) with a shortest distinguishing word. Dead states are tagged 0."""
    start = (d1.start, d2.start)
    seen = {start: ()}
    queue = deque([start])
    while queue:
        p, q = queue.popleft()
        t1 = d1.tag[p] if p is not None else 0
        t2 = d2.tag[q] if q is not None else 0
        if not same(t1, t2):
            return (seen[(p, q)], t1, t2), len(seen)
        for a in alphabet:
            np_ = d1.trans[p].get(a) if p is not None else None
            nq = d2.trans[q].get(a) if q is not None else None
            if np_ is None and nq is None:
                continue
            if (np_, nq) not in seen:
                seen[(np_, nq)] = seen[(p, q)] + (a,)
                queue.append((np_, nq))
    return None, len(seen)


def equivalent(d1, d2, alphabet):
    return compare(d1, d2, alphabet)


def included(d1, d2, alphabet):
    """L(d1) subset of L(d2) (tags read as booleans); witness = shortest word in L(d1) minus L(d2)."""
    return compare(d1, d2, alphabet, same=lambda a, b: (not a) or bool(b))


def words_upto(dfa, alphabet, max_len, accept=bool):
    """all accepted words (tuples of symbols) of length <= max_len, depth first in alphabet order; only live prefixes."""
    live = live_states(dfa, accept)
    out = []

    def rec(q, w):
        if accept(dfa.tag[q]):
            out.append(w)
        if len(w) == max_len:
            return
        for a in alphabet:
            t = dfa.trans[q].get(a)
            if t is not None and t in live:
                rec(t, w + (a,))
    if dfa.start in live:
        rec(dfa.start, ())
    return out


def live_states(dfa, accept=bool):
    """states from which an accepting state is reachable."""
    rev = {}
    for q, d in enumerate(dfa.trans):
        for t in d.values():
            rev.setdefault(t, set()).add(q)
    live = {q for q in range(dfa.size()) if accept(dfa.tag[q])}
    stack = sorted(live)
    while stack:
        x = stack.pop()
        for y in sorted(rev.get(x, ())):
            if y not in live:
                live.add(y)
                stack.append(y)
    return live


def retag(dfa, fn):
    """same DFA with tags mapped through fn (shares structure)."""
    d = DFA()
    d.trans, d.members, d.word, d.start = dfa.trans, dfa.members, dfa.word, dfa.start
    d.tag = [fn(t) for t in dfa.tag]
    return d
