"""Group `canon_lex` (C01, C09): lexical lemmas for the serializer's output. For every kind of canonical literal
(a regular set C of texts, CPython's repr languages being assumed), every left context l and every right context
r the printer can produce, ALL strings l.w.r.<anything> with w in C are tokenised by the shipped lexer so that
  * a token boundary falls exactly at the start and at the end of w, and
  * the tokens covering w are the intended token-type sequence.

Decision procedure (complete for the stated sets, no enumeration): maximal munch is simulated symbolically on the
automaton X = l . C . r . Sigma*  (Sigma* = unknown rest of the line; for the end-of-input context X = l . C).
For a token starting at node s of X all paths (lexer DFA state, X node, last accept) are explored; a path ends
when the lexer DFA dies or the input may end, the token is then the last accept. This yields a finite token-level
graph  s --type--> s'. Tokens starting in l must end inside l or exactly at its end; tokens starting in w must
end inside w or exactly at its end; the token-type sequences from start-of-w to end-of-w must lie in the expected
regular set. Restarting after a backtrack allows any continuation of X (an over-approximation), so every reported
violation is replayed concretely on its witness string; an unconfirmed one is reported `undecided`, never `failed`.
A bounded enumeration of short members of C through the same contexts cross-checks the machinery (`bounded`)."""
import bisect
from collections import deque

from . import automata as am
from . import g4 as g4mod
from . import lexer_eq
from . import lexlang
from . import parser_eq
from .ctx import Group

PROPS = ["C01", "C09"]

INTREPR = "('0' | [1-9] [0-9]*)"
FLOATREPR = "(('0' | [1-9] [0-9]*) '.' [0-9]+ | [1-9] ('.' [0-9]+)? 'e' ('+'|'-') [0-9] [0-9]+)"
NUMREPR = "(%s | %s)" % (INTREPR, FLOATREPR)
SIGNED = "'-'? %s" % NUMREPR
LEFT = ["(", ", ", "=", "[", " ", "    "]
RIGHT = [", ", ")", "]", " ", "\n", None]          # None = end of input
KINDS = [
    # name, specification of C (g4 lexer syntax; None = built from the lexer), expected token sequence (g4 parser syntax), goal
    ("int_nonneg", INTREPR, "INT", "a non-negative decimal integer is one INT token"),
    ("int_neg", "'-' [1-9] [0-9]*", "MINUS INT", "a negative decimal integer is MINUS followed by one INT token"),
    ("float_nonneg", FLOATREPR, "FLOAT", "the repr of a non-negative finite float (1.5, 100.0, 1e+22, 1.5e-07) is one FLOAT token"),
    ("float_neg", "'-' %s" % FLOATREPR, "MINUS FLOAT", "the repr of a negative finite float is MINUS followed by one FLOAT token"),
    ("complex", "'-'? %s ('+'|'-') %s 'j'" % (NUMREPR, NUMREPR), "COMPLEX",
     "a complex literal {re}{+|-}{|im|}j is exactly ONE COMPLEX token (a leading '-' of the real part is absorbed into it)"),
    ("bool", "'True' | 'False'", "BOOL", "True / False are one BOOL token"),
    ("string", "'\"' ~[\"\\r\\n]* '\"'", "STR", "a double-quoted string without '\"', CR, LF is one STR token"),
    ("param", None, "LBRACE NAME RBRACE", "a parameter reference {name} is LBRACE NAME RBRACE for every identifier the lexer types as NAME"),
    ("name", None, "NAME", "an identifier the lexer types as NAME is one NAME token in every context"),
    ("number_list", "%s (', ' %s)*" % (SIGNED, SIGNED), "MINUS? (INT | FLOAT) (COMMA MINUS? (INT | FLOAT))*",
     "numbers separated by comma-space never form a SEQUENCE token: each number is its own INT/FLOAT token (with MINUS), each comma a COMMA"),
]
IDENT = "[A-Za-z] [0-9A-Za-z_]*"


def dfa_to_char_nfa(dfa, classes, accept):
    """lexer-style DFA (symbols = class indices) -> character NFA with range labels."""
    n = am.NFA()
    for _ in range(dfa.size()):
        n.new()
    for q, tr in enumerate(dfa.trans):
        for a in sorted(tr):
            n.t(q, (classes[a],), tr[a])
        if accept(dfa.tag[q]):
            n.acc[q] = True
    return n, dfa.start


def name_language(ctx):
    """character NFA of T(NAME): the identifiers whose maximal-munch verdict is NAME."""
    dfa, classes = lexer_eq.lexer_dfa(ctx)
    t = ctx.token_type("NAME")
    return dfa_to_char_nfa(dfa, classes, lambda tag: tag == t)


def wrap(inner, before, after):
    """NFA for  before . L(inner) . after  (before/after plain strings)."""
    nfa, start = inner
    m = nfa.copy()
    accs = sorted(m.acc)
    m.acc = {}
    s = m.new()
    cur = s
    for ch in before:
        nxt = m.new()
        m.t(cur, ((ord(ch), ord(ch)),), nxt)
        cur = nxt
    m.e(cur, start)
    end = m.new()
    for a in accs:
        m.e(a, end)
    cur = end
    for ch in after:
        nxt = m.new()
        m.t(cur, ((ord(ch), ord(ch)),), nxt)
        cur = nxt
    m.acc[cur] = True
    return m, s


def literal_nfa(ctx, kind, regex):
    if kind == "param":
        return wrap(name_language(ctx), "{", "}")
    if kind == "name":
        return name_language(ctx)
    return lexlang.spec(regex)


def expected_dfa(ctx, text):
    """DFA over ('T', type) symbols of an expected token-sequence expression in g4 parser-rule syntax."""
    p = g4mod._Parser(g4mod.tokenize(text))
    alts = p.par_alts()
    sym = ctx.vocabulary()[0]
    env = ({n: i for i, n in enumerate(sym) if i > 0}, {})
    nfa = am.NFA()
    s0 = nfa.new()
    nfa.acc[parser_eq.build(nfa, ("alt", [("seq", a["items"]) for a in alts]), s0, env)] = True
    return nfa, s0


class Sim(object):
    """symbolic maximal munch on X = left . C . right . Sigma*   (right None: X = left . C, input ends after w)."""

    KEEP = 1      # lookahead steps remembered beyond a token's last accept (plus the character the lexer died on)

    def __init__(self, munch, cnfa, left, right):
        self.m = munch
        self.left, self.right = left, right
        nfa, start = cnfa
        ccuts = am.cut_points([nfa])
        self.cdfa = am.determinise(am.classify(nfa, ccuts), start, list(range(len(ccuts) - 1)))
        if any(self.cdfa.start in tr.values() for tr in self.cdfa.trans):
            raise ValueError("the literal language re-enters its start state (unsupported)")
        cuts = set(ccuts) | {c[0] for c in munch.classes} | {0x110000}
        for ch in left + (right or ""):
            cuts.update((ord(ch), ord(ch) + 1))
        cuts = sorted(cuts)
        self.alpha = []          # (lo, lexer class, C symbol)
        for i in range(len(cuts) - 1):
            lo = cuts[i]
            self.alpha.append((lo, munch.cls(chr(lo)), bisect.bisect_right(ccuts, lo) - 1))
        self.los = [a[0] for a in self.alpha]
        self.live_c = am.live_states(self.cdfa)
        self.B1 = ("C", self.cdfa.start)
        self.R0 = ("R", 0)

    # ---- the automaton X
    def variants(self, x):
        """x and what it reaches by epsilon moves: end of left = start of C; an accepting C state may be the end of w
        (start of right); the end of right is Sigma*."""
        if x[0] == "L" and x[1] == len(self.left):
            x = self.B1
        if x[0] == "R" and self.right is not None and x[1] == len(self.right):
            return [("ANY",)]
        if x[0] == "C" and self.cdfa.tag[x[1]]:
            return [x, self.R0]
        return [x]

    def moves(self, x):
        """(alphabet index, successor node) for every alphabet class X allows at node x."""
        if x[0] == "L":
            return [(self.index_of(self.left[x[1]]), ("L", x[1] + 1))]
        if x[0] == "C":
            out = []
            for i, (lo, lc, cs) in enumerate(self.alpha):
                t = self.cdfa.trans[x[1]].get(cs)
                if t is not None and t in self.live_c:
                    out.append((i, ("C", t)))
            return out
        if x[0] == "R":
            if self.right is None or x[1] >= len(self.right):
                return []
            return [(self.index_of(self.right[x[1]]), ("R", x[1] + 1))]
        return [(i, ("ANY",)) for i in range(len(self.alpha))]

    def index_of(self, ch):
        return bisect.bisect_right(self.los, ord(ch)) - 1

    def can_end(self, x):
        if self.right is None:
            return x == self.R0
        return x == ("ANY",)

    # ---- one token
    def token_outcomes(self, s):
        """Tokens that can start at s = (node, forced): `forced` are the (alphabet index, node after) steps already known
        to follow (the lookahead a previous token read beyond its last accept). Path states are
        (lexer state, X node, last accept (type, node), steps since the last accept (None once longer than KEEP), forced used).
        -> {(last accept, steps since it): (final path state, dead alphabet index or None)}, parent links."""
        dfa = self.m.dfa
        node, forced = s
        start = (dfa.start, node, None, (), 0)
        parent = {start: None}
        queue = deque([start])
        outcomes = {}
        while queue:
            st = queue.popleft()
            q, x, la, since, k = st
            if k < len(forced):
                steps = [(forced[k][0], [forced[k][1]])]
            else:
                if self.can_end(x) and st != start:
                    outcomes.setdefault((la, since), (st, None))
                steps = [(i, self.variants(x2)) for i, x2 in self.moves(x)]
            for i, targets in steps:
                q2 = dfa.trans[q].get(self.alpha[i][1])
                if q2 is None:          # the lexer dies on this character: the token is the last accept; the character is known lookahead
                    for v in targets:
                        known = since + ((i, v),) if (since is not None and v != ("ANY",)) else since
                        outcomes.setdefault((la, known), (st, i))
                    continue
                tag = dfa.tag[q2]
                for v in targets:
                    if tag:
                        st2 = (q2, v, (tag, v), (), min(k + 1, len(forced)))
                    else:
                        # remember the lookahead read beyond the last accept; give up (None = unknown) before any accept,
                        # beyond KEEP steps, and in the Sigma* region where it would enumerate arbitrary text
                        nxt = since + ((i, v),) if (la is not None and since is not None and len(since) < self.KEEP and v != ("ANY",)) else None
                        st2 = (q2, v, la, nxt, min(k + 1, len(forced)))
                    if st2 not in parent:
                        parent[st2] = (st, i)
                        queue.append(st2)
        return outcomes, parent

    def chain(self, parent, st):
        """[(char, node before reading it, state after)] from the token start to st."""
        out = []
        while parent[st] is not None:
            prev, i = parent[st]
            out.append((chr(self.alpha[i][0]), prev[1], st))
            st = prev
        out.reverse()
        return out

    def region(self, x):
        if x[0] in ("L", "C"):
            return x[0]
        return "R0" if x == self.R0 else "beyond"

    # ---- all tokens
    def explore(self):
        """-> (edges, violations, reach). edges: (s, type, text, t) between token starts s = (node, forced);
        reach[s] = [(char, region)] of a string leading to s."""
        dfa = self.m.dfa
        first = (self.variants(("L", 0))[0], ())
        reach = {first: []}
        todo = deque([first])
        done = set()
        edges, violations = [], []
        while todo:
            s = todo.popleft()
            if s in done:
                continue
            done.add(s)
            outcomes, parent = self.token_outcomes(s)
            for key in sorted(outcomes, key=repr):
                la, since = key
                st, dead = outcomes[key]
                path = self.chain(parent, st)
                chars = [(c, self.region(x)) for c, x, _ in path]
                full = reach[s] + chars + ([(chr(self.alpha[dead][0]), self.region(st[1]))] if dead is not None else [])
                if la is None:
                    violations.append({"kind": "no token matches", "at": s, "witness": full})
                    continue
                tag, v = la
                if st[3] is not None:             # steps the path read beyond its last accept
                    cut = len(path) - len(st[3])
                else:
                    cut = max(i for i, (_, _, after) in enumerate(path) if dfa.tag[after[0]] == tag and after[1] == v) + 1
                text = chars[:cut]
                rs, rv = self.region(s[0]), self.region(v)
                ok = (rs == "L" and (rv == "L" or v == self.B1)) or (rs == "C" and rv in ("C", "R0"))
                if not ok:
                    violations.append({"kind": "a token starting in the %s ends %s" % (
                        "left context" if rs == "L" else "literal", "inside the literal" if rv == "C" else "beyond the end of the literal"),
                        "at": s, "token": tag, "witness": full, "boundary": "start" if rs == "L" else "end"})
                    continue
                t = (v, since if since is not None else ())
                edges.append((s, tag, text, t))
                if t not in reach:
                    reach[t] = reach[s] + text
                if v != self.R0 and t not in done:
                    todo.append(t)
        return edges, violations, reach


def check_kind(ctx, munch, kind, regex, expected, left, right):
    """one (kind, left, right) instance -> None if the lemma holds, else (status, detail, counterexample)."""
    sim = Sim(munch, literal_nfa(ctx, kind, regex), left, right)
    edges, violations, reach = sim.explore()
    names = ctx.token_name

    def concrete(witness):
        s = "".join(c for c, _ in witness)
        n_l = sum(1 for _, r in witness if r == "L")
        n_w = sum(1 for _, r in witness if r == "C")
        toks = munch.tokens(s, keep_skipped=True)
        ends, pos = set(), 0
        for _, text in toks:
            pos += len(text)
            ends.add(pos)
        return s, n_l, n_w, toks, ends

    for v in violations:
        s, n_l, n_w, toks, ends = concrete(v["witness"])
        shown = [[names(t) if t else None, text] for t, text in toks]
        confirmed = (v.get("boundary") == "start" and n_l not in ends) or (v.get("boundary") == "end" and (n_l + n_w) not in ends) \
            or (v["kind"] == "no token matches" and any(t is None for t, _ in toks))
        cex = {"kind": kind, "left": left, "right": right, "string": s, "literal": s[n_l:n_l + n_w], "tokens": shown, "violation": v["kind"]}
        return ("failed" if confirmed else "undecided",
                "%s: in %r the literal %r is lexed as %s" % (v["kind"], s, s[n_l:n_l + n_w], shown), cex)
    if not any(t[0] == sim.R0 for t in reach):
        return "undecided", "the end of the literal is never reached at a token boundary (kind %s, left %r, right %r)" % (kind, left, right), None
    # token-type sequences across the literal
    skipped = munch.skipped
    tn = am.NFA()
    ids = {}

    def nid(x):
        if x not in ids:
            ids[x] = tn.new()
        return ids[x]
    for s_, tag, text, t_ in edges:
        if sim.region(s_[0]) != "C":
            continue
        if tag in skipped:
            tn.e(nid(s_), nid(t_))
        else:
            tn.t(nid(s_), ("T", tag), nid(t_))
    for t_ in sorted(ids, key=repr):
        if t_[0] == sim.R0:
            tn.acc[ids[t_]] = True
    en, es = expected_dfa(ctx, expected)
    alphabet = sorted(tn.symbols() | en.symbols(), key=am.sym_key)
    bad, _ = am.included(am.determinise(tn, nid((sim.B1, ())), alphabet), am.determinise(en, es, alphabet), alphabet)
    if bad is None:
        return None
    seq = [names(sy[1]) for sy in bad[0]]
    # rebuild a string with that token sequence: follow the token-level edges
    by_src = {}
    for e in edges:
        by_src.setdefault(e[0], []).append(e)
    found = _find_path(sim, by_src, skipped, [sy[1] for sy in bad[0]])
    if found is None:
        return "undecided", "token sequence %s is possible according to the over-approximation, but no string was reconstructed" % seq, None
    w = "".join(c for c, _ in found)
    full = left + w + (right or "")
    toks = munch.tokens(full, keep_skipped=True)
    pos, inside = 0, []
    for t, text in toks:
        if pos >= len(left) and pos + len(text) <= len(left) + len(w) and t not in skipped:
            inside.append(names(t))
        pos += len(text)
    cex = {"kind": kind, "left": left, "right": right, "string": full, "literal": w, "tokens": [[names(t) if t else None, x] for t, x in toks],
           "literal_token_types": inside, "expected": expected}
    return ("failed" if inside == seq else "undecided", "in %r the literal %r is lexed as %s, expected %s" % (full, w, inside, expected), cex)


def _find_path(sim, by_src, skipped, types, limit=10000):
    """a string of the literal whose token-level path from B1 to R0 has the given non-skipped token types."""
    stack = [((sim.B1, ()), 0, [])]
    steps = 0
    while stack and steps < limit:
        steps += 1
        node, i, text = stack.pop()
        if node[0] == sim.R0:
            if i == len(types):
                return text
            continue
        for s_, tag, tx, t_ in sorted(by_src.get(node, []), key=lambda e: (e[1], str(e[3])), reverse=True):
            if tag in skipped:
                stack.append((t_, i, text + tx))
            elif i < len(types) and tag == types[i]:
                stack.append((t_, i + 1, text + tx))
    return None


def excluded_names(ctx, short=4):
    """identifiers [A-Za-z][0-9A-Za-z_]* that are NOT lexed as NAME, per token type they get instead:
    {token name: {"finite": bool, "words": all of them if finite, else those up to length `short`}}."""
    inn, ins = lexlang.spec(IDENT)
    full = lexlang.full_lexer(ctx)
    cuts = am.cut_points([inn, full[0]])
    alphabet = list(range(len(cuts) - 1))
    d_id = am.determinise(am.classify(inn, cuts), ins, alphabet)
    d_lx = am.determinise(am.classify(full[0], cuts), full[1], alphabet)
    name_t = ctx.token_type("NAME")
    succ = {}
    seen = {(d_id.start, d_lx.start)}
    queue = deque([(d_id.start, d_lx.start)])
    while queue:
        pq = queue.popleft()
        for a in alphabet:
            p2, q2 = d_id.trans[pq[0]].get(a), d_lx.trans[pq[1]].get(a)
            if p2 is None or q2 is None:
                continue
            succ.setdefault(pq, []).append((a, (p2, q2)))
            if (p2, q2) not in seen:
                seen.add((p2, q2))
                queue.append((p2, q2))
    types = sorted({d_lx.tag[q] for p, q in seen if d_id.tag[p] and d_lx.tag[q] and d_lx.tag[q] != name_t})
    chars = [chr(c) for c in list(range(48, 58)) + list(range(65, 91)) + [95] + list(range(97, 123))]
    out = {}
    for t in types:
        good = {pq for pq in seen if d_id.tag[pq[0]] and d_lx.tag[pq[1]] == t}
        useful = set(good)                  # product states from which an identifier of type t is reachable
        changed = True
        while changed:
            changed = False
            for pq in sorted(seen - useful):
                if any(n in useful for _, n in succ.get(pq, [])):
                    useful.add(pq)
                    changed = True
        # finite iff the useful part reachable from the start has no cycle
        colour = {}

        def cyclic(x):
            colour[x] = 1
            for _, n in succ.get(x, []):
                if n in useful and (colour.get(n) == 1 or (n not in colour and cyclic(n))):
                    return True
            colour[x] = 2
            return False
        start = (d_id.start, d_lx.start)
        finite = not (start in useful and cyclic(start))
        words = []
        depth = {start: 0}                  # length of the shortest member, to cut the listing of an infinite family
        bfs = deque([start])
        while bfs:
            x = bfs.popleft()
            for _, n in succ.get(x, []):
                if n in useful and n not in depth:
                    depth[n] = depth[x] + 1
                    bfs.append(n)
        limit = max(short, min([depth[x] for x in good if x in depth] or [0]) + 1)

        def rec(pq, w):
            if pq in good:
                words.append(w)
            if not finite and len(w) == limit:
                return
            for ch in chars:
                a = bisect.bisect_right(cuts, ord(ch)) - 1
                n = (d_id.trans[pq[0]].get(a), d_lx.trans[pq[1]].get(a))
                if n in useful:
                    rec(n, w + ch)
        if start in useful:
            rec(start, "")
        out[ctx.token_name(t)] = {"finite": finite, "words": sorted(words)}
    return out


def bounded_cross_check(ctx, munch, max_len=7, cap=250):
    """enumerate short members of every literal language, push them through every context concretely."""
    names = ctx.token_name
    for kind, regex, expected, _goal in KINDS:
        nfa, start = literal_nfa(ctx, kind, regex)
        cuts = am.cut_points([nfa])
        classes = am.classes_of(cuts)
        dfa = am.determinise(am.classify(nfa, cuts), start, list(range(len(classes))))
        live = am.live_states(dfa)
        words, frontier = [], [(dfa.start, "")]
        while frontier and len(words) < cap and len(frontier[0][1]) <= max_len:
            nxt = []
            for q, w in frontier:
                if dfa.tag[q] and len(words) < cap:
                    words.append(w)
                for a in sorted(dfa.trans[q]):
                    t = dfa.trans[q][a]
                    if t in live:
                        lo, hi = classes[a]
                        for ch in (sorted({chr(lo), chr(hi)}) if hi - lo < 0x800 else [chr(lo)]):
                            nxt.append((t, w + ch))
            frontier = nxt[:20000]
        en, es = expected_dfa(ctx, expected)
        ed = am.determinise(en, es)
        failures, cases = [], 0
        for w in words:
            for left in LEFT:
                for right in RIGHT:
                    cases += 1
                    s = left + w + (right or "")
                    toks = munch.tokens(s, keep_skipped=True)
                    pos, ends, inside = 0, {0}, []
                    for t, text in toks:
                        if pos >= len(left) and pos + len(text) <= len(left) + len(w) and t not in munch.skipped:
                            inside.append(("T", t))
                        pos += len(text)
                        ends.add(pos)
                    q = ed.run(inside)
                    if len(left) not in ends or len(left) + len(w) not in ends or q is None or not ed.tag[q]:
                        if len(failures) < 10:
                            failures.append({"family": "canon_lex/" + kind, "class": "%s|%r|%r" % (kind, left, right), "input": {"script": s},
                                             "expected": expected, "actual": " ".join("%s" % names(t) if t else "?" for t, _ in toks),
                                             "repro": "atnk.lexlang.Munch(ctx).tokens(%r)" % s})
        ctx.bounded.append({"name": "canon_lex/%s_contexts" % kind,
                            "bound": "the first %d members (by length, at most %d) of the literal language over the first/last character of each "
                                     "alphabet class, in %d left x %d right contexts" % (cap, max_len, len(LEFT), len(RIGHT)),
                            "cases": cases, "distinct": len(words), "rule": "concrete maximal-munch tokenisation of left+literal+right on the lexer DFA; "
                            "boundaries at both ends of the literal and the token types in between must match `%s`" % expected,
                            "samples": words[:3] + words[-2:], "failures": failures})


def run(ctx):
    g = Group(ctx, "canon_lex", PROPS)
    try:
        munch = lexlang.Munch(ctx)
    except Exception as e:
        ctx.errors.append("canon_lex: %s: %s" % (type(e).__name__, e))
        return g.obligations
    for kind, regex, expected, goal in KINDS:
        def one(kind=kind, regex=regex, expected=expected):
            n = 0
            for left in LEFT:
                for right in RIGHT:
                    res = check_kind(ctx, munch, kind, regex, expected, left, right)
                    n += 1
                    if res is not None:
                        status, detail, cex = res
                        return (False if status == "failed" else "undecided"), detail, cex
            return True, "%d contexts (left %s x right %s); expected %s" % (n, LEFT, ["<end of input>" if r is None else r for r in RIGHT], expected)
        g.check(kind, "%s, with token boundaries exactly at both ends, whatever follows, in every printer context" % goal, one)

    try:
        shown = [ctx.token_name(t) for t, _ in munch.tokens("[1,2]", keep_skipped=True)]
        ctx.note("canon_lex: without the space after the comma, '[1,2]' lexes as %s%s" % (shown, (
            " - a SEQUENCE token, which no parser rule accepts in a list: the printer's ', ' separator is load-bearing (lemma number_list "
            "holds only because of it)") if "SEQUENCE" in shown else ""))
        ex = excluded_names(ctx)
        ctx.extra["canon_lex_excluded_names"] = ex
        fin = sorted(w for v in ex.values() if v["finite"] for w in v["words"])
        inf = sorted(k for k, v in ex.items() if not v["finite"])
        ctx.note("canon_lex/param,name: identifiers [A-Za-z][0-9A-Za-z_]* NOT lexed as NAME (so `{x}` is not LBRACE NAME RBRACE for them): "
                 "exactly the %d words %s, plus the infinite families lexed as %s (short members: %s)"
                 % (len(fin), fin, inf, {k: ex[k]["words"][:6] for k in inf}))
        ctx.note("canon_lex/complex: the leading '-' of a negative real part is absorbed into the single COMPLEX token; for plain numbers the "
                 "'-' is a separate MINUS token")
        ctx.note("canon_lex/string: a string containing CR is not lexed as STR either (the STR rule excludes CR as well as LF and '\"')")
        bounded_cross_check(ctx, munch, cap=2000 if ctx.tier == "thorough" else 250)
    except Exception as e:
        ctx.errors.append("canon_lex: notes/bounded: %s: %s" % (type(e).__name__, e))
    return g.obligations


ASSUMPTIONS = ["A-antlr-lexer", "A-cpython-format"]
