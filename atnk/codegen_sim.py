"""Group `codegen_sim` (C14, C03): every rule method of blackbirdParser.py is consistent with the rule's sub-ATN,
with the ATN state numbers (`self.state = n`) as the simulation relation.

Per rule method (read with `ast`, statements in source order, `n` = the most recent `self.state = n`):
  * `self.match(blackbirdParser.T)`            -> an ATOM/SET edge on T out of state n;
  * the inline set match (`_la = LA(1); if not(<test>): recoverInline ... else: consume`) -> a SET/ATOM edge out
    of n whose token set equals the set of token types satisfying <test> (the test is *evaluated* for every type);
  * `self.r(p)` / `self.r()`                   -> a RULE edge out of n to rule r with precedence p (0 if absent);
  * `self.precpred(self._ctx, p)`              -> a PRECEDENCE edge out of n with precedence p;
  * `adaptivePredict(self._input, d, ...)`     -> decision d of the ATN is state n or epsilon-reachable from it
    (the re-prediction at the end of a loop body happens at the loop-back state);
  * LL(1) tests on `_la` / `token`             -> the accepted token types are a subset of LOOK(n);
  * `enterRule/enterRecursionRule(localctx, k, self.RULE_r)` -> k is the rule's start state, RULE_r its own index;
  * every state assigned belongs to the rule; conversely every ATOM/SET/RULE/PRECEDENCE edge of the rule is
    produced by exactly the sites above (no edge without code).
Not covered (said in `notes`): that the *control flow* between the sites follows the epsilon structure of the ATN
(loop/branch shape, alternative numbers returned by adaptivePredict), error-handling calls, context bookkeeping;
the C++ method bodies are not analysed at all."""
import ast

from . import look as lookmod
from .ctx import Group

PROPS = ["C14", "C03"]


class Unsupported(Exception):
    pass


class Site(object):
    def __init__(self, kind, state, line, fresh, **kw):
        self.kind, self.state, self.line, self.fresh = kind, state, line, fresh
        self.__dict__.update(kw)


def token_const(node, consts):
    """blackbirdParser.X / Token.EOF -> int, else None."""
    if isinstance(node, ast.Attribute) and isinstance(node.value, ast.Name):
        if node.value.id in ("blackbirdParser", "self") and isinstance(consts.get(node.attr), int):
            return consts[node.attr]
        if node.value.id in ("Token", "blackbirdParser") and node.attr == "EOF":
            return -1
    return None


def class_collections(cls, consts):
    """class-level constants of the parser class that are COLLECTIONS of token types (a hand-edit may move an inline lookahead set there):
    evaluated in source order from displays, frozenset/set/list/tuple/range calls and | & - of earlier ones. name -> frozenset of ints"""
    env = {k: v for k, v in consts.items() if isinstance(v, int)}
    out = {}

    def ev(n):
        if isinstance(n, ast.Constant) and isinstance(n.value, int):
            return n.value
        if isinstance(n, ast.Name):
            if n.id in out:
                return out[n.id]
            if n.id in env:
                return env[n.id]
            raise Unsupported("name %s in a class-level constant" % n.id)
        if isinstance(n, ast.Attribute) and isinstance(n.value, ast.Name) and n.value.id == "blackbirdParser":
            return ev(ast.Name(id=n.attr, ctx=ast.Load()))
        if isinstance(n, (ast.List, ast.Tuple, ast.Set)):
            return frozenset(ev(x) for x in n.elts)
        if isinstance(n, ast.Call) and isinstance(n.func, ast.Name) and not n.keywords:
            if n.func.id in ("frozenset", "set", "list", "tuple") and len(n.args) <= 1:
                return frozenset(ev(n.args[0])) if n.args else frozenset()
            if n.func.id == "range" and 1 <= len(n.args) <= 3:
                return frozenset(range(*[ev(a) for a in n.args]))
        if isinstance(n, ast.BinOp) and isinstance(n.op, (ast.BitOr, ast.BitAnd, ast.Sub)):
            a, b = ev(n.left), ev(n.right)
            if isinstance(a, frozenset) and isinstance(b, frozenset):
                return a | b if isinstance(n.op, ast.BitOr) else a & b if isinstance(n.op, ast.BitAnd) else a - b
        raise Unsupported("construct %s in a class-level constant" % type(n).__name__)
    for st in cls.body:
        if isinstance(st, ast.Assign) and len(st.targets) == 1 and isinstance(st.targets[0], ast.Name):
            try:
                v = ev(st.value)
            except Unsupported:
                continue
            if isinstance(v, frozenset):
                out[st.targets[0].id] = v
    return out


def evaluate(node, la, consts):
    """evaluate a lookahead test for the token type `la` (short-circuit semantics as Python's)."""
    if isinstance(node, ast.Constant):
        return node.value
    if isinstance(node, ast.Name):
        if node.id in ("_la", "token"):
            return la
        raise Unsupported("name %s in a lookahead test" % node.id)
    if isinstance(node, ast.Attribute):
        v = token_const(node, consts)
        if v is None:
            raise Unsupported("attribute %s in a lookahead test" % ast.dump(node))
        return v
    if isinstance(node, ast.BoolOp):
        if isinstance(node.op, ast.And):
            v = True
            for x in node.values:
                v = evaluate(x, la, consts)
                if not v:
                    return v
            return v
        v = False
        for x in node.values:
            v = evaluate(x, la, consts)
            if v:
                return v
        return v
    if isinstance(node, ast.UnaryOp):
        v = evaluate(node.operand, la, consts)
        if isinstance(node.op, ast.Not):
            return not v
        if isinstance(node.op, ast.Invert):
            return ~v
        if isinstance(node.op, ast.USub):
            return -v
    if isinstance(node, ast.BinOp):
        a, b = evaluate(node.left, la, consts), evaluate(node.right, la, consts)
        ops = {ast.BitAnd: lambda: a & b, ast.BitOr: lambda: a | b, ast.LShift: lambda: a << b, ast.Sub: lambda: a - b, ast.Add: lambda: a + b}
        if type(node.op) in ops:
            return ops[type(node.op)]()
    if isinstance(node, ast.Compare) and len(node.ops) == 1:
        a = evaluate(node.left, la, consts)
        op, rhs = node.ops[0], node.comparators[0]
        if isinstance(op, (ast.In, ast.NotIn)) and isinstance(rhs, (ast.List, ast.Tuple, ast.Set)):
            r = a in [evaluate(x, la, consts) for x in rhs.elts]
            return r if isinstance(op, ast.In) else not r
        if isinstance(op, (ast.In, ast.NotIn)) and isinstance(rhs, ast.Attribute) and isinstance(rhs.value, ast.Name) \
           and rhs.value.id in ("blackbirdParser", "self") and isinstance(consts.get(rhs.attr), frozenset):
            r = a in consts[rhs.attr]
            return r if isinstance(op, ast.In) else not r
        b = evaluate(rhs, la, consts)
        if isinstance(op, ast.Eq):
            return a == b
        if isinstance(op, ast.NotEq):
            return a != b
    raise Unsupported("construct %s in a lookahead test" % type(node).__name__)


def mentions(node, names):
    return any(isinstance(x, ast.Name) and x.id in names for x in ast.walk(node))


def is_self_call(node, attr=None):
    return (isinstance(node, ast.Call) and isinstance(node.func, ast.Attribute) and isinstance(node.func.value, ast.Name)
            and node.func.value.id == "self" and (attr is None or node.func.attr == attr))


class Extractor(object):
    """linear (source order) scan of one rule method."""

    def __init__(self, consts, rule_names, max_token):
        self.consts, self.rule_names, self.max_token = consts, rule_names, max_token
        self.sites = []
        self.states = []
        self.cur = None
        self.fresh = False
        self.branch = 0        # increases at every if/elif/else/while body: separates the alternatives for `precedence`

    def token_set(self, test):
        return frozenset(t for t in range(-1, self.max_token + 1) if evaluate(test, t, self.consts))

    def add(self, kind, line, **kw):
        consuming = kind in ("match", "setmatch", "call", "precpred")
        self.sites.append(Site(kind, self.cur, line, self.fresh, branch=self.branch, **kw))
        if consuming:
            self.fresh = False

    def expr(self, node):
        """sites inside an expression, in source order."""
        calls = [c for c in ast.walk(node) if isinstance(c, ast.Call)]
        calls.sort(key=lambda c: (c.lineno, c.col_offset))
        for c in calls:
            if is_self_call(c, "match"):
                t = token_const(c.args[0], self.consts) if len(c.args) == 1 else None
                if t is None:
                    raise Unsupported("line %d: match() argument is not a token constant" % c.lineno)
                self.add("match", c.lineno, token=t)
            elif is_self_call(c, "precpred"):
                if len(c.args) != 2 or not isinstance(c.args[1], ast.Constant) or not isinstance(c.args[1].value, int):
                    raise Unsupported("line %d: precpred() without a constant precedence" % c.lineno)
                self.add("precpred", c.lineno, prec=c.args[1].value)
            elif is_self_call(c) and c.func.attr in self.rule_names:
                if len(c.args) > 1 or c.keywords or (c.args and not (isinstance(c.args[0], ast.Constant) and isinstance(c.args[0].value, int))):
                    raise Unsupported("line %d: rule call with non-constant arguments" % c.lineno)
                self.add("call", c.lineno, rule=self.rule_names.index(c.func.attr), prec=c.args[0].value if c.args else 0,
                         explicit=bool(c.args))
            elif isinstance(c.func, ast.Attribute) and c.func.attr == "sync":
                self.add("sync", c.lineno)
            elif isinstance(c.func, ast.Name) and c.func.id == "NoViableAltException":
                self.add("noviable", c.lineno)
            elif isinstance(c.func, ast.Attribute) and c.func.attr == "adaptivePredict":
                if len(c.args) != 3 or not isinstance(c.args[1], ast.Constant):
                    raise Unsupported("line %d: adaptivePredict() without a constant decision" % c.lineno)
                self.add("predict", c.lineno, decision=c.args[1].value)
            elif is_self_call(c) and c.func.attr in ("enterRule", "enterRecursionRule"):
                a = c.args
                if len(a) < 3 or not isinstance(a[1], ast.Constant) or not (isinstance(a[2], ast.Attribute) and a[2].attr.startswith("RULE_")):
                    raise Unsupported("line %d: %s() arguments" % (c.lineno, c.func.attr))
                self.add("enter", c.lineno, start=a[1].value, rule_const=a[2].attr, recursion=c.func.attr == "enterRecursionRule")

    def stmts(self, body):
        for st in body:
            self.stmt(st)

    def stmt(self, st):
        if isinstance(st, ast.Assign) and len(st.targets) == 1 and isinstance(st.targets[0], ast.Attribute) \
                and isinstance(st.targets[0].value, ast.Name) and st.targets[0].value.id == "self" and st.targets[0].attr == "state":
            if not (isinstance(st.value, ast.Constant) and isinstance(st.value.value, int)):
                raise Unsupported("line %d: self.state assigned a non-constant" % st.lineno)
            self.cur, self.fresh = st.value.value, True
            self.states.append((st.value.value, st.lineno))
            return
        if isinstance(st, ast.If):
            if self.is_set_match(st):
                self.add("setmatch", st.lineno, tokens=self.token_set(st.test.operand))
                return
            self.if_chain(st, self.cur)
            return
        if isinstance(st, ast.While):
            self.expr(st.test)
            self.lookahead_test(st.test, st.lineno, self.cur)
            self.branch += 1
            self.stmts(st.body)
            self.stmts(st.orelse)
            self.branch += 1
            return
        if isinstance(st, ast.Try):
            self.stmts(st.body)
            for h in st.handlers:
                self.stmts(h.body)
            self.stmts(st.orelse)
            self.stmts(st.finalbody)
            return
        if isinstance(st, (ast.For, ast.With, ast.FunctionDef, ast.ClassDef, ast.AsyncFunctionDef)):
            raise Unsupported("line %d: %s in a rule method" % (st.lineno, type(st).__name__))
        self.expr(st)

    def lookahead_test(self, test, line, state):
        """an LL(1) test on `_la` / `token`; a negated test (`if not (..): break`) is read through its operand."""
        if not mentions(test, ("_la", "token")):
            return
        if isinstance(test, ast.UnaryOp) and isinstance(test.op, ast.Not):
            test = test.operand
        self.sites.append(Site("test", state, line, False, branch=self.branch, tokens=self.token_set(test)))

    def if_chain(self, st, state):
        """if / elif chain: every test of the chain is evaluated at the state current at the head of the chain."""
        self.expr(st.test)
        self.lookahead_test(st.test, st.lineno, state)
        selects = mentions(st.test, ("_la", "token", "la_", "_alt"))      # an alternative-selecting test (not e.g. the precpred guard)
        self.branch += selects
        self.stmts(st.body)
        self.branch += selects
        if len(st.orelse) == 1 and isinstance(st.orelse[0], ast.If) and mentions(st.orelse[0].test, ("_la", "token", "la_", "_alt")) \
                and not self.is_set_match(st.orelse[0]):
            self.if_chain(st.orelse[0], state)
        else:
            if selects and st.orelse:
                self.cur, self.fresh = state, False      # the final `else` of a chain runs at the state of the chain's head
            self.stmts(st.orelse)
        self.branch += selects

    @staticmethod
    def is_set_match(st):
        """if not(<test on _la>): self._errHandler.recoverInline(self)  else: reportMatch; self.consume()"""
        if not (isinstance(st.test, ast.UnaryOp) and isinstance(st.test.op, ast.Not) and mentions(st.test, ("_la",))):
            return False

        def calls(body):
            return [s.value.func.attr for s in body if isinstance(s, ast.Expr) and isinstance(s.value, ast.Call) and isinstance(s.value.func, ast.Attribute)]
        return calls(st.body) == ["recoverInline"] and calls(st.orelse) == ["reportMatch", "consume"] \
            and len(st.body) == 1 and len(st.orelse) == 2


def rule_methods(ctx):
    """rule name -> FunctionDef of the rule method in class blackbirdParser."""
    names = ctx.vocabulary()[2]
    cls = ctx.py_class("py_parser", "blackbirdParser")
    return {st.name: st for st in cls.body if isinstance(st, ast.FunctionDef) and st.name in names}


def extract(ctx, fn):
    consts = dict(ctx.class_constants("py_parser", "blackbirdParser"))
    consts.update(class_collections(ctx.py_class("py_parser", "blackbirdParser"), consts))
    ex = Extractor(consts, ctx.vocabulary()[2], ctx.parser_atn().max_token_type)
    ex.stmts(fn.body)
    return ex


def describe_edge(ctx, e):
    names = ctx.vocabulary()[2]
    if e.kind == "RULE":
        return "RULE %s[%d]" % (names[e.rule], e.prec)
    if e.kind == "PRECEDENCE":
        return "{prec>=%d}?" % e.prec
    ts = e.token_set()
    if ts is not None:
        return "%s {%s}" % (e.kind, ", ".join(ctx.token_name(t) for lo, hi in ts for t in range(lo, hi + 1)))
    return e.kind


def eps_closure(atn, n):
    """states reachable from n by EPSILON/ACTION edges (e.g. from a loop-back state to its loop-entry decision)."""
    seen, stack = {n}, [n]
    while stack:
        for e in atn.states[stack.pop()].edges:
            if e.kind in ("EPSILON", "ACTION") and e.target not in seen:
                seen.add(e.target)
                stack.append(e.target)
    return seen


def check_rule(ctx, r, fn, first):
    atn = ctx.parser_atn()
    names = ctx.vocabulary()[2]
    ex = extract(ctx, fn)
    rule = names[r]

    def fail(site_line, state, code, why, atn_desc=None):
        return (False, "%s (line %d, state %s): %s: %s" % (rule, site_line, state, code, why),
                {"rule": rule, "line": site_line, "state": state, "code": code, "reason": why, "atn_edges_out_of_state": atn_desc})

    for n, line in ex.states:
        if not (0 <= n < len(atn.states)) or atn.states[n].rule != r:
            return fail(line, n, "self.state = %d" % n, "the state does not belong to rule %s in the ATN" % rule)
    covered = set()
    counts = {}
    for s in ex.sites:
        counts[s.kind] = counts.get(s.kind, 0) + 1
        if s.kind == "enter":
            consts = ctx.class_constants("py_parser", "blackbirdParser")
            if consts.get(s.rule_const) != r or s.start != atn.rule_start[r]:
                return fail(s.line, s.start, "enterRule(.., %s, %s)" % (s.start, s.rule_const),
                            "expected start state %d and RULE_%s" % (atn.rule_start[r], rule))
            if s.recursion != atn.states[atn.rule_start[r]].precedence_rule:
                return fail(s.line, s.start, "enterRecursionRule" if s.recursion else "enterRule", "precedence-rule flag of the ATN differs")
            continue
        if s.state is None:
            return fail(s.line, None, s.kind, "no `self.state = n` precedes this site")
        st = atn.states[s.state]
        out_desc = [describe_edge(ctx, e) for e in st.edges]
        if s.kind in ("match", "setmatch", "call", "precpred") and not s.fresh:
            return fail(s.line, s.state, s.kind, "two consuming sites share one `self.state` assignment", out_desc)
        if s.kind == "match":
            hit = [e for e in st.edges if e.token_set() is not None and any(lo <= s.token <= hi for lo, hi in e.token_set())]
            if not hit:
                return fail(s.line, s.state, "self.match(%s)" % ctx.token_name(s.token), "no ATOM/SET edge on that token out of the state", out_desc)
            covered.update(id(e) for e in hit)
        elif s.kind == "setmatch":
            hit = [e for e in st.edges if e.token_set() is not None
                   and frozenset(t for lo, hi in e.token_set() for t in range(lo, hi + 1)) == s.tokens]
            if not hit:
                return fail(s.line, s.state, "inline set match {%s}" % ", ".join(ctx.token_name(t) for t in sorted(s.tokens)),
                            "no SET/ATOM edge with exactly that token set out of the state", out_desc)
            covered.update(id(e) for e in hit)
        elif s.kind == "call":
            code = "self.%s(%s)" % (names[s.rule], s.prec if s.explicit else "")
            hit = [e for e in st.edges if e.kind == "RULE" and e.rule == s.rule and e.prec == s.prec]
            if not hit:
                return fail(s.line, s.state, code, "no RULE edge to %s with precedence %d out of the state" % (names[s.rule], s.prec), out_desc)
            if s.explicit != atn.states[atn.rule_start[s.rule]].precedence_rule:
                return fail(s.line, s.state, code, "precedence argument given iff the callee is a precedence rule: violated", out_desc)
            covered.update(id(e) for e in hit)
        elif s.kind == "precpred":
            hit = [e for e in st.edges if e.kind == "PRECEDENCE" and e.prec == s.prec]
            if not hit:
                return fail(s.line, s.state, "self.precpred(self._ctx, %d)" % s.prec, "no PRECEDENCE edge with that constant out of the state", out_desc)
            covered.update(id(e) for e in hit)
        elif s.kind == "predict":
            d = s.decision
            if not (0 <= d < len(atn.decisions)) or atn.decisions[d] not in eps_closure(atn, s.state):
                want = atn.decisions[d] if 0 <= d < len(atn.decisions) else None
                return fail(s.line, s.state, "adaptivePredict(.., %d, ..)" % d,
                            "decision %d of the ATN is state %s, which is not reached from state %d by epsilon edges" % (d, want, s.state))
        elif s.kind == "test":
            lk = lookmod.look(atn, s.state, first)
            if lookmod.EPS not in lk and not s.tokens <= lk:
                bad = sorted(s.tokens - lk)
                return fail(s.line, s.state, "lookahead test accepting {%s}" % ", ".join(ctx.token_name(t) for t in sorted(s.tokens)),
                            "%s cannot come next at this state (LOOK = {%s})" % ([ctx.token_name(t) for t in bad], ", ".join(ctx.token_name(t) for t in sorted(lk))))
            # an inlined LL(1) decision tests for exactly the tokens that start ONE alternative of the decision it stands for (ANTLR emits
            # altLook[i]); a token missing from the test makes the method refuse sentences the ATN accepts
            cands = []
            for d in sorted(eps_closure(atn, s.state)):
                outs = [e for e in atn.states[d].edges if e.kind in ("EPSILON", "ACTION")]
                if len(outs) >= 2:
                    for e in outs:
                        cands.append((d, lookmod.look(atn, e.target, first)))
            exact = [c for c in cands if lookmod.EPS not in c[1]]
            # (an alternative that can match nothing is tested with its own tokens plus whatever may FOLLOW the rule: only inclusion is checked)
            open_ok = any(lookmod.EPS in c[1] and (c[1] - {lookmod.EPS}) <= s.tokens for c in cands)
            if exact and not open_ok and not any(c[1] == s.tokens for c in exact) \
               and not any(set().union(*[c[1] for c in exact if c[0] == d0]) == s.tokens for d0 in {c[0] for c in exact}):
                near = min(exact, key=lambda c: len(c[1] ^ s.tokens))
                return fail(s.line, s.state, "lookahead test accepting {%s}" % ", ".join(ctx.token_name(t) for t in sorted(s.tokens)),
                            "no alternative of the decision at this state starts with exactly these tokens; nearest (decision state %d): {%s}; difference: %s"
                            % (near[0], ", ".join(ctx.token_name(t) for t in sorted(near[1])), [ctx.token_name(t) for t in sorted(near[1] ^ s.tokens)]))
    # converse: every consuming / rule / predicate edge of the rule has a code site
    for st in atn.rule_states(r):
        if st.type == "RULE_STOP":
            continue
        for e in st.edges:
            if e.kind in ("ATOM", "RANGE", "SET", "RULE", "PRECEDENCE", "NOT_SET", "WILDCARD") and id(e) not in covered:
                return (False, "%s: ATN edge %s out of state %d has no corresponding code site" % (rule, describe_edge(ctx, e), st.number),
                        {"rule": rule, "state": st.number, "atn_edge": describe_edge(ctx, e), "reason": "edge without code"})
    return True, "sites: %s; %d states" % (", ".join("%s %d" % kv for kv in sorted(counts.items())), len(ex.states))


def run(ctx):
    g = Group(ctx, "codegen_sim", PROPS)
    try:
        names = ctx.vocabulary()[2]
        methods = rule_methods(ctx)
        first = lookmod.first_sets(ctx.parser_atn())
    except Exception as e:
        ctx.errors.append("codegen_sim: %s: %s" % (type(e).__name__, e))
        return g.obligations
    for r, name in enumerate(names):
        def one(r=r, name=name):
            if name not in methods:
                return False, "blackbirdParser has no method for rule %s" % name, {"rule": name}
            if r >= len(ctx.parser_atn().rule_start):
                return False, "the ATN has no rule %d" % r, {"rule": name}
            try:
                return check_rule(ctx, r, methods[name], first)
            except Unsupported as u:
                return "undecided", "construct outside the recognised code shapes: %s" % u
        g.check(name, "the generated method blackbirdParser.%s and the sub-ATN of rule `%s` agree on every match, rule call (with "
                "precedence argument), precedence predicate, decision number and lookahead test, state by state, in both directions"
                % (name, name), one)
    ctx.note("codegen_sim: checks the labelled sites of each rule method against the ATN edges out of the same state number, in both "
             "directions; it does not check that the control flow between the sites (loop/branch shapes, the alternative numbers "
             "compared with adaptivePredict results) follows the ATN's epsilon structure, nor error-handling and context "
             "bookkeeping calls; C++ method bodies are not analysed")
    return g.obligations


ASSUMPTIONS = ["A-antlr-tree"]
