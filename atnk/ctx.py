"""Shared context of one ATNK run: artefact paths (always below vlib.common.REPO), file hashes, cached decoded
automata, and the obligation builder. The repository's Python modules are never imported: generated sources are
read with `ast`, the ATNs with our own decoder (atnk.atn)."""
import ast
import os
import time

from vlib import common
from . import atn as atnmod
from . import g4 as g4mod

PKG = "blackbird_python/blackbird/"
CPP = "blackbird_cpp/"
FILES = {
    "g4": "src/blackbird.g4",
    "py_parser": PKG + "blackbirdParser.py",
    "py_lexer": PKG + "blackbirdLexer.py",
    "py_listener": PKG + "blackbirdListener.py",
    "py_parser_interp": PKG + "blackbird.interp",
    "py_lexer_interp": PKG + "blackbirdLexer.interp",
    "py_parser_tokens": PKG + "blackbird.tokens",
    "py_lexer_tokens": PKG + "blackbirdLexer.tokens",
    "cpp_parser": CPP + "blackbirdParser.cpp",
    "cpp_lexer": CPP + "blackbirdLexer.cpp",
    "cpp_parser_h": CPP + "blackbirdParser.h",
    "cpp_lexer_h": CPP + "blackbirdLexer.h",
    "cpp_visitor_h": CPP + "blackbirdVisitor.h",
    "cpp_parser_interp": CPP + "blackbird.interp",
    "cpp_lexer_interp": CPP + "blackbirdLexer.interp",
    "cpp_parser_tokens": CPP + "blackbird.tokens",
    "cpp_lexer_tokens": CPP + "blackbirdLexer.tokens",
    "makefile": "Makefile",
    "error_py": PKG + "error.py",
}


ASSUMPTION_TEXT = {
    "A-antlr-lexer": "the runtime lexer is maximal munch over the ATN, first rule wins ties, skip drops the token",
    "A-antlr-tree": "the parser accepts exactly the ATN's language and the tree it builds is a derivation tree of it (a child context "
                    "is attached to its parent when the sub-rule is entered)",
    "A-antlr-prec": "precedence climbing with the extracted table yields the stated binding",
    "A-antlr-predict": "a rule reached through a decision is entered only if the lookahead agrees with it up to the point where the "
                       "alternatives diverge",
    "A-antlr-error": "the first error is reported at the first token with no viable continuation, at the parser state set by the last "
                     "`self.state = n`, with the innermost open rule's context; messages render expected-token sets as DefaultErrorStrategy does",
    "A-layout-tree": "the content children of the chosen derivation do not depend on where the NEWLINE tokens are attached",
    "A-cpython-literals": "int()/float()/complex() accept the regular sets of decimal literals specified in atnk/literals.py and return "
                          "their decimal value (correctly rounded for floats)",
    "A-cpython-format": "repr/str of ints, finite floats and complex numbers lie in the regular sets stated in atnk/canon_lex.py",
}


class Ctx(object):
    def __init__(self, repo=None, tier="quick"):
        self.repo = repo or common.REPO
        self.tier = tier
        self.sha = {}            # relative path -> sha256 of every artefact read
        self.sizes = {}          # automata sizes
        self.notes = []
        self.errors = []
        self.bounded = []
        self.extra = {}
        self._cache = {}

    # ------------------------------------------------------------------ files
    def path(self, key):
        rel = FILES.get(key, key)
        p = os.path.join(self.repo, rel)
        if rel not in self.sha:
            self.sha[rel] = common.sha256_file(p)      # raises OSError if missing -> reported under errors
        return p

    def text(self, key):
        with open(self.path(key), encoding="utf-8") as f:
            return f.read()

    def cached(self, key, fn):
        if key not in self._cache:
            try:
                self._cache[key] = (True, fn())
            except Exception as e:      # remember failures too: every dependent obligation reports the same cause
                self._cache[key] = (False, e)
        ok, val = self._cache[key]
        if not ok:
            raise val
        return val

    def note(self, s):
        if s not in self.notes:
            self.notes.append(s)

    # ------------------------------------------------------------------ decoded artefacts
    def raw(self, key):
        """raw (offset) integer sequence of a carrier."""
        def load():
            p = self.path(key)
            if key.endswith("_interp"):
                return atnmod.interp_raw(p)
            if key.startswith("cpp_"):
                return atnmod.cpp_raw(p)
            return atnmod.py_raw(p)
        return self.cached(("raw", key), load)

    def parser_atn(self):
        """the parser ATN as the Python runtime sees it (Python carrier; the others are tied to it by `identity`)."""
        return self.cached("parser_atn", lambda: atnmod.decode(self.raw("py_parser")))

    def lexer_atn(self):
        return self.cached("lexer_atn", lambda: atnmod.decode(self.raw("py_lexer")))

    def grammar(self):
        return self.cached("g4", lambda: g4mod.parse(self.text("g4")))

    def module(self, key):
        return self.cached(("ast", key), lambda: ast.parse(self.text(key)))

    def py_class(self, key, name):
        for n in self.module(key).body:
            if isinstance(n, ast.ClassDef) and n.name == name:
                return n
        raise LookupError("class %s not found in %s" % (name, FILES[key]))

    def class_constants(self, key, name):
        """literal class attributes (lists of strings, ints) of a generated recogniser class, in source order."""
        def load():
            out = {}
            for st in self.py_class(key, name).body:
                if isinstance(st, ast.Assign) and len(st.targets) == 1 and isinstance(st.targets[0], ast.Name):
                    try:
                        out[st.targets[0].id] = ast.literal_eval(st.value)
                    except (ValueError, SyntaxError):
                        pass
            return out
        return self.cached(("consts", key, name), load)

    def vocabulary(self):
        """(symbolicNames, literalNames, ruleNames) of the Python parser; index = token type / rule index."""
        c = self.class_constants("py_parser", "blackbirdParser")
        return c["symbolicNames"], c["literalNames"], c["ruleNames"]

    def token_name(self, t):
        if t == -1:
            return "EOF"
        sym = self.vocabulary()[0]
        return sym[t] if 0 <= t < len(sym) else "<%d>" % t

    def token_type(self, name):
        if name == "EOF":
            return -1
        return self.vocabulary()[0].index(name)

    def rule_index(self, name):
        return self.vocabulary()[2].index(name)


class Group(object):
    """collects the obligations of one group; `check` evaluates one closed fact and times it."""

    def __init__(self, ctx, group, props, backend="closed-eval"):
        self.ctx, self.group, self.props, self.backend = ctx, group, list(props), backend
        self.obligations = []

    def check(self, specific, goal, fn, props=None, witness_families=None):
        """fn() -> True | (True, detail) | (False, detail) | (False, detail, counterexample) | ('undecided', detail)."""
        name = "%s/%s" % (self.group, specific)
        t0 = time.perf_counter()
        ob = {"name": name, "status": None, "backend": self.backend, "time_s": 0.0, "goal": goal,
              "props": list(props or self.props)}
        try:
            res = fn()
            if res is True:
                res = (True, "")
            if not isinstance(res, tuple) or len(res) < 2:
                raise TypeError("obligation function returned %r" % (res,))
            if res[0] is True:
                ob["status"] = common.DISCHARGED
            elif res[0] is False:
                ob["status"] = common.FAILED
            else:
                ob["status"] = common.UNDECIDED
            if res[1]:
                ob["detail"] = res[1]
            if len(res) > 2 and res[2] is not None:
                ob["counterexample"] = res[2]
        except Exception as e:
            ob["status"] = common.ERROR
            ob["detail"] = "%s: %s" % (type(e).__name__, e)
            msg = "%s: %s: %s" % (name, type(e).__name__, e)
            if msg not in self.ctx.errors:
                self.ctx.errors.append(msg)
        if witness_families:
            ob["witness_families"] = list(witness_families)
        ob["time_s"] = round(time.perf_counter() - t0, 4)
        self.obligations.append(ob)
        return ob
