"""Group `dominance` (C10): closed facts about the shipped parser ATN which justify PARTIAL_WF, the partial
well-formedness of the context object `BlackbirdErrorListener.syntaxError` receives: whenever it dereferences
`ctx.name()`, `ctx.vartype()`, `ctx.operation()...` the child exists, so no AttributeError can escape.

Error states of a rule = states where the runtime can report with that rule's context current: states with a
token-consuming edge (match / inline set match), decision and loop-back states (sync / adaptivePredict / no viable
alternative), states with a precedence predicate. The error sites of the generated Python code are checked to lie
inside this set. A state is *dominated* by a set of rule calls if it cannot be reached from the rule start once
those RULE edges are removed - then the child context created by the call exists (A-antlr-tree).

error.py itself is read with `ast`: the accessors it dereferences per context class must be exactly the ones the
facts below cover, and the message literals guarding the use of `op_name` are taken from its source."""
import ast

from . import automata as am
from . import codegen_sim
from . import lexer_eq
from . import look as lookmod
from . import parser_eq
from .ctx import Group

PROPS = ["C10"]
CONSUMING = ("ATOM", "RANGE", "SET", "NOT_SET", "WILDCARD")


# --------------------------------------------------------------------------------------------- graph helpers
def successors(atn, num):
    out = []
    for e in atn.states[num].edges:
        out.append((e, e.follow if e.kind == "RULE" else e.target))
    return out


def reachable(atn, r, removed=()):
    """states of rule r reachable from its start when the edges in `removed` (ids) are deleted."""
    seen, stack = {atn.rule_start[r]}, [atn.rule_start[r]]
    while stack:
        x = stack.pop()
        if atn.states[x].type == "RULE_STOP":
            continue
        for e, tgt in successors(atn, x):
            if id(e) in removed or tgt in seen:
                continue
            seen.add(tgt)
            stack.append(tgt)
    return seen


def error_states(atn, r):
    out = []
    for s in atn.rule_states(r):
        if s.type == "RULE_STOP":
            continue
        if any(e.kind in CONSUMING or e.kind == "PRECEDENCE" for e in s.edges) or s.decision >= 0 \
                or s.type in ("STAR_LOOP_BACK", "PLUS_LOOP_BACK", "STAR_LOOP_ENTRY"):
            out.append(s.number)
    return out


def calls(atn, r, callee):
    return [e for s in atn.rule_states(r) for e in s.edges if e.kind == "RULE" and e.rule == callee]


def undominated(atn, r, callees):
    """error states of r that can be reached without passing a call to any of `callees` (rule indices)."""
    removed = {id(e) for c in callees for e in calls(atn, r, c)}
    reach = reachable(atn, r, removed)
    return [s for s in error_states(atn, r) if s in reach]


def eps_from_start(atn, r):
    seen, stack = {atn.rule_start[r]}, [atn.rule_start[r]]
    while stack:
        for e in atn.states[stack.pop()].edges:
            if e.kind in ("EPSILON", "ACTION") and e.target not in seen:
                seen.add(e.target)
                stack.append(e.target)
    return seen


def code_error_sites(ctx, rule):
    """states at which the generated method of `rule` calls something that can report an error."""
    fn = codegen_sim.rule_methods(ctx).get(rule)
    if fn is None:
        raise LookupError("blackbirdParser.%s not found" % rule)
    ex = codegen_sim.extract(ctx, fn)
    return sorted({s.state for s in ex.sites if s.kind in ("match", "setmatch", "sync", "predict", "noviable", "precpred", "test") and s.state is not None})


def single_token_language(ctx, rule):
    """the token types t such that L(rule) = { t } words of length one; None if the rule's language is not of that form."""
    d = parser_eq.rule_dfa(ctx, ctx.rule_index(rule))
    if d.tag[d.start]:
        return None
    toks = set()
    for sym, q in d.trans[d.start].items():
        if sym[0] != "T" or not d.tag[q] or d.trans[q]:
            return None
        toks.add(sym[1])
    return toks


# --------------------------------------------------------------------------------------------- error.py
def error_py_facts(ctx):
    """From BlackbirdErrorListener.syntaxError: (class, variable, accessor, guarded) for every `X.acc().attr` with X
    tested by isinstance(X, blackbirdParser.<class>), and the message tests guarding the use of `op_name`."""
    tree = ctx.module("error_py")
    fn = None
    for n in ast.walk(tree):
        if isinstance(n, ast.FunctionDef) and n.name == "syntaxError":
            fn = n
    if fn is None:
        raise LookupError("syntaxError not found in error.py")
    derefs, guards = [], []

    def isinstance_test(test):
        if isinstance(test, ast.Call) and isinstance(test.func, ast.Name) and test.func.id == "isinstance" and len(test.args) == 2 \
                and isinstance(test.args[0], ast.Name) and isinstance(test.args[1], ast.Attribute) and test.args[1].attr.endswith("Context"):
            return test.args[0].id, test.args[1].attr
        return None

    def accessor_call(node, var):
        """X.acc() -> acc"""
        if isinstance(node, ast.Call) and not node.args and isinstance(node.func, ast.Attribute) and isinstance(node.func.value, ast.Name) \
                and node.func.value.id == var:
            return node.func.attr
        return None

    def scan(body, var, cls, truthy):
        for st in body:
            if isinstance(st, ast.If):
                acc = accessor_call(st.test, var)
                inner = truthy | {acc} if acc else truthy
                collect(st.test, var, cls, truthy)
                mt = _msg_test(st.test)
                if mt and any(isinstance(x, ast.Name) and x.id == "op_name" for b in st.body for x in ast.walk(b)):
                    guards.append(mt)
                scan(st.body, var, cls, inner)
                scan(st.orelse, var, cls, truthy)
            else:
                collect(st, var, cls, truthy)

    def collect(node, var, cls, truthy):
        for n in ast.walk(node):
            if isinstance(n, ast.Attribute):
                acc = accessor_call(n.value, var)
                if acc is not None:
                    derefs.append((cls, var, acc, acc in truthy, n.lineno))

    def top(body):
        for st in body:
            if isinstance(st, ast.If):
                it = isinstance_test(st.test)
                if it:
                    scan(st.body, it[0], it[1], frozenset())
                    top(st.orelse)
                    continue
                top(st.body)
                top(st.orelse)
            elif isinstance(st, (ast.While, ast.For)):
                top(st.body)
            elif isinstance(st, ast.Try):
                top(st.body)
    top(fn.body)
    return sorted(set(derefs)), guards


def _msg_test(test):
    """('eq'|'in', literal) for `msg == "lit"` / `"lit" in msg`."""
    if isinstance(test, ast.Compare) and len(test.ops) == 1:
        l, r = test.left, test.comparators[0]
        if isinstance(test.ops[0], ast.Eq) and isinstance(l, ast.Name) and l.id == "msg" and isinstance(r, ast.Constant) and isinstance(r.value, str):
            return ("eq", r.value)
        if isinstance(test.ops[0], ast.In) and isinstance(r, ast.Name) and r.id == "msg" and isinstance(l, ast.Constant) and isinstance(l.value, str):
            return ("in", l.value)
    return None


COVERED = {      # (context class, accessor) -> the obligation that makes the dereference safe
    ("ExpressionvarContext", "ctx", "name"): "dominance/expressionvar/name",
    ("ExpressionvarContext", "ctx", "vartype"): "dominance/expressionvar/vartype",
    ("ArrayvarContext", "ctx", "name"): "dominance/arrayvar/name + dominance/arrayvar/entry_fact",
    ("ArrayvarContext", "parent_ctx", "name"): "dominance/arrayvar/sub_rule_calls + dominance/arrayvar/entry_fact",
    ("ArrayvarContext", "parent_ctx", "vartype"): "dominance/arrayvar/sub_rule_calls",
}
GUARDED_OK = {("StatementContext", "ctx", "operation"): "NAME", ("StatementContext", "ctx", "measure"): "MEASURE"}


def run(ctx):
    g = Group(ctx, "dominance", PROPS)
    atn_ok = True
    try:
        atn = ctx.parser_atn()
        R = ctx.rule_index
        sym, lit, names = ctx.vocabulary()
    except Exception as e:
        ctx.errors.append("dominance: %s: %s" % (type(e).__name__, e))
        atn_ok = False
    table = {}

    def dominated_by(rule, callees, allowed=None):
        """every error state of `rule` is dominated by the calls to `callees`, except the states `allowed(s)` admits."""
        r = R(rule)
        errs = error_states(atn, r)
        code = code_error_sites(ctx, rule)
        stray = [s for s in code if s not in errs]
        if stray:
            return False, "the generated method %s can report errors at state %s, which is not an error state of the ATN rule" % (rule, stray), \
                {"rule": rule, "code_error_states": code, "atn_error_states": errs}
        und = undominated(atn, r, [R(c) for c in callees])
        table.setdefault(rule, {})["error_states"] = errs
        table[rule]["undominated_by_" + "|".join(callees)] = und
        bad = [s for s in und if not (allowed and allowed(s))]
        if bad:
            s = bad[0]
            return (False, "rule %s: error state %d (%s) can be reached without a call to %s" % (
                rule, s, "; ".join(codegen_sim.describe_edge(ctx, e) for e in atn.states[s].edges), " or ".join(callees)),
                {"rule": rule, "state": s, "undominated_states": und, "error_states": errs, "dominators": list(callees)})
        return True, "error states %s; not dominated: %s" % (errs, und)

    if atn_ok:
        g.check("expressionvar/name", "every error state of rule expressionvar lies after the call to `name` (ctx.name() is not None in "
                "ExpressionvarContext)", lambda: dominated_by("expressionvar", ["name"]))
        g.check("expressionvar/vartype", "every error state of rule expressionvar lies after the call to `vartype` (ctx.vartype() is not "
                "None in ExpressionvarContext)", lambda: dominated_by("expressionvar", ["vartype"]))

        def leading_type_array(s):
            """s is `match(TYPE_ARRAY)` directly after the leading vartype call."""
            st = atn.states[s]
            r = R("arrayvar")
            lead = [e for e in calls(atn, r, R("vartype")) if e.src in eps_from_start(atn, r)]
            return len(st.edges) == 1 and st.edges[0].kind == "ATOM" and st.edges[0].label == ctx.token_type("TYPE_ARRAY") \
                and any(e.follow == s for e in lead)
        g.check("arrayvar/name", "every error state of rule arrayvar lies after the call to `name`, except the match of TYPE_ARRAY that "
                "directly follows the leading `vartype` (which cannot fail, see arrayvar/entry_fact)",
                lambda: dominated_by("arrayvar", ["name"], leading_type_array))

        def entry_fact():
            r = R("arrayvar")
            V = single_token_language(ctx, "vartype")
            if not V:
                return False, "rule vartype does not match exactly one token", {"rule": "vartype"}
            vt_err = error_states(atn, R("vartype"))
            vt_sets = [frozenset(t for lo, hi in e.token_set() for t in range(lo, hi + 1)) for s in vt_err for e in atn.states[s].edges
                       if e.token_set() is not None]
            if len(vt_err) != 1 or vt_sets != [frozenset(V)]:
                return False, "rule vartype is not a single set match on its token set", {"error_states": vt_err}
            d = parser_eq.rule_dfa(ctx, r)
            t0 = d.trans[d.start]
            if list(t0) != [("R", R("vartype"), 0)] or d.tag[d.start]:
                return False, "rule arrayvar does not start with vartype", {"first_symbols": [parser_eq.show_symbol(ctx, s) for s in sorted(t0, key=am.sym_key)]}
            t1 = d.trans[t0[("R", R("vartype"), 0)]]
            if list(t1) != [("T", ctx.token_type("TYPE_ARRAY"))]:
                return False, "in rule arrayvar, vartype is not followed by TYPE_ARRAY only", {"second_symbols": [parser_eq.show_symbol(ctx, s) for s in sorted(t1, key=am.sym_key)]}
            sites = [e for e in atn.edges() if e.kind == "RULE" and e.rule == r]
            first = lookmod.first_sets(atn)
            for e in sites:
                u = atn.states[e.src]
                preds = [x for x in atn.edges() if x.kind != "RULE" and x.target == u.number] + [x for x in atn.edges() if x.kind == "RULE" and x.follow == u.number]
                if len(u.edges) != 1 or len(preds) != 1 or preds[0].kind != "EPSILON" or atn.states[preds[0].src].decision < 0:
                    return False, "arrayvar is called at state %d, which is not an alternative of a decision" % u.number, {"state": u.number}
                b = atn.states[preds[0].src]
                others = set()
                for alt in b.edges:
                    if alt.target != u.number:
                        others |= lookmod.look(atn, alt.target, first)
                missing = sorted(set(V) - others)
                if missing:
                    return (False, "decision %d (state %d): after %s no other alternative is viable, so arrayvar would be predicted on one token"
                            % (b.decision, b.number, [ctx.token_name(t) for t in missing]), {"decision": b.decision, "tokens": [ctx.token_name(t) for t in missing]})
                caller = names[b.rule]
                ex = codegen_sim.extract(ctx, codegen_sim.rule_methods(ctx)[caller])
                if not any(s.kind == "predict" and s.decision == b.decision for s in ex.sites):
                    return False, "blackbirdParser.%s does not decide decision %d with adaptivePredict" % (caller, b.decision), {"decision": b.decision}
            table.setdefault("arrayvar", {})["entry"] = {"first_tokens": sorted(ctx.token_name(t) for t in V), "second_token": "TYPE_ARRAY",
                                                         "call_sites": [e.src for e in sites]}
            return True, ("arrayvar = vartype TYPE_ARRAY ...; vartype is one set match on %d tokens; arrayvar is called only as an alternative of "
                          "an adaptivePredict decision in which another alternative is viable on each of those tokens, so the prediction "
                          "reads the second token" % len(V))
        g.check("arrayvar/entry_fact", "rule arrayvar is entered only through a full-LL decision that must read two tokens: every first token "
                "of arrayvar also starts another alternative, arrayvar continues only with TYPE_ARRAY, and `vartype` is a single set match "
                "on exactly those first tokens - so neither the leading vartype nor match(TYPE_ARRAY) can fail after the prediction",
                entry_fact)

        def sub_rule_calls():
            r = R("arrayvar")
            lead = {id(e) for e in calls(atn, r, R("vartype")) if e.src in eps_from_start(atn, r)}
            rm_vt = {id(e) for e in calls(atn, r, R("vartype"))}
            rm_nm = {id(e) for e in calls(atn, r, R("name"))}
            reach_vt, reach_nm = reachable(atn, r, rm_vt), reachable(atn, r, rm_nm)
            for s in atn.rule_states(r):
                for e in s.edges:
                    if e.kind != "RULE" or id(e) in lead:
                        continue
                    if e.src in reach_vt and e.rule != R("vartype"):
                        return False, "arrayvar calls %s at state %d possibly before any vartype child exists" % (names[e.rule], e.src), {"state": e.src, "callee": names[e.rule]}
                    if e.src in reach_nm and e.rule != R("name"):
                        return False, "arrayvar calls %s at state %d possibly before any name child exists" % (names[e.rule], e.src), {"state": e.src, "callee": names[e.rule]}
            return True, "sub-rule calls of arrayvar: %s" % [names[e.rule] for s in atn.rule_states(r) for e in s.edges if e.kind == "RULE"]
        g.check("arrayvar/sub_rule_calls", "while any sub-rule of arrayvar other than the leading `vartype` is active (so that an error inside it "
                "sees ArrayvarContext as an ancestor), the ArrayvarContext already has its vartype child and its name child",
                sub_rule_calls)

        def statement_first():
            r = R("statement")
            res = dominated_by("statement", ["operation", "measure"], lambda s: s in eps_from_start(atn, r))
            if res[0] is True:
                und = table["statement"]["undominated_by_operation|measure"]
                return True, "states %s (the rule's first decision, before any token) can report with neither child: PARTIAL_WF must allow " \
                             "operation() and measure() to be None there, and only there" % und
            return res
        g.check("statement/first_decision_only", "the only error states of rule statement not preceded by a call to `operation` or `measure` "
                "are those reached from the rule start without consuming anything (the first decision)", statement_first)

        def op_shape():
            for rule, tok in (("operation", "NAME"), ("measure", "MEASURE")):
                got = single_token_language(ctx, rule)
                if got != {ctx.token_type(tok)}:
                    return False, "rule %s does not match exactly one %s token" % (rule, tok), \
                        {"rule": rule, "tokens": sorted(ctx.token_name(t) for t in got) if got else None}
            return True, "L(operation) = {NAME}, L(measure) = {MEASURE}"
        g.check("statement/operation_measure_shape", "a completed `operation` child consists of exactly one NAME token and a completed `measure` "
                "child of exactly one MEASURE token (ctx.operation().NAME() / ctx.measure().MEASURE() are not None once the child is truthy "
                "and no error was reported inside it)", op_shape)

        def m1():
            derefs, guards = error_py_facts(ctx)
            if not guards:
                return True, "error.py uses op_name under no message test"
            r = R("statement")
            first = lookmod.first_sets(atn)
            removed = {id(e) for c in ("operation", "measure") for e in calls(atn, r, R(c))}
            early = sorted(reachable(atn, r, removed) - {atn.rule_stop[r]})
            dead_everywhere = []
            for kind, literal in guards:
                if "expecting " not in literal:
                    return "undecided", "message test %r is not of the form '... expecting <set>'" % literal
                want = literal.split("expecting ", 1)[1]
                for s in early:
                    lk = lookmod.look(atn, s, first)
                    toks = {t for t in lk if t != lookmod.EPS}
                    shown = lookmod.render_expected(toks, sym, lit)
                    if lookmod.EPS in lk:
                        # the expected set is a superset of toks: it can only render `want` if every element of toks is listed in it
                        possible = all(lookmod.render_expected({t}, sym, lit) in want for t in toks)
                    else:
                        possible = (shown == want) if kind == "eq" else (want in shown)
                    if possible:
                        return (False, "state %d of rule statement, reachable before operation|measure, can report 'expecting %s', which satisfies the "
                                "test %r guarding op_name" % (s, shown, literal), {"state": s, "expected": shown, "literal": literal})
                anywhere = [s.number for s in atn.states if s.type not in ("RULE_STOP", "INVALID")
                            and lookmod.EPS not in lookmod.look(atn, s.number, first)
                            and lookmod.render_expected(lookmod.look(atn, s.number, first), sym, lit) == want]
                dead_everywhere.append((literal, anywhere))
            for literal, anywhere in dead_everywhere:
                if not anywhere:
                    ctx.note("dominance/statement/M1: no state of the shipped parser ATN has the context-independent expected-token set of %r: "
                             "the branch of error.py guarded by it is dead on this grammar" % literal)
            return True, "checked %d states reachable before operation|measure against %d message literal(s)" % (len(early), len(guards))
        g.check("statement/M1", "message fact M1: no state of rule statement that can be reached before `operation`/`measure` has an expected-token "
                "set rendering as the literal(s) error.py compares `msg` with before using op_name", m1)

        def accessors():
            derefs, guards = error_py_facts(ctx)
            seen = []
            for cls, var, acc, guarded, line in derefs:
                key = (cls, var, acc)
                seen.append("%s:%s.%s()%s" % (cls, var, acc, " [guarded]" if guarded else ""))
                if key in COVERED and not guarded:
                    continue
                if key in GUARDED_OK and guarded:
                    continue
                if guarded:
                    continue       # X.acc() tested for truth before the dereference: safe without any grammar fact
                return (False, "error.py line %d dereferences %s.%s() for a %s without a truth test; no dominance fact covers it" % (line, var, acc, cls),
                        {"class": cls, "variable": var, "accessor": acc, "line": line})
            ctx.extra["error_py_dereferences"] = seen
            return True, "; ".join(seen)
        g.check("error_py_accessors", "every child accessor error.py dereferences without a truth test is one of those covered by the dominance "
                "facts of this group (ExpressionvarContext name/vartype, ArrayvarContext name, ancestor ArrayvarContext vartype/name)", accessors)

        def start_eof():
            d = parser_eq.rule_dfa(ctx, R("start"))
            if d.tag[d.start]:
                return False, "rule start accepts the empty sequence", {"sequence": []}
            for q, tr in enumerate(d.trans):
                for s in sorted(tr, key=am.sym_key):
                    if d.tag[tr[s]] and s != ("T", -1):
                        return False, "rule start can end with %s" % parser_eq.show_symbol(ctx, s), \
                            {"sequence": [parser_eq.show_symbol(ctx, x) for x in d.word[q] + (s,)]}
                    if s == ("T", -1) and (not d.tag[tr[s]] or d.trans[tr[s]]):
                        return False, "EOF inside rule start is not final", {"sequence": [parser_eq.show_symbol(ctx, x) for x in d.word[q] + (s,)]}
            return True, "every accepted sequence of rule start ends with EOF, and EOF occurs only there"
        g.check("start_requires_eof", "rule start ends in EOF: the whole input must be consumed, trailing garbage is an error", start_eof)
        ctx.extra["dominance_table"] = table

    def lexer_total():
        dfa, classes = lexer_eq.lexer_dfa(ctx)
        if classes[0][0] != 0 or classes[-1][1] != 0x10FFFF or any(classes[i][1] + 1 != classes[i + 1][0] for i in range(len(classes) - 1)):
            return False, "alphabet classes do not cover the code-point range"
        for i, (lo, hi) in enumerate(classes):
            q = dfa.trans[dfa.start].get(i)
            if q is None or not dfa.tag[q]:
                return False, "code points U+%04X..U+%04X start no token" % (lo, hi), {"code_point": lo, "string": chr(lo)}
        atn = ctx.lexer_atn()
        last = len(atn.rule_start) - 1
        nfa, st = lexer_eq.atn_lexer_nfa(atn, only_rule=last)
        d = am.determinise(am.classify(nfa, am.cut_points([nfa])), st)
        any_ok = len(d.trans[d.start]) == 1 and all(d.tag[q] and not d.trans[q] for q in d.trans[d.start].values()) \
            and am.cut_points([nfa]) == [0, 0x10FFFF + 1]
        return True, "all %d alphabet classes lead from the start state to an accepting state%s" % (
            len(classes), "; the last lexer rule matches exactly any one character" if any_ok else "")
    g.check("lexer_total", "every code point starts some token (from the lexer DFA's start state every alphabet class leads to an accepting "
            "state), so the lexer never reports an error and offendingSymbol is never None", lexer_total)
    return g.obligations


ASSUMPTIONS = ["A-antlr-tree", "A-antlr-predict", "A-antlr-error", "A-antlr-lexer"]
