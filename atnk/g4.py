"""Reader for the subset of ANTLR 4 grammar syntax used by blackbird.g4 (combined grammar, no actions, no
arguments, no options blocks, no modes). Anything outside the subset raises G4Error (the runner reports it under
`errors`, never as a failed obligation).

Lexer rule bodies become regex ASTs:  ('seq',[..]) ('alt',[..]) ('set',ranges) ('notset',ranges) ('ref',NAME)
('*',x) ('+',x) ('?',x), ranges being inclusive code-point pairs.
Parser rule bodies become alternatives {'items':[..], 'label':str|None, 'assoc':'left'|'right'} whose items are
('tok',NAME) ('ref',rule) ('alt',[seq..]) ('seq',[..]) ('*',x) ('+',x) ('?',x); element labels (x=, x+=) are dropped.
"""
import re

MAXC = 0x10FFFF


class G4Error(Exception):
    pass


class LexerRule(object):
    def __init__(self, name, fragment, ast, commands, line):
        self.name, self.fragment, self.ast, self.commands, self.line = name, fragment, ast, commands, line


class ParserRule(object):
    def __init__(self, name, alts, line):
        self.name, self.alts, self.line = name, alts, line

    def labels(self):
        return [a["label"] for a in self.alts if a["label"]]


class Grammar(object):
    def __init__(self, name, parser_rules, lexer_rules):
        self.name, self.parser_rules, self.lexer_rules = name, parser_rules, lexer_rules

    def token_rules(self):
        return [r for r in self.lexer_rules if not r.fragment]

    def lexer_rule(self, name):
        for r in self.lexer_rules:
            if r.name == name:
                return r
        raise G4Error("unknown lexer rule %s" % name)


# --------------------------------------------------------------------------------------------------- tokens
_ESC = {"n": "\n", "r": "\r", "t": "\t", "b": "\b", "f": "\f", "\\": "\\", "'": "'", '"': '"', "]": "]", "-": "-"}


def _unescape(s, where):
    """escape sequences of literals and char sets -> list of (char, was_escaped)."""
    out = []
    i = 0
    while i < len(s):
        c = s[i]
        if c != "\\":
            out.append((c, False))
            i += 1
            continue
        if i + 1 >= len(s):
            raise G4Error("dangling backslash in %s" % where)
        d = s[i + 1]
        if d == "u":
            m = re.match(r"\\u([0-9a-fA-F]{4})|\\u\{([0-9a-fA-F]+)\}", s[i:])
            if not m:
                raise G4Error("bad unicode escape in %s" % where)
            out.append((chr(int(m.group(1) or m.group(2), 16)), True))
            i += len(m.group(0))
        elif d in _ESC:
            out.append((_ESC[d], True))
            i += 2
        else:
            raise G4Error("unsupported escape \\%s in %s" % (d, where))
    return out


def tokenize(text):
    """-> list of (kind, value, line); kinds: id, lit (list of chars), set (ranges), op."""
    toks = []
    i, line, n = 0, 1, len(text)
    while i < n:
        c = text[i]
        if c == "\n":
            line += 1
            i += 1
        elif c.isspace():
            i += 1
        elif text.startswith("//", i):
            j = text.find("\n", i)
            i = n if j < 0 else j
        elif text.startswith("/*", i):
            j = text.find("*/", i + 2)
            if j < 0:
                raise G4Error("unterminated comment at line %d" % line)
            line += text.count("\n", i, j)
            i = j + 2
        elif c == "'":
            j = i + 1
            while j < n and text[j] != "'":
                if text[j] == "\n":
                    raise G4Error("newline in literal at line %d" % line)
                j += 2 if text[j] == "\\" else 1
            if j >= n:
                raise G4Error("unterminated literal at line %d" % line)
            chars = [ch for ch, _ in _unescape(text[i + 1:j], "literal at line %d" % line)]
            if not chars:
                raise G4Error("empty literal at line %d" % line)
            toks.append(("lit", (chars, text[i + 1:j]), line))
            i = j + 1
        elif c == "[":
            j = i + 1
            while j < n and text[j] != "]":
                j += 2 if text[j] == "\\" else 1
            if j >= n:
                raise G4Error("unterminated char set at line %d" % line)
            toks.append(("set", _charset(text[i + 1:j], line), line))
            i = j + 1
        elif c == "<":
            m = re.match(r"<\s*assoc\s*=\s*(right|left)\s*>", text[i:])
            if not m:
                raise G4Error("unsupported element option at line %d" % line)
            toks.append(("op", "<assoc=%s>" % m.group(1), line))
            i += len(m.group(0))
        elif text.startswith("->", i) or text.startswith("+=", i) or text.startswith("..", i):
            toks.append(("op", text[i:i + 2], line))
            i += 2
        elif c in ":;|()*+?~.#=,":
            toks.append(("op", c, line))
            i += 1
        elif c.isalpha() or c == "_":
            m = re.match(r"[A-Za-z_][A-Za-z_0-9]*", text[i:])
            toks.append(("id", m.group(0), line))
            i += len(m.group(0))
        else:
            raise G4Error("unsupported character %r at line %d" % (c, line))
    return toks


def _charset(body, line):
    chars = _unescape(body, "char set at line %d" % line)
    if not chars:
        raise G4Error("empty char set at line %d" % line)
    rs = []
    k = 0
    while k < len(chars):
        if k + 2 < len(chars) and chars[k + 1] == ("-", False):
            a, b = ord(chars[k][0]), ord(chars[k + 2][0])
            if a > b:
                raise G4Error("reversed range in char set at line %d" % line)
            rs.append((a, b))
            k += 3
        else:
            rs.append((ord(chars[k][0]), ord(chars[k][0])))
            k += 1
    return tuple(rs)


# --------------------------------------------------------------------------------------------------- parser
class _Parser(object):
    def __init__(self, toks):
        self.t = toks
        self.i = 0

    def peek(self, k=0):
        return self.t[self.i + k] if self.i + k < len(self.t) else ("eof", None, -1)

    def is_op(self, v, k=0):
        tk = self.peek(k)
        return tk[0] == "op" and tk[1] == v

    def take(self):
        tk = self.peek()
        self.i += 1
        return tk

    def expect_op(self, v):
        tk = self.take()
        if tk[0] != "op" or tk[1] != v:
            raise G4Error("expected %r at line %s, found %r" % (v, tk[2], tk[1]))

    def suffixes(self, a):
        while self.peek()[0] == "op" and self.peek()[1] in ("*", "+", "?"):
            op = self.take()[1]
            if self.is_op("?"):
                raise G4Error("non-greedy operator at line %d is outside the supported subset" % self.peek()[2])
            a = (op, a)
        return a

    # ---- lexer rule bodies
    def lex_alt(self):
        alts = [self.lex_seq()]
        while self.is_op("|"):
            self.take()
            alts.append(self.lex_seq())
        return alts[0] if len(alts) == 1 else ("alt", alts)

    def lex_seq(self):
        items = []
        while not (self.peek()[0] == "eof" or (self.peek()[0] == "op" and self.peek()[1] in ("|", ")", ";", "->"))):
            items.append(self.suffixes(self.lex_atom()))
        return ("seq", items)

    def lex_atom(self):
        kind, val, line = self.take()
        if kind == "op" and val == "(":
            a = self.lex_alt()
            self.expect_op(")")
            return a
        if kind == "lit":
            chars, raw = val
            if self.is_op(".."):
                self.take()
                k2, v2, _ = self.take()
                if k2 != "lit" or len(chars) != 1 or len(v2[0]) != 1:
                    raise G4Error("bad range at line %d" % line)
                return ("set", ((ord(chars[0]), ord(v2[0][0])),))
            return ("seq", [("set", ((ord(ch), ord(ch)),)) for ch in chars], raw)      # third field: source text of the literal
        if kind == "set":
            return ("set", val)
        if kind == "op" and val == "~":
            a = self.lex_atom()
            if a[0] == "seq" and len(a[1]) == 1 and a[1][0][0] == "set":
                a = a[1][0]
            if a[0] != "set":
                raise G4Error("'~' applied to something that is not a set at line %d" % line)
            return ("notset", a[1])
        if kind == "op" and val == ".":
            return ("set", ((0, MAXC),))
        if kind == "id":
            if not val[0].isupper():
                raise G4Error("parser rule %s referenced in a lexer rule at line %d" % (val, line))
            return ("ref", val)
        raise G4Error("unexpected %r in lexer rule at line %s" % (val, line))

    def lex_commands(self):
        cmds = []
        if self.is_op("->"):
            self.take()
            while True:
                kind, val, line = self.take()
                if kind != "id":
                    raise G4Error("bad lexer command at line %s" % line)
                if self.is_op("("):
                    self.take()
                    arg = self.take()[1]
                    self.expect_op(")")
                    val = "%s(%s)" % (val, arg)
                cmds.append(val)
                if not self.is_op(","):
                    break
                self.take()
        return cmds

    # ---- parser rule bodies
    def par_alts(self):
        alts = [self.par_alt()]
        while self.is_op("|"):
            self.take()
            alts.append(self.par_alt())
        return alts

    def par_alt(self):
        alt = {"items": [], "label": None, "assoc": "left"}
        if self.peek()[0] == "op" and self.peek()[1].startswith("<assoc="):
            alt["assoc"] = self.take()[1][7:-1]
        while not (self.peek()[0] == "eof" or (self.peek()[0] == "op" and self.peek()[1] in ("|", ")", ";"))):
            if self.is_op("#"):
                self.take()
                kind, val, line = self.take()
                if kind != "id":
                    raise G4Error("bad alternative label at line %s" % line)
                alt["label"] = val
                continue
            alt["items"].append(self.par_element())
        return alt

    def par_element(self):
        if self.peek()[0] == "id" and self.peek(1)[0] == "op" and self.peek(1)[1] in ("=", "+="):
            self.take()
            self.take()                                   # element label: no influence on the language
        kind, val, line = self.take()
        if kind == "op" and val == "(":
            alts = self.par_alts()
            self.expect_op(")")
            if any(a["label"] or a["assoc"] != "left" for a in alts):
                raise G4Error("label/option inside a sub-block at line %s" % line)
            a = ("alt", [("seq", x["items"]) for x in alts])
        elif kind == "id":
            a = ("tok", val) if (val[0].isupper()) else ("ref", val)
        elif kind == "lit":
            a = ("littok", val[1])
        else:
            raise G4Error("unexpected %r in parser rule at line %s (outside the supported subset)" % (val, line))
        return self.suffixes(a)


def parse(text):
    toks = tokenize(text)
    p = _Parser(toks)
    kind, val, line = p.take()
    if (kind, val) != ("id", "grammar"):
        raise G4Error("only combined grammars are supported (line %s)" % line)
    name = p.take()[1]
    p.expect_op(";")
    parser_rules, lexer_rules = [], []
    while p.peek()[0] != "eof":
        kind, val, line = p.take()
        fragment = False
        if kind == "id" and val == "fragment":
            fragment = True
            kind, val, line = p.take()
        if kind != "id" or val in ("options", "tokens", "channels", "mode", "import", "lexer", "parser"):
            raise G4Error("unsupported construct %r at line %s" % (val, line))
        p.expect_op(":")
        if val[0].isupper():
            ast = p.lex_alt()
            cmds = p.lex_commands()
            p.expect_op(";")
            lexer_rules.append(LexerRule(val, fragment, ast, cmds, line))
        else:
            if fragment:
                raise G4Error("fragment parser rule at line %s" % line)
            alts = p.par_alts()
            p.expect_op(";")
            parser_rules.append(ParserRule(val, alts, line))
    names = [r.name for r in parser_rules] + [r.name for r in lexer_rules]
    if len(set(names)) != len(names):
        raise G4Error("duplicate rule names")
    return Grammar(name, parser_rules, lexer_rules)


def parse_lexer_expr(text):
    """a single lexer-rule body (used for the specification languages of literals/layout/canon_lex)."""
    p = _Parser(tokenize(text))
    ast = p.lex_alt()
    if p.peek()[0] != "eof":
        raise G4Error("trailing input in expression %r" % text)
    return ast


def single_literal(rule):
    """source text of the literal a token rule consists of (ANTLR gives exactly such rules a literal name), else None."""
    a = rule.ast
    if a[0] == "seq" and len(a) == 2 and len(a[1]) == 1 and a[1][0][0] == "seq" and len(a[1][0]) == 3:
        return a[1][0][2]
    return None
