"""Group `identity` (C14): the generated artefacts agree with each other and with blackbird.g4 on everything
that is a plain table: serialized ATN integer sequences across the five carriers, `.tokens` files, vocabularies,
token constants / enums, rule names, listener / visitor method names, context-class dispatch, Makefile targets.
Every obligation is a closed comparison of data read from the files (Python sources with `ast`, C++ by regex)."""
import ast
import re

from . import atn as atnmod
from .ctx import FILES, Group

PROPS = ["C14"]


# ------------------------------------------------------------------------------------------- helpers
def first_diff(a, b):
    for i in range(min(len(a), len(b))):
        if a[i] != b[i]:
            return i
    return min(len(a), len(b)) if len(a) != len(b) else None


def seq_compare(what, a_name, a, b_name, b):
    """compare two sequences; -> obligation result with the first differing index as counterexample."""
    i = first_diff(a, b)
    if i is None:
        return True, "%d entries" % len(a)
    va = a[i] if i < len(a) else None
    vb = b[i] if i < len(b) else None
    return (False, "%s: index %d: %s has %r, %s has %r (lengths %d / %d)" % (what, i, a_name, va, b_name, vb, len(a), len(b)),
            {"what": what, "index": i, a_name: va, b_name: vb, "lengths": {a_name: len(a), b_name: len(b)}})


def cap(name):
    return name[0].upper() + name[1:]


def g4_vocabulary(ctx):
    """(symbolic, literal) lists indexed by token type (index 0 = None), from the order of the token rules."""
    from .g4 import single_literal
    sym, lit = [None], [None]
    for r in ctx.grammar().token_rules():
        sym.append(r.name)
        raw = single_literal(r)
        lit.append(None if raw is None else "'%s'" % raw)
    return sym, lit


def canonical_tokens_text(sym, lit):
    lines = ["%s=%d" % (sym[i], i) for i in range(1, len(sym))]
    lines += ["%s=%d" % (lit[i], i) for i in range(1, len(lit)) if lit[i] is not None]
    return "\n".join(lines) + "\n"


def cpp_string_vector(src, cls, name):
    m = re.search(r"%s::%s\s*=\s*\{(.*?)\};" % (cls, name), src, flags=re.S)
    if not m:
        raise LookupError("%s::%s not found" % (cls, name))
    out = []
    for s in re.findall(r'"((?:\\.|[^"\\])*)"', m.group(1)):
        out.append(re.sub(r"\\(.)", r"\1", s))
    return out


def cpp_enums(src):
    """list of enums, each an ordered list of (name, value)."""
    out = []
    for body in re.findall(r"enum\s*\{(.*?)\};", src, flags=re.S):
        out.append([(n, int(v)) for n, v in re.findall(r"([A-Za-z_][A-Za-z_0-9]*)\s*=\s*(\d+)", body)])
    return out


def context_labels(ctx):
    """names X for which enterX/exitX must exist: every rule without labelled alternatives, and every #Label of the
    others (ANTLR generates listener events for the labels instead of the rule)."""
    out = []
    for r in ctx.grammar().parser_rules:
        labels = r.labels()
        if labels:
            if len(labels) != len(r.alts):
                raise ValueError("rule %s labels only some alternatives" % r.name)
            out += sorted(set(labels), key=labels.index)
        else:
            out.append(cap(r.name))
    return out


def dump(node):
    return ast.dump(node, annotate_fields=False)


def snippet(code):
    return dump(ast.parse(code).body[0])


# ------------------------------------------------------------------------------------------- the group
def run(ctx):
    g = Group(ctx, "identity", PROPS)

    # (a) carriers ------------------------------------------------------------------------------------
    for rec, ref, others in (("parser_atn", "py_parser", [("cpp", "cpp_parser"), ("py_interp", "py_parser_interp"), ("cpp_interp", "cpp_parser_interp")]),
                             ("lexer_atn", "py_lexer", [("cpp", "cpp_lexer"), ("py_interp", "py_lexer_interp"), ("cpp_interp", "cpp_lexer_interp")])):
        for short, key in others:
            def carriers(rec=rec, ref=ref, short=short, key=key):
                a, b = ctx.raw(ref), ctx.raw(key)
                ctx.sizes["%s_raw_integers" % rec] = len(a)
                return seq_compare("%s raw integers" % rec, "py", a, short, b)
            g.check("%s/py==%s" % (rec, short), "the raw serialized-ATN integer sequence in %s equals the one in %s (all carriers of "
                    "ANTLR 4.9.2 store the same +2-offset encoding)" % (FILES[ref], FILES[key]), carriers)

    def crosscheck():
        return decoder_crosscheck(ctx)
    g.check("decoder_crosscheck", "atnk's own ATN decoder and antlr4's ATNDeserializer produce the same graph (states, rules, "
            "modes, decisions, transitions with labels, lexer actions) for the parser and the lexer ATN", crosscheck)

    # (b) .tokens and vocabularies ----------------------------------------------------------------------
    for key in ("py_lexer_tokens", "cpp_parser_tokens", "cpp_lexer_tokens"):
        def same(key=key):
            a, b = ctx.text("py_parser_tokens").split("\n"), ctx.text(key).split("\n")
            return seq_compare(".tokens lines", FILES["py_parser_tokens"], a, FILES[key], b)
        g.check("tokens/%s==%s" % ("py_parser", key[:-7]), "%s is identical to %s" % (FILES[key], FILES["py_parser_tokens"]), same)

    def tokens_vs_g4():
        sym, lit = g4_vocabulary(ctx)
        want = canonical_tokens_text(sym, lit).split("\n")
        got = ctx.text("py_parser_tokens").split("\n")
        return seq_compare(".tokens lines vs g4 token rules", "g4", want, "file", got)
    g.check("tokens/py_parser==g4", "blackbird.tokens lists NAME=type for the non-fragment lexer rules of the g4 in order, then "
            "'literal'=type for the single-literal rules", tokens_vs_g4)

    def py_vocab(key, cls, is_lexer):
        sym, lit = g4_vocabulary(ctx)
        c = ctx.class_constants(key, cls)
        want_sym = ["<INVALID>"] + sym[1:]
        r = seq_compare("symbolicNames", "g4", want_sym, "py", c.get("symbolicNames", []))
        if r[0] is not True:
            return r
        if is_lexer:       # the Python lexer template drops the gaps
            want_lit = ["<INVALID>"] + [x for x in lit[1:] if x is not None]
        else:              # index aligned, truncated after the last literal
            last = max(i for i, x in enumerate(lit) if x is not None)
            want_lit = ["<INVALID>"] + [x if x is not None else "<INVALID>" for x in lit[1:last + 1]]
        r = seq_compare("literalNames", "g4", want_lit, "py", c.get("literalNames", []))
        if r[0] is not True:
            return r
        consts = [(k, v) for k, v in c.items() if isinstance(v, int) and not isinstance(v, bool) and not k.startswith("RULE_")]
        r = seq_compare("token constants", "g4", [(sym[i], i) for i in range(1, len(sym))], "py", consts)
        if r[0] is not True:
            return r
        if c.get("grammarFileName") != "blackbird.g4":
            return False, "grammarFileName is %r" % c.get("grammarFileName"), {"grammarFileName": c.get("grammarFileName")}
        if is_lexer:
            r = seq_compare("lexer ruleNames", "g4", [x.name for x in ctx.grammar().lexer_rules], "py", c.get("ruleNames", []))
            if r[0] is not True:
                return r
            if c.get("modeNames") != ["DEFAULT_MODE"]:
                return False, "modeNames is %r" % c.get("modeNames"), {"modeNames": c.get("modeNames")}
        return True, "%d token types, %d literal names" % (len(sym) - 1, sum(1 for x in lit if x))
    g.check("vocabulary/py_parser", "symbolicNames, literalNames and the token constants of blackbirdParser.py equal the token "
            "rules of the g4 in order", lambda: py_vocab("py_parser", "blackbirdParser", False))
    g.check("vocabulary/py_lexer", "symbolicNames, literalNames, token constants, ruleNames and modeNames of blackbirdLexer.py "
            "equal the lexer rules of the g4 in order", lambda: py_vocab("py_lexer", "blackbirdLexer", True))

    def cpp_vocab(hkey, ckey, cls, is_lexer):
        sym, lit = g4_vocabulary(ctx)
        enums = cpp_enums(ctx.text(hkey))
        if not enums:
            return False, "no enum in %s" % FILES[hkey], {"file": FILES[hkey]}
        r = seq_compare("token enum", "g4", [(sym[i], i) for i in range(1, len(sym))], "cpp", enums[0])
        if r[0] is not True:
            return r
        src = ctx.text(ckey)
        r = seq_compare("_symbolicNames", "g4", [""] + sym[1:], "cpp", cpp_string_vector(src, cls, "_symbolicNames"))
        if r[0] is not True:
            return r
        last = max(i for i, x in enumerate(lit) if x is not None)
        r = seq_compare("_literalNames", "g4", [""] + [x or "" for x in lit[1:last + 1]], "cpp", cpp_string_vector(src, cls, "_literalNames"))
        if r[0] is not True:
            return r
        if is_lexer:
            r = seq_compare("lexer _ruleNames", "g4", [x.name for x in ctx.grammar().lexer_rules], "cpp", cpp_string_vector(src, cls, "_ruleNames"))
            if r[0] is not True:
                return r
            if cpp_string_vector(src, cls, "_modeNames") != ["DEFAULT_MODE"]:
                return False, "_modeNames differs", {"_modeNames": cpp_string_vector(src, cls, "_modeNames")}
        return True, "%d enum constants" % len(enums[0])
    g.check("vocabulary/cpp_parser", "the token enum of blackbirdParser.h and _symbolicNames/_literalNames of blackbirdParser.cpp "
            "equal the token rules of the g4 in order", lambda: cpp_vocab("cpp_parser_h", "cpp_parser", "blackbirdParser", False))
    g.check("vocabulary/cpp_lexer", "the token enum of blackbirdLexer.h and _symbolicNames/_literalNames/_ruleNames/_modeNames of "
            "blackbirdLexer.cpp equal the lexer rules of the g4 in order", lambda: cpp_vocab("cpp_lexer_h", "cpp_lexer", "blackbirdLexer", True))

    def interp_names():
        sym, lit = g4_vocabulary(ctx)
        want_sym = ["null"] + sym[1:]
        want_lit = ["null"] + [x or "null" for x in lit[1:]]
        for key, rules in (("py_parser_interp", [r.name for r in ctx.grammar().parser_rules]),
                           ("cpp_parser_interp", [r.name for r in ctx.grammar().parser_rules]),
                           ("py_lexer_interp", [r.name for r in ctx.grammar().lexer_rules]),
                           ("cpp_lexer_interp", [r.name for r in ctx.grammar().lexer_rules])):
            sec = atnmod.interp_sections(ctx.path(key))
            for title, want in (("token symbolic names", want_sym), ("token literal names", want_lit), ("rule names", rules)):
                r = seq_compare("%s: %s" % (FILES[key], title), "g4", want, "interp", sec.get(title, []))
                if r[0] is not True:
                    return r
            if "mode names" in sec and sec["mode names"] != ["DEFAULT_MODE"]:
                return False, "%s: mode names %r" % (FILES[key], sec["mode names"]), {"file": FILES[key], "mode names": sec["mode names"]}
        return True, "4 files"
    g.check("vocabulary/interp", "the name sections of the four .interp files equal the rules of the g4 in order", interp_names)

    # (c) rule names -------------------------------------------------------------------------------------
    def py_rules():
        names = [r.name for r in ctx.grammar().parser_rules]
        c = ctx.class_constants("py_parser", "blackbirdParser")
        r = seq_compare("ruleNames", "g4", names, "py", c.get("ruleNames", []))
        if r[0] is not True:
            return r
        consts = [(k, v) for k, v in c.items() if k.startswith("RULE_")]
        return seq_compare("RULE_ constants", "g4", [("RULE_" + n, i) for i, n in enumerate(names)], "py", consts)
    g.check("rule_names/py_parser", "ruleNames and the RULE_ constants of blackbirdParser.py are the parser rules of the g4 in order", py_rules)

    def cpp_rules():
        names = [r.name for r in ctx.grammar().parser_rules]
        r = seq_compare("_ruleNames", "g4", names, "cpp", cpp_string_vector(ctx.text("cpp_parser"), "blackbirdParser", "_ruleNames"))
        if r[0] is not True:
            return r
        enums = cpp_enums(ctx.text("cpp_parser_h"))
        if len(enums) < 2:
            return False, "no rule enum in blackbirdParser.h", {"enums": len(enums)}
        return seq_compare("Rule enum", "g4", [("Rule" + cap(n), i) for i, n in enumerate(names)], "cpp", enums[1])
    g.check("rule_names/cpp_parser", "_ruleNames of blackbirdParser.cpp and the Rule enum of blackbirdParser.h are the parser rules "
            "of the g4 in order", cpp_rules)

    # (d) listener ---------------------------------------------------------------------------------------
    def listener_noop():
        cls = ctx.py_class("py_listener", "blackbirdListener")
        want = [p + x for x in context_labels(ctx) for p in ("enter", "exit")]
        have = {}
        for st in cls.body:
            if not isinstance(st, ast.FunctionDef):
                return False, "line %d: the listener class contains a %s, not only methods" % (st.lineno, type(st).__name__), \
                    {"line": st.lineno, "node": type(st).__name__}
            have[st.name] = st
        missing = [m for m in want if m not in have]
        if missing:
            return False, "missing listener method %s" % missing[0], {"missing": missing}
        for name in sorted(have):
            fn = have[name]
            if not (len(fn.body) == 1 and isinstance(fn.body[0], ast.Pass)) or fn.decorator_list:
                return False, "blackbirdListener.%s (line %d) is not just `pass`" % (name, fn.lineno), \
                    {"method": name, "line": fn.lineno, "body": [type(s).__name__ for s in fn.body]}
            if [a.arg for a in fn.args.args] != ["self", "ctx"] or fn.args.vararg or fn.args.kwarg or fn.args.defaults:
                return False, "blackbirdListener.%s has signature %s" % (name, [a.arg for a in fn.args.args]), {"method": name}
        extra = sorted(set(have) - set(want))
        if [dump(b) for b in cls.bases] != [dump(ast.parse("ParseTreeListener").body[0].value)]:
            return False, "blackbirdListener does not derive from exactly ParseTreeListener", {"bases": [dump(b) for b in cls.bases]}
        return True, "%d methods, all `pass`%s" % (len(have), "; extra: %s" % extra if extra else "")
    g.check("listener_noop", "blackbirdListener has enterX/exitX for every rule and #Label of the g4, and every method body is "
            "just `pass` (the base listener does nothing)", listener_noop, props=["C14", "C02", "C12"])

    # (e) dispatch ---------------------------------------------------------------------------------------
    def dispatch():
        parser_cls = ctx.py_class("py_parser", "blackbirdParser")
        classes = {st.name: st for st in parser_cls.body if isinstance(st, ast.ClassDef)}
        want = {}
        for r in ctx.grammar().parser_rules:
            labels = r.labels()
            base = cap(r.name) + "Context"
            want[base] = ("rule", r.name, bool(labels))
            for lab in labels:
                want[lab + "Context"] = ("label", r.name, base)
        if sorted(classes) != sorted(want):
            d = sorted(set(classes) ^ set(want))
            return False, "context classes differ from rules/labels of the g4: %s" % d, {"difference": d}
        n = 0
        for cname in sorted(want):
            kind, rule, info = want[cname]
            cls = classes[cname]
            methods = {st.name: st for st in cls.body if isinstance(st, ast.FunctionDef)}
            base = dump(cls.bases[0]) if len(cls.bases) == 1 else None
            own = cname[:-len("Context")]
            need_dispatch = kind == "label" or not info
            if kind == "rule":
                if base != dump(ast.parse("ParserRuleContext").body[0].value):
                    return False, "%s does not derive from ParserRuleContext" % cname, {"class": cname}
                gi = methods.get("getRuleIndex")
                if gi is None or [dump(s) for s in gi.body] != [snippet("return blackbirdParser.RULE_%s" % rule)]:
                    return False, "%s.getRuleIndex does not return blackbirdParser.RULE_%s" % (cname, rule), {"class": cname, "rule": rule}
            else:
                if base != dump(ast.parse(info).body[0].value):
                    return False, "%s does not derive from %s" % (cname, info), {"class": cname, "base": info}
                init = methods.get("__init__")
                if init is None or snippet("self.copyFrom(ctx)") not in [dump(s) for s in init.body]:
                    return False, "%s.__init__ does not copyFrom its parent context" % cname, {"class": cname}
                if "getRuleIndex" in methods:
                    return False, "%s overrides getRuleIndex" % cname, {"class": cname}
            for which in ("enter", "exit"):
                fn = methods.get(which + "Rule")
                if not need_dispatch:
                    if fn is not None:
                        return False, "%s defines %sRule although its alternatives are labelled" % (cname, which), {"class": cname}
                    continue
                expect = snippet('if hasattr( listener, "%s%s" ):\n    listener.%s%s(self)' % (which, own, which, own))
                if fn is None or [dump(s) for s in fn.body] != [expect] or [a.arg for a in fn.args.args] != ["self", "listener"]:
                    return False, "%s.%sRule does not dispatch to listener.%s%s guarded by hasattr" % (cname, which, which, own), \
                        {"class": cname, "method": which + "Rule", "line": getattr(fn, "lineno", None)}
                n += 1
        return True, "%d context classes, %d dispatch methods" % (len(want), n)
    g.check("dispatch", "every context class of blackbirdParser.py dispatches enterRule/exitRule to the listener method of its own "
            "rule or label (guarded by hasattr), getRuleIndex returns its own RULE_ constant, labelled contexts copyFrom their parent",
            dispatch, props=["C14", "C02"])

    def cpp_visitor():
        src = ctx.text("cpp_visitor_h")
        have = re.findall(r"virtual\s+antlrcpp::Any\s+(visit[A-Za-z_0-9]+)\s*\(\s*blackbirdParser::([A-Za-z_0-9]+)\s*\*", src)
        want = sorted(("visit" + x, x + "Context") for x in context_labels(ctx))
        if sorted(have) != want:
            d = sorted(set(have) ^ set(want))
            return False, "visitor methods differ from rules/labels of the g4: %s" % (d[:4],), {"difference": [list(x) for x in d]}
        return True, "%d visit methods (names only; C++ bodies are not analysed)" % len(have)
    g.check("cpp_visitor_names", "blackbirdVisitor.h declares visitX(XContext*) for exactly the rules and #Labels of the g4 (names only)", cpp_visitor)

    # (f) build files ------------------------------------------------------------------------------------
    def makefile():
        text = ctx.text("makefile")
        facts = [
            ("grammar variable", r"(?m)^GRAMMAR\s*:=\s*blackbird\.g4\s*$"),
            ("grammar target", r"(?m)^grammar\s*:\s*grammar-python\s+grammar-cpp\s*$"),
            ("python target", r"(?m)^grammar-python\s*:\s*src/\$\(GRAMMAR\)\s*\n\tcd src && \$\(ANTLR4\) -Dlanguage=Python3 \$\(GRAMMAR\) -o \.\./blackbird_python/blackbird\s*$"),
            ("cpp target", r"(?m)^grammar-cpp\s*:\s*src/\$\(GRAMMAR\)\s*\n\tcd src && \$\(ANTLR4\) -Dlanguage=Cpp -visitor -no-listener \$\(GRAMMAR\) -o \.\./blackbird_cpp\s*$"),
        ]
        for name, rx in facts:
            if not re.search(rx, text):
                return False, "Makefile: %s does not have the expected form" % name, {"fact": name, "regex": rx}
        import os
        for sub in ("blackbird_python", "blackbird_cpp"):
            for root, _dirs, files in sorted(os.walk(os.path.join(ctx.repo, sub))):
                for f in sorted(files):
                    if f in ("Makefile", "makefile", "GNUmakefile") or f.endswith(".mk"):
                        return False, "unexpected build file %s" % os.path.join(root, f), {"file": os.path.relpath(os.path.join(root, f), ctx.repo)}
                    if f == "CMakeLists.txt" and re.search(r"\.g4|org\.antlr\.v4\.Tool|antlr4?\s+-Dlanguage", open(os.path.join(root, f), encoding="utf-8").read()):
                        return False, "%s regenerates the parser" % os.path.join(root, f), {"file": os.path.relpath(os.path.join(root, f), ctx.repo)}
        m = re.search(r"antlr-([0-9.]+)-complete\.jar", text)
        if m and m.group(1) != "4.9.2":
            ctx.note("identity/makefile: the Makefile's ANTLR4 variable names antlr-%s-complete.jar, the shipped artefacts were "
                     "generated by ANTLR 4.9.2 (headers, checkVersion): regenerating with the Makefile as is would not reproduce them" % m.group(1))
        return True, "grammar-python: src/blackbird.g4 -> blackbird_python/blackbird (Python3); grammar-cpp: src/blackbird.g4 -> blackbird_cpp (Cpp, visitor)"
    g.check("makefile", "the Makefile's regeneration targets read src/blackbird.g4 and write to blackbird_python/blackbird (Python3) "
            "and blackbird_cpp (Cpp -visitor -no-listener); no other Makefile regenerates the parsers", makefile)

    def generator():
        seen = {}
        for key in ("py_parser", "py_lexer", "py_listener", "cpp_parser", "cpp_lexer", "cpp_parser_h", "cpp_lexer_h", "cpp_visitor_h"):
            m = re.search(r"Generated from (\S+) by ANTLR (\S+)", ctx.text(key)[:400])
            seen[FILES[key]] = (m.group(1), m.group(2)) if m else None
        for key in ("py_parser", "py_lexer"):
            m = re.search(r'self\.checkVersion\("([^"]+)"\)', ctx.text(key))
            seen[FILES[key] + ":checkVersion"] = ("blackbird.g4", m.group(1)) if m else None
        vals = sorted(set(seen.values()), key=str)
        if len(vals) != 1 or vals[0] is None or vals[0][0] != "blackbird.g4":
            return False, "generation headers differ: %s" % vals, {"headers": {k: list(v) if v else None for k, v in sorted(seen.items())}}
        ctx.extra["antlr_tool_version"] = vals[0][1]
        return True, "all generated from blackbird.g4 by ANTLR %s" % vals[0][1]
    g.check("generator_version", "all generated files were generated from blackbird.g4 by one ANTLR version, which is the version "
            "the Python recognisers check at construction", generator)
    return g.obligations


# ------------------------------------------------------------------------------------------- decoder cross-check
def decoder_crosscheck(ctx):
    """Feed the Python carriers to antlr4's ATNDeserializer and compare its object graph with ours."""
    from antlr4.atn.ATNDeserializer import ATNDeserializer
    from antlr4.atn import Transition as T
    from antlr4.atn import ATNState as S
    total = 0
    for key, mine in (("py_parser", ctx.parser_atn()), ("py_lexer", ctx.lexer_atn())):
        raw = ctx.raw(key)
        theirs = ATNDeserializer().deserialize("".join(chr(v) for v in raw))
        tnames = {S.ATNState.BASIC: "BASIC", S.ATNState.RULE_START: "RULE_START", S.ATNState.BLOCK_START: "BLOCK_START",
                  S.ATNState.PLUS_BLOCK_START: "PLUS_BLOCK_START", S.ATNState.STAR_BLOCK_START: "STAR_BLOCK_START",
                  S.ATNState.TOKEN_START: "TOKEN_START", S.ATNState.RULE_STOP: "RULE_STOP", S.ATNState.BLOCK_END: "BLOCK_END",
                  S.ATNState.STAR_LOOP_BACK: "STAR_LOOP_BACK", S.ATNState.STAR_LOOP_ENTRY: "STAR_LOOP_ENTRY",
                  S.ATNState.PLUS_LOOP_BACK: "PLUS_LOOP_BACK", S.ATNState.LOOP_END: "LOOP_END"}

        def fail(what, a, b):
            return False, "%s: %s: own decoder %r, antlr4 %r" % (ctx_file, what, a, b), {"file": ctx_file, "what": what, "own": a, "antlr4": b}
        ctx_file = FILES[key]

        def norm_rule(v):     # the Python runtime decodes the "none" marker 0xFFFF as 65534 (its offset arithmetic differs)
            return -1 if v in (65534, 65535, -1) else v
        if (mine.grammar_type, mine.max_token_type) != (int(theirs.grammarType), theirs.maxTokenType):
            return fail("grammar type / max token type", (mine.grammar_type, mine.max_token_type), (int(theirs.grammarType), theirs.maxTokenType))
        if len(mine.states) != len(theirs.states):
            return fail("number of states", len(mine.states), len(theirs.states))
        for s, t in zip(mine.states, theirs.states):
            if t is None:
                if s.type != "INVALID":
                    return fail("state %d type" % s.number, s.type, None)
                continue
            sig_m = (s.type, s.rule, s.non_greedy if s.type in atnmod.DECISION_TYPES else False, s.decision if s.type in atnmod.DECISION_TYPES else -1)
            sig_t = (tnames.get(t.stateType), norm_rule(t.ruleIndex), bool(getattr(t, "nonGreedy", False)), getattr(t, "decision", -1))
            if sig_m != sig_t:
                return fail("state %d (type, rule, nonGreedy, decision)" % s.number, sig_m, sig_t)
            if s.type == "RULE_START" and s.precedence_rule != bool(t.isPrecedenceRule):
                return fail("state %d isPrecedenceRule" % s.number, s.precedence_rule, bool(t.isPrecedenceRule))
            if s.type in atnmod.BLOCK_STARTS and s.aux != t.endState.stateNumber:
                return fail("state %d endState" % s.number, s.aux, t.endState.stateNumber)
            if s.type == "LOOP_END" and s.aux != t.loopBackState.stateNumber:
                return fail("state %d loopBackState" % s.number, s.aux, t.loopBackState.stateNumber)
            if s.type == "RULE_STOP":
                continue          # the runtime adds derived return edges to stop states; they are not serialized
            theirs_edges = [their_signature(T, e) for e in t.transitions]
            mine_edges = [e.signature() for e in s.edges]
            if mine_edges != theirs_edges:
                return fail("transitions of state %d" % s.number, mine_edges, theirs_edges)
            total += len(mine_edges)
        if mine.rule_start != [x.stateNumber for x in theirs.ruleToStartState]:
            return fail("rule start states", mine.rule_start, [x.stateNumber for x in theirs.ruleToStartState])
        if mine.rule_stop != [x.stateNumber for x in theirs.ruleToStopState]:
            return fail("rule stop states", mine.rule_stop, [x.stateNumber for x in theirs.ruleToStopState])
        if mine.grammar_type == atnmod.LEXER:
            if mine.rule_token_type != list(theirs.ruleToTokenType):
                return fail("rule token types", mine.rule_token_type, list(theirs.ruleToTokenType))
            acts = [(type(a).__name__, ) for a in theirs.lexerActions]
            if [("Lexer%s%sAction" % (n[0].upper(), n[1:]),) for n, _, _ in mine.lexer_actions] != acts:
                return fail("lexer actions", mine.lexer_actions, acts)
        if mine.modes != [x.stateNumber for x in theirs.modeToStartState]:
            return fail("mode start states", mine.modes, [x.stateNumber for x in theirs.modeToStartState])
        if mine.decisions != [x.stateNumber for x in theirs.decisionToState]:
            return fail("decision states", mine.decisions, [x.stateNumber for x in theirs.decisionToState])
    ctx.note("identity/decoder_crosscheck: antlr4-python3-runtime decodes the 'none' marker (raw 1 = 0xFFFF) as 65534, so its "
             "TokensStartState has ruleIndex 65534 and the action-less ACTION edge of `expression` has actionIndex 65534 where "
             "the format says -1; normalised in the comparison")
    return True, "%d transitions compared" % total


def their_signature(T, e):
    def ivs(label):
        return tuple((iv.start, iv.stop - 1) for iv in label.intervals)
    if isinstance(e, T.AtomTransition):
        return ("ATOM", e.target.stateNumber, e.label_)
    if isinstance(e, T.RangeTransition):
        return ("RANGE", e.target.stateNumber, e.start, e.stop)
    if isinstance(e, T.NotSetTransition):
        return ("NOT_SET", e.target.stateNumber, ivs(e.label))
    if isinstance(e, T.SetTransition):
        return ("SET", e.target.stateNumber, ivs(e.label))
    if isinstance(e, T.RuleTransition):
        return ("RULE", e.target.stateNumber, e.ruleIndex, e.precedence, e.followState.stateNumber)
    if isinstance(e, T.PrecedencePredicateTransition):
        return ("PRECEDENCE", e.target.stateNumber, e.precedence)
    if isinstance(e, T.PredicateTransition):
        return ("PREDICATE", e.target.stateNumber, e.ruleIndex, e.predIndex, e.isCtxDependent)
    if isinstance(e, T.ActionTransition):
        return ("ACTION", e.target.stateNumber, e.ruleIndex, -1 if e.actionIndex in (65534, 65535) else e.actionIndex, e.isCtxDependent)
    if isinstance(e, T.WildcardTransition):
        return ("WILDCARD", e.target.stateNumber)
    if isinstance(e, T.EpsilonTransition):
        return ("EPSILON", e.target.stateNumber)
    return (type(e).__name__, e.target.stateNumber)


TRUSTED = ["antlr4-python3-runtime ATNDeserializer (only as the second opinion in identity/decoder_crosscheck)"]
