"""Group `layout` (C18): lexical lemmas LX1-LX4 on the DFA of the shipped lexer and the NEWLINE-stutter lemma on
the shipped parser ATN.

LX1  T(NEWLINE) = {CR LF, CR, LF} (so CR LF is one token by maximal munch); after CR only LF continues a token.
LX2  a run of blanks is one token: T(SPACE) u T(TAB) = [ \\t]+, T(TAB) = {tab, four spaces}; after 1-3 spaces every
     character other than space/tab ends the (skipped) SPACE token; SPACE is skipped, TAB and NEWLINE are not.
LX3  T(COMMENT) = '#' followed by anything but CR/LF, skipped; no token that does not start with a blank, '#', CR,
     LF or '"' can contain space, tab, '#', CR or LF; a token starting with '"' cannot contain CR or LF.
LX4  the lexer has a single mode.
Stutter lemma: replacing every NEWLINE atom by NEWLINE+ leaves the rule language unchanged for exactly `start`,
`metadatablock`, `program`, `statement`; plus the optional final NEWLINE before EOF."""
from . import automata as am
from . import lexer_eq
from . import lexlang
from . import parser_eq
from .ctx import Group

PROPS = ["C18"]
STUTTER_RULES = ["start", "metadatablock", "program", "statement"]
NON_STUTTER_RULES = ["arrayvar", "arrayval", "forloop"]
LAYOUT_CHARS = " \t#\r\n"


def reach(dfa, first_classes):
    """DFA states reachable from the start by a word whose first symbol is in first_classes."""
    seen = set()
    stack = [dfa.trans[dfa.start][c] for c in first_classes if c in dfa.trans[dfa.start]]
    while stack:
        q = stack.pop()
        if q in seen:
            continue
        seen.add(q)
        stack.extend(dfa.trans[q].values())
    return seen


def stutter(nfa, nl):
    """copy of a rule NFA in which every NEWLINE transition may be repeated (NEWLINE -> NEWLINE+)."""
    m = nfa.copy()
    for a in sorted(nfa.tr):
        for sym, b in nfa.tr[a]:
            if sym == nl:
                s = m.new()
                m.t(a, nl, s)
                m.t(s, nl, s)
                m.e(s, b)
    return m


def stutter_check(ctx, rule):
    nl = ("T", ctx.token_type("NEWLINE"))
    nfa, start, _ = parser_eq.atn_rule_nfa(ctx.parser_atn(), ctx.rule_index(rule))
    st = stutter(nfa, nl)
    alphabet = sorted(nfa.symbols() | {nl}, key=am.sym_key)
    bad, pairs = am.compare(am.determinise(nfa, start, alphabet), am.determinise(st, start, alphabet), alphabet)
    return bad, pairs


def run(ctx):
    g = Group(ctx, "layout", PROPS)

    def token_language(tok, regex, mode="equal"):
        r = lexlang.decide(lexlang.full_lexer(ctx), lexlang.spec(regex), mode, tag_a=ctx.token_type(tok))
        return lexlang.result(ctx, *r, a_name="T(%s)" % tok, b_name="specification")

    def skipped():
        atn = ctx.lexer_atn()
        acts = lexer_eq.atn_actions_by_rule(atn)
        return sorted(ctx.token_name(atn.rule_token_type[r]) for r, v in acts.items() if "skip" in v)

    def classes_of_chars(classes, chars):
        return sorted({lexer_eq.class_of(classes, ord(c)) for c in chars})

    def lx1():
        res = token_language("NEWLINE", "'\\r\\n' | '\\r' | '\\n'")
        if res[0] is not True:
            return res
        dfa, classes = lexer_eq.lexer_dfa(ctx)
        cr, lf = classes_of_chars(classes, "\r")[0], classes_of_chars(classes, "\n")[0]
        if classes[cr] != (13, 13) or classes[lf] != (10, 10):
            return False, "CR / LF share an alphabet class with other characters", {"classes": [list(classes[cr]), list(classes[lf])]}
        for q in sorted(reach(dfa, [cr, lf])):
            extra = sorted(set(dfa.trans[q]) - {lf})
            if extra or (dfa.trans[q] and dfa.word[q] != (cr,)):
                return False, "after %r the lexer can continue a token with a character other than LF" % lexer_eq.word_to_string(classes, dfa.word[q]), \
                    {"prefix": lexer_eq.word_to_string(classes, dfa.word[q]), "continuations": [list(classes[c]) for c in extra]}
        if "NEWLINE" in skipped():
            return False, "NEWLINE is skipped", {"skipped": skipped()}
        return True, "T(NEWLINE) = {CRLF, CR, LF}; only CR can be continued, and only by LF; NEWLINE is not skipped"
    g.check("LX1_newline", "LX1: the strings lexed as NEWLINE are exactly CR LF, CR, LF, and CR LF is one token", lx1)

    def lx2():
        for tok, regex, mode in (("TAB", "'\\t' | '    '", "equal"), ("SPACE", "[ \\t]+", "included")):
            res = token_language(tok, regex, mode)
            if res[0] is not True:
                return res
        dfa, classes = lexer_eq.lexer_dfa(ctx)
        blanks = classes_of_chars(classes, " \t")
        if [classes[c] for c in blanks] != [(9, 9), (32, 32)]:
            return False, "space / tab share an alphabet class with other characters", {"classes": [list(classes[c]) for c in blanks]}
        space, tab = ctx.token_type("SPACE"), ctx.token_type("TAB")
        for q in sorted(reach(dfa, blanks)):
            w = lexer_eq.word_to_string(classes, dfa.word[q])
            if dfa.tag[q] not in (space, tab):
                return False, "the blank run %r is lexed as %s" % (w, ctx.token_name(dfa.tag[q]) if dfa.tag[q] else None), {"string": w}
            extra = sorted(set(dfa.trans[q]) - set(blanks))
            if extra:
                return False, "after the blank run %r a non-blank character continues the token" % w, \
                    {"prefix": w, "continuations": [list(classes[c]) for c in extra]}
        for k in (1, 2, 3):
            q = lexer_eq.run_string(dfa, classes, " " * k)
            if q is None or dfa.tag[q] != space:
                return False, "%d spaces are not lexed as SPACE" % k, {"string": " " * k}
        sk = skipped()
        if "SPACE" not in sk or "TAB" in sk:
            return False, "skip actions: %s" % sk, {"skipped": sk}
        return True, "blank runs are one SPACE or TAB token; TAB = {tab, 4 spaces}; after 1-3 spaces any non-blank ends the skipped SPACE token"
    g.check("LX2_blanks", "LX2: a maximal run of spaces/tabs is a single token, TAB exactly for one tab or exactly four spaces, otherwise a "
            "skipped SPACE; one to three spaces followed by a non-blank character are one skipped SPACE", lx2)

    def lx3():
        res = token_language("COMMENT", "'#' ~[\\r\\n]*")
        if res[0] is not True:
            return res
        if "COMMENT" not in skipped():
            return False, "COMMENT is not skipped", {"skipped": skipped()}
        dfa, classes = lexer_eq.lexer_dfa(ctx)
        lay = classes_of_chars(classes, LAYOUT_CHARS)
        if any(classes[c][0] != classes[c][1] for c in lay):
            return False, "a layout character shares an alphabet class with other characters", {"classes": [list(classes[c]) for c in lay]}
        quote = classes_of_chars(classes, '"')
        others = [c for c in range(len(classes)) if c not in lay and c not in quote]
        for q in sorted(reach(dfa, others)):
            hit = sorted(set(dfa.trans[q]) & set(lay))
            if hit:
                w = lexer_eq.word_to_string(classes, dfa.word[q])
                return False, "after %r a token can continue with the layout character %r" % (w, chr(classes[hit[0]][0])), \
                    {"prefix": w, "layout_char": chr(classes[hit[0]][0])}
        crlf = classes_of_chars(classes, "\r\n")
        for q in sorted(reach(dfa, quote)):
            hit = sorted(set(dfa.trans[q]) & set(crlf))
            if hit:
                w = lexer_eq.word_to_string(classes, dfa.word[q])
                return False, "a token starting with '\"' can continue over a line end after %r" % w, {"prefix": w}
        return True, "T(COMMENT) = '#' ~[CR LF]*, skipped; tokens not starting with blank/#/CR/LF/\" never contain blank, #, CR, LF; quoted tokens never contain CR/LF"
    g.check("LX3_comments", "LX3: '#' outside a string starts a skipped COMMENT that ends before the line end, and no other token contains "
            "space, tab, '#', CR or LF (an edit at a token boundary cannot change the neighbouring tokens)", lx3)

    def lx4():
        atn = ctx.lexer_atn()
        if len(atn.modes) != 1 or any(a[0] != "skip" for a in atn.lexer_actions):
            return False, "%d modes, actions %s" % (len(atn.modes), atn.lexer_actions), {"modes": len(atn.modes)}
        return True, "one mode, only skip actions"
    g.check("LX4_single_mode", "LX4: the lexer has a single mode and no mode-changing action", lx4)

    # ---------------------------------------------------------------------------------- stutter lemma
    for rule in STUTTER_RULES:
        def one(rule=rule):
            bad, pairs = stutter_check(ctx, rule)
            if bad is None:
                return True, "%d product states" % pairs
            word = bad[0]
            return (False, "with NEWLINE+ the rule also accepts: %s" % parser_eq.show_word(ctx, word),
                    {"rule": rule, "sequence": [parser_eq.show_symbol(ctx, s) for s in word]})
        g.check("stutter/%s" % rule, "replacing every NEWLINE atom of rule `%s` by NEWLINE+ leaves the rule's language unchanged "
                "(blank and comment-only lines are insignificant there)" % rule, one)
    try:
        for rule in NON_STUTTER_RULES:
            bad, _ = stutter_check(ctx, rule)
            if bad is None:
                ctx.note("layout/stutter: unexpectedly the NEWLINE-stutter lemma also holds for `%s`" % rule)
            else:
                ctx.note("layout/stutter: does NOT hold for `%s` (extra sequence: %s) - excluded by the property's quantifier "
                         "(array bodies, loop-body indentation)" % (rule, parser_eq.show_word(ctx, bad[0])))
    except Exception as e:
        ctx.errors.append("layout: stutter notes: %s: %s" % (type(e).__name__, e))

    def trailing_start():
        d = parser_eq.rule_dfa(ctx, ctx.rule_index("start"))
        nl, eof = ("T", ctx.token_type("NEWLINE")), ("T", -1)

        def acc(q, syms):
            for s in syms:
                q = d.trans[q].get(s) if q is not None else None
            return q is not None and bool(d.tag[q])
        for q in range(d.size()):
            a, b = acc(q, [eof]), acc(q, [nl, eof])
            if a != b:
                w = parser_eq.show_word(ctx, d.word[q])
                return (False, "after `%s`: EOF %s, NEWLINE EOF %s" % (w, "accepted" if a else "rejected", "accepted" if b else "rejected"),
                        {"prefix": [parser_eq.show_symbol(ctx, s) for s in d.word[q]], "eof_accepted": a, "newline_eof_accepted": b})
        return True, "for every prefix w: w EOF in L(start) iff w NEWLINE EOF in L(start)"
    g.check("trailing_newline/start", "in rule start a NEWLINE directly before EOF is optional: w EOF is accepted iff w NEWLINE EOF is",
            trailing_start)

    for rule in ("program", "statement"):
        def absorb(rule=rule):
            d = parser_eq.rule_dfa(ctx, ctx.rule_index(rule))
            nl = ("T", ctx.token_type("NEWLINE"))
            for q in range(d.size()):
                t = d.trans[q].get(nl)
                after = t is not None and bool(d.tag[t])
                if bool(d.tag[q]) != after:
                    w = parser_eq.show_word(ctx, d.word[q])
                    return (False, "`%s` is %s but `%s NEWLINE` is %s" % (w, "accepted" if d.tag[q] else "rejected", w, "accepted" if after else "rejected"),
                            {"sequence": [parser_eq.show_symbol(ctx, s) for s in d.word[q]], "accepted": bool(d.tag[q]), "with_newline_accepted": after})
            return True, "w in L(%s) iff w NEWLINE in L(%s)" % (rule, rule)
        g.check("trailing_newline/%s" % rule, "rule `%s` absorbs a final NEWLINE: w is accepted iff w NEWLINE is" % rule, absorb)
    try:
        d = parser_eq.rule_dfa(ctx, ctx.rule_index("arrayval"))
        nl = ("T", ctx.token_type("NEWLINE"))
        must = all(s == nl for tr in d.trans for s, t in tr.items() if d.tag[t])
        ctx.note("layout: rule `arrayval` %s a NEWLINE after the last row (every non-empty accepted sequence %s with NEWLINE): a script whose "
                 "last line is an array row without final newline is ungrammatical (known finding F-18)"
                 % ("requires" if must else "does not require", "ends" if must else "need not end"))
    except Exception as e:
        ctx.errors.append("layout: arrayval note: %s: %s" % (type(e).__name__, e))
    return g.obligations


ASSUMPTIONS = ["A-antlr-lexer", "A-antlr-tree", "A-layout-tree"]
