"""Group `lexer_eq` (C14, C03, C18, C10): the shipped lexer ATN and the lexer rules of blackbird.g4 denote the
same prioritised tagged regular language, hence (A-antlr-lexer: longest match, first rule wins ties, skip drops
the token) the same tokenisation of every string.

Also home of the lexer automata other groups reuse: `atn_lexer_nfa`, `g4_lexer_nfa`, `regex_nfa`, `lexer_dfa`.
"""
from . import automata as am
from .atn import MAXC, ATNDecodeError
from .ctx import Group
from .g4 import G4Error

PROPS = ["C14", "C03", "C18"]


# ------------------------------------------------------------------------------------- regex AST -> NFA
def build_regex(nfa, node, start, resolve):
    """Thompson construction of a g4 lexer-rule AST from `start`; returns the end state. `resolve(name)` gives the
    AST of a referenced rule (fragments and token rules are inlined at each reference)."""
    k = node[0]
    if k == "seq":
        cur = start
        for it in node[1]:
            cur = build_regex(nfa, it, cur, resolve)
        return cur
    if k == "alt":
        end = nfa.new()
        for a in node[1]:
            s0 = nfa.new()
            nfa.e(start, s0)
            nfa.e(build_regex(nfa, a, s0, resolve), end)
        return end
    if k == "set":
        end = nfa.new()
        nfa.t(start, tuple(node[1]), end)
        return end
    if k == "notset":
        end = nfa.new()
        nfa.t(start, am.complement_ranges(node[1]), end)
        return end
    if k == "ref":
        return build_regex(nfa, resolve(node[1]), start, resolve)
    if k == "?":
        end = nfa.new()
        nfa.e(start, end)
        nfa.e(build_regex(nfa, node[1], start, resolve), end)
        return end
    if k == "*":
        loop = nfa.new()
        nfa.e(start, loop)
        nfa.e(build_regex(nfa, node[1], loop, resolve), loop)
        return loop
    if k == "+":
        loop = nfa.new()
        nfa.e(build_regex(nfa, node[1], start, resolve), loop)
        nfa.e(build_regex(nfa, node[1], loop, resolve), loop)
        return loop
    raise G4Error("unsupported regex node %r" % (k,))


def _resolver(grammar):
    return lambda name: grammar.lexer_rule(name).ast


def g4_lexer_nfa(grammar):
    """one NFA for all token rules; accept tag = 1-based position among the non-fragment rules."""
    _check_no_recursion(grammar)
    nfa = am.NFA()
    start = nfa.new()
    for idx, rule in enumerate(grammar.token_rules()):
        s0 = nfa.new()
        nfa.e(start, s0)
        nfa.acc[build_regex(nfa, rule.ast, s0, _resolver(grammar))] = idx + 1
    return nfa, start


def g4_rule_nfa(grammar, name):
    """NFA of one lexer rule on its own (plain acceptance)."""
    _check_no_recursion(grammar)
    nfa = am.NFA()
    s0 = nfa.new()
    nfa.acc[build_regex(nfa, grammar.lexer_rule(name).ast, s0, _resolver(grammar))] = True
    return nfa, s0


def regex_nfa(ast):
    """NFA of a specification regex (no rule references)."""
    def no_refs(name):
        raise G4Error("reference %s in a specification regex" % name)
    nfa = am.NFA()
    s0 = nfa.new()
    nfa.acc[build_regex(nfa, ast, s0, no_refs)] = True
    return nfa, s0


def _check_no_recursion(grammar):
    refs = {}

    def collect(node, out):
        if node[0] == "ref":
            out.add(node[1])
        elif node[0] in ("seq", "alt"):
            for x in node[1]:
                collect(x, out)
        elif node[0] in ("*", "+", "?"):
            collect(node[1], out)
    for r in grammar.lexer_rules:
        refs[r.name] = set()
        collect(r.ast, refs[r.name])
    state = {}

    def visit(n):
        if state.get(n) == 1:
            raise G4Error("recursive lexer rule %s" % n)
        if state.get(n) == 2:
            return
        if n not in refs:
            raise G4Error("reference to unknown lexer rule %s" % n)
        state[n] = 1
        for m in sorted(refs[n]):
            visit(m)
        state[n] = 2
    for n in sorted(refs):
        visit(n)


# ------------------------------------------------------------------------------------- lexer ATN -> NFA
def atn_lexer_nfa(atn, only_rule=None):
    """NFA states are (ATN state, stack of follow states): fragments are entered through RULE edges and return to
    the follow state on reaching their stop state; with an empty stack a stop state accepts with the rule's token
    type. With `only_rule`, start at that rule's start state instead of the mode start (plain acceptance)."""
    if atn.grammar_type != 0:
        raise ATNDecodeError("not a lexer ATN")
    nfa = am.NFA()
    start = nfa.new()
    ids, work = {}, []

    def sid(num, stack):
        key = (num, stack)
        if key not in ids:
            if len(stack) > len(atn.rule_start):
                raise ATNDecodeError("recursive lexer rule in the ATN")
            ids[key] = nfa.new()
            work.append(key)
        return ids[key]
    first = atn.modes[0] if only_rule is None else atn.rule_start[only_rule]
    nfa.e(start, sid(first, ()))
    while work:
        num, stack = work.pop()
        me = ids[(num, stack)]
        st = atn.states[num]
        if st.type == "RULE_STOP":
            if stack:
                nfa.e(me, sid(stack[-1], stack[:-1]))
            else:
                nfa.acc[me] = atn.rule_token_type[st.rule] if only_rule is None else True
            continue
        for e in st.edges:
            k = e.kind
            if k == "RULE":
                nfa.e(me, sid(e.target, stack + (e.follow,)))
            elif k in ("EPSILON", "ACTION"):
                nfa.e(me, sid(e.target, stack))
            elif k == "ATOM":
                nfa.t(me, ((e.label, e.label),), sid(e.target, stack))
            elif k == "RANGE":
                nfa.t(me, ((e.lo, e.hi),), sid(e.target, stack))
            elif k == "SET":
                nfa.t(me, tuple(e.intervals), sid(e.target, stack))
            elif k == "NOT_SET":
                nfa.t(me, am.complement_ranges(e.intervals), sid(e.target, stack))
            elif k == "WILDCARD":
                nfa.t(me, ((0, MAXC),), sid(e.target, stack))
            else:
                raise ATNDecodeError("unsupported %s edge in the lexer ATN (state %d)" % (k, num))
    for lst in nfa.tr.values():
        for rs, _ in lst:
            if any(a < 0 for a, _b in rs):
                raise ATNDecodeError("EOF inside a lexer rule is outside the supported subset")
    return nfa, start


def lexer_dfa(ctx):
    """(dfa, classes) of the shipped lexer: tagged DFA over the alphabet classes induced by the ATN alone.
    Symbols are class indices; classes[i] = (lo, hi)."""
    def load():
        nfa, start = atn_lexer_nfa(ctx.lexer_atn())
        cuts = am.cut_points([nfa])
        classes = am.classes_of(cuts)
        dfa = am.determinise(am.classify(nfa, cuts), start, alphabet=list(range(len(classes))))
        ctx.sizes["lexer_atn_nfa_states"] = nfa.n
        ctx.sizes["lexer_dfa_states"] = dfa.size()
        ctx.sizes["lexer_dfa_alphabet_classes"] = len(classes)
        return dfa, classes
    return ctx.cached("lexer_dfa", load)


def class_of(classes, cp):
    import bisect
    i = bisect.bisect_right([c[0] for c in classes], cp) - 1
    return i


def run_string(dfa, classes, s):
    """DFA state after reading s (None = dead)."""
    return dfa.run([class_of(classes, ord(ch)) for ch in s])


def word_to_string(classes, word):
    return "".join(chr(classes[i][0]) for i in word)


# ------------------------------------------------------------------------------------- obligations
def atn_actions_by_rule(atn):
    """rule index -> sorted list of lexer action names attached to ACTION edges inside the rule."""
    out = {}
    for e in atn.edges():
        if e.kind == "ACTION":
            name = atn.lexer_actions[e.action][0] if 0 <= e.action < len(atn.lexer_actions) else "custom#%d" % e.action
            out.setdefault(atn.states[e.src].rule, []).append(name)
    return {r: sorted(v) for r, v in out.items()}


def run(ctx):
    g = Group(ctx, "lexer_eq", PROPS)

    def tagged():
        grammar, atn = ctx.grammar(), ctx.lexer_atn()
        G, g0 = g4_lexer_nfa(grammar)
        A, a0 = atn_lexer_nfa(atn)
        cuts = am.cut_points([G, A])
        classes = am.classes_of(cuts)
        alphabet = list(range(len(classes)))
        dG = am.determinise(am.classify(G, cuts), g0, alphabet)
        dA = am.determinise(am.classify(A, cuts), a0, alphabet)
        bad, pairs = am.compare(dG, dA, alphabet)
        ctx.sizes.update({"lexer_eq_g4_nfa_states": G.n, "lexer_eq_atn_nfa_states": A.n, "lexer_eq_alphabet_classes": len(classes),
                          "lexer_eq_g4_dfa_states": dG.size(), "lexer_eq_atn_dfa_states": dA.size(), "lexer_eq_product_states": pairs})
        if bad is None:
            return True, "%d product states over %d alphabet classes" % (pairs, len(classes))
        word, tg, ta = bad
        s = word_to_string(classes, word)
        names = [None] + [r.name for r in grammar.token_rules()]
        gname = names[tg] if tg < len(names) else "<%d>" % tg
        aname = ctx.token_name(ta) if ta else None
        return (False, "after %r the g4 rules give %s, the shipped ATN gives %s" % (s, gname, aname),
                {"string": s, "code_points": [ord(c) for c in s], "g4_token": gname, "g4_token_type": tg,
                 "atn_token": aname, "atn_token_type": ta})
    g.check("tagged_dfa", "for every string, the earliest token rule of blackbird.g4 matching it equals the token type the "
            "shipped lexer ATN accepts it with (tagged DFAs bisimilar)", tagged)

    def token_types():
        grammar, atn = ctx.grammar(), ctx.lexer_atn()
        rules = grammar.lexer_rules
        if len(rules) != len(atn.rule_start):
            return False, "g4 has %d lexer rules, the ATN %d" % (len(rules), len(atn.rule_start)), \
                {"g4_rules": len(rules), "atn_rules": len(atn.rule_start)}
        expect, k = [], 0
        for r in rules:
            if r.fragment:
                expect.append(0)
            else:
                k += 1
                expect.append(k)
        got = list(atn.rule_token_type)
        if got != expect:
            i = [j for j in range(len(got)) if got[j] != expect[j]][0]
            return False, "lexer rule %d (%s): token type %d in the ATN, %d by position in the g4" % (i, rules[i].name, got[i], expect[i]), \
                {"rule_index": i, "rule": rules[i].name, "atn": got[i], "g4": expect[i]}
        if atn.max_token_type != k:
            return False, "maxTokenType %d, g4 has %d token rules" % (atn.max_token_type, k), {"atn": atn.max_token_type, "g4": k}
        return True, "%d rules, %d token types, increasing with rule order (so minimum tag = first rule)" % (len(rules), k)
    g.check("token_types", "lexer rule i of the ATN carries the token type given by its position among the non-fragment "
            "rules of the g4 (fragments: 0), so rule order = token-type order", token_types)

    def alt_order():
        # the runtime resolves equal-length matches by the ORDER OF THE ALTERNATIVES of the mode's start state (lowest alt wins), not by
        # token type: these edges must lead to the token rules in rule order, otherwise "earliest rule wins ties" is not what runs
        atn = ctx.lexer_atn()
        start = atn.states[atn.modes[0]]
        targets = [e.target for e in start.edges]
        rules = []
        for t in targets:
            st = atn.states[t]
            rules.append(st.rule)
        token_rules = [i for i, tt in enumerate(atn.rule_token_type) if tt != 0]
        if rules != token_rules:
            k = [i for i in range(min(len(rules), len(token_rules))) if rules[i] != token_rules[i]]
            pos = k[0] if k else min(len(rules), len(token_rules))
            names = [r.name for r in ctx.grammar().lexer_rules]
            nm = lambda r: names[r] if r is not None and r < len(names) else str(r)
            return False, "alternative %d of the tokens start state enters rule %s, rule order prescribes %s" % (
                pos, nm(rules[pos]) if pos < len(rules) else None, nm(token_rules[pos]) if pos < len(token_rules) else None), \
                {"position": pos, "atn_rule": rules[pos] if pos < len(rules) else None, "g4_rule": token_rules[pos] if pos < len(token_rules) else None}
        return True, "%d alternatives in rule order" % len(rules)
    g.check("alt_order", "the alternatives of the lexer's start state enter the token rules in the order of the g4 (the runtime's tie-break "
            "between equally long matches is the alternative order)", alt_order)

    def actions():
        grammar, atn = ctx.grammar(), ctx.lexer_atn()
        got = atn_actions_by_rule(atn)
        want = {i: sorted(r.commands) for i, r in enumerate(grammar.lexer_rules) if r.commands}
        preds = [e for e in atn.edges() if e.kind in ("PREDICATE", "PRECEDENCE")]
        if preds:
            return False, "the lexer ATN contains a semantic predicate at state %d" % preds[0].src, {"state": preds[0].src}
        if got != want:
            names = [r.name for r in grammar.lexer_rules]
            diff = sorted(set(got) ^ set(want)) or sorted(r for r in got if got[r] != want[r])
            r = diff[0]
            return False, "rule %s: ATN actions %s, g4 commands %s" % (names[r] if r < len(names) else r, got.get(r, []), want.get(r, [])), \
                {"rule": names[r] if r < len(names) else r, "atn": got.get(r, []), "g4": want.get(r, [])}
        other = sorted({c for v in want.values() for c in v} - {"skip"})
        if other:
            return "undecided", "commands other than skip (%s) are compared by name only" % other
        return True, "skip on exactly %s; no other action, no predicate" % [grammar.lexer_rules[i].name for i in sorted(want)]
    g.check("skip_actions", "the lexer actions of the ATN are exactly the `-> skip` commands of the g4, rule by rule, and the "
            "lexer has no predicates", actions)

    def single_mode():
        atn = ctx.lexer_atn()
        if len(atn.modes) != 1:
            return False, "%d lexer modes" % len(atn.modes), {"modes": len(atn.modes)}
        modal = [a for a in atn.lexer_actions if a[0] in ("mode", "pushMode", "popMode", "more", "type", "channel", "custom")]
        if modal:
            return False, "lexer action %s present" % (modal[0],), {"action": list(modal[0])}
        if atn.states[atn.modes[0]].type != "TOKEN_START":
            return False, "mode start state is %s" % atn.states[atn.modes[0]].type
        return True, "one mode; its start state %d is the TokensStartState" % atn.modes[0]
    g.check("single_mode", "the lexer has exactly one mode and no mode/more/type/channel actions (tokenisation is context free)",
            single_mode, props=PROPS + ["C10"])
    return g.obligations


ASSUMPTIONS = ["A-antlr-lexer"]
