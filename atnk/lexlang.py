"""Regular-language questions about the shipped lexer, shared by `literals`, `layout`, `dominance`, `canon_lex`.

Three kinds of languages:
  * rule language  L(X): strings matched by lexer rule X of the ATN on its own (ignoring priorities);
  * token language T(X): strings whose maximal-munch verdict is X, i.e. tag of the lexer DFA = X
                         (T(X) is L(X) minus the strings an earlier rule also matches);
  * specification languages written in g4 lexer-rule syntax (`spec("[0-9]+ ('.' [0-9]+)?")`).
`decide` compares two of them over the common refinement of their alphabets and returns a shortest witness."""
from . import automata as am
from . import g4 as g4mod
from . import lexer_eq


def lexer_rule_names(ctx):
    return ctx.class_constants("py_lexer", "blackbirdLexer")["ruleNames"]


def rule_language(ctx, name):
    """(nfa, start) of lexer rule `name` taken from the ATN (fragments expanded through RULE edges)."""
    def load():
        names = lexer_rule_names(ctx)
        if name not in names:
            raise LookupError("the shipped lexer has no rule %s" % name)
        return lexer_eq.atn_lexer_nfa(ctx.lexer_atn(), only_rule=names.index(name))
    return ctx.cached(("rule_language", name), load)


def full_lexer(ctx):
    """(nfa, start) of the whole lexer ATN, accept tags = token types."""
    return ctx.cached("full_lexer_nfa", lambda: lexer_eq.atn_lexer_nfa(ctx.lexer_atn()))


def spec(text):
    return lexer_eq.regex_nfa(g4mod.parse_lexer_expr(text))


def decide(a, b, mode, tag_a=None, tag_b=None):
    """a, b: (nfa, start). mode 'equal' or 'included' (L(a) subset of L(b)). tag_x: token type selecting the token
    language of a full-lexer NFA. -> (ok, witness string or None, in_a, in_b, product states, alphabet classes)."""
    cuts = am.cut_points([a[0], b[0]])
    classes = am.classes_of(cuts)
    alphabet = list(range(len(classes)))
    da = am.determinise(am.classify(a[0], cuts), a[1], alphabet)
    db = am.determinise(am.classify(b[0], cuts), b[1], alphabet)
    if tag_a is not None:
        da = am.retag(da, lambda t: t == tag_a)
    if tag_b is not None:
        db = am.retag(db, lambda t: t == tag_b)
    da, db = am.retag(da, bool), am.retag(db, bool)
    bad, pairs = (am.equivalent if mode == "equal" else am.included)(da, db, alphabet)
    if bad is None:
        return True, None, None, None, pairs, len(classes)
    word, ta, tb = bad
    return False, lexer_eq.word_to_string(classes, word), bool(ta), bool(tb), pairs, len(classes)


def result(ctx, ok, witness, in_a, in_b, pairs, ncls, a_name, b_name):
    """obligation result tuple from a `decide` answer."""
    if ok:
        return True, "%d product states over %d alphabet classes" % (pairs, ncls)
    return (False, "%r is %s %s and %s %s" % (witness, "in" if in_a else "not in", a_name, "in" if in_b else "not in", b_name),
            {"string": witness, "code_points": [ord(c) for c in witness], a_name: in_a, b_name: in_b})


class Munch(object):
    """maximal-munch tokeniser over the shipped lexer DFA (what A-antlr-lexer says the runtime does)."""

    def __init__(self, ctx):
        self.dfa, self.classes = lexer_eq.lexer_dfa(ctx)
        self.lows = [c[0] for c in self.classes]
        self._cls = {}
        atn = ctx.lexer_atn()
        acts = lexer_eq.atn_actions_by_rule(atn)
        self.skipped = {atn.rule_token_type[r] for r, names in acts.items() if "skip" in names}

    def cls(self, ch):
        c = self._cls.get(ch)
        if c is None:
            import bisect
            c = self._cls[ch] = bisect.bisect_right(self.lows, ord(ch)) - 1
        return c

    def step(self, q, ch):
        return self.dfa.trans[q].get(self.cls(ch))

    def tokens(self, s, keep_skipped=False):
        """list of (token type, text); None as type if no rule matches at a position (cannot happen if lexer_total holds)."""
        out = []
        i = 0
        while i < len(s):
            q, j, best = self.dfa.start, i, None
            while j < len(s):
                q = self.step(q, s[j])
                if q is None:
                    break
                j += 1
                if self.dfa.tag[q]:
                    best = (self.dfa.tag[q], j)
            if best is None:
                out.append((None, s[i]))
                i += 1
                continue
            if keep_skipped or best[0] not in self.skipped:
                out.append((best[0], s[i:best[1]]))
            i = best[1]
        return out
