"""Group `literals` (C03): the texts of literal tokens are texts CPython's converters accept.

Rule languages are taken from the shipped lexer ATN. The converter languages are *under*-approximated by regular
specifications (so inclusion in the specification implies acceptance by the converter; that the specification is
itself accepted, with the decimal value, is A-cpython-literals, cross-checked by bounded enumeration):
    int():      [0-9]+                                  (up to CPython's 4300-digit limit for str -> int)
    float():    [+-]? ( D ('.' D?)? | '.' D ) ([eE] [+-]? D)?          with D = [0-9]+
    complex():  [+-]? N [jJ]  |  [+-]? N [+-] N [jJ]                   with N an unsigned float() literal
Also: L(PI) = {"pi"}, L(BOOL) = {"True","False"}, and a STR token has no '"', CR or LF between its quotes (the
handlers strip the quotes with str.replace)."""
from fractions import Fraction

from . import automata as am
from . import lexlang
from .ctx import Group

PROPS = ["C03"]
D = "[0-9]+"
UFLOAT = "(%s ('.' (%s)?)? | '.' %s) ([eE] ('+'|'-')? %s)?" % (D, D, D, D)
SPECS = {
    "INT": ("decimal digit strings", D),
    "FLOAT": ("the decimal literals float() accepts", "('+'|'-')? (%s)" % UFLOAT),
    "COMPLEX": ("the literals complex() accepts", "('+'|'-')? (%s) [jJ] | ('+'|'-')? (%s) ('+'|'-') (%s) [jJ]" % (UFLOAT, UFLOAT, UFLOAT)),
}
MAXLEN = 6


def enumerate_rule(ctx, name, max_len):
    """all strings of L(name) up to max_len over representative characters (first and last of each alphabet class)."""
    nfa, start = lexlang.rule_language(ctx, name)
    cuts = am.cut_points([nfa])
    classes = am.classes_of(cuts)
    dfa = am.determinise(am.classify(nfa, cuts), start, list(range(len(classes))))
    used = sorted({a for d in dfa.trans for a in d})
    reps = []
    for a in used:
        lo, hi = classes[a]
        reps.append((a, chr(lo)))
        if hi != lo:
            reps.append((a, chr(hi)))
    live = am.live_states(dfa)
    out = []

    def rec(q, s):
        if dfa.tag[q]:
            out.append(s)
        if len(s) == max_len:
            return
        for a, ch in reps:
            t = dfa.trans[q].get(a)
            if t is not None and t in live:
                rec(t, s + ch)
    rec(dfa.start, "")
    return out, [ch for _, ch in reps]


def exact_float(text):
    """correctly rounded value of a decimal literal, computed through exact rationals (independent of float()'s parser).
    Exponents far outside the double range are decided without building the huge rational."""
    body = text.lstrip("+-")
    neg = text.startswith("-")
    mant, _, exp = body.lower().partition("e")
    if exp and abs(int(exp)) > 400 + len(mant):
        zero = not mant.strip("0.")
        val = 0.0 if (zero or int(exp) < 0) else float("inf")
        return -val if neg else val
    try:
        return float(Fraction(text))
    except OverflowError:          # beyond the double range float() returns an infinity (it does not raise)
        return float("-inf") if neg else float("inf")


def split_complex(text):
    body = text[:-1]
    cut = None
    for i in range(len(body) - 1, 0, -1):
        if body[i] in "+-" and body[i - 1] not in "eE":
            cut = i
            break
    if cut is None:
        return "0", body
    return body[:cut], body[cut:]


def bounded_check(ctx, name):
    maxlen = MAXLEN + 2 if ctx.tier == "thorough" else MAXLEN
    strings, alphabet = enumerate_rule(ctx, name, maxlen)
    failures = []
    for s in strings:
        try:
            if name == "INT":
                got = int(s)
                want = 0
                for ch in s:
                    want = want * 10 + (ord(ch) - 48)
                ok = got == want
            elif name == "FLOAT":
                got, want = float(s), exact_float(s)
                ok = got == want
            else:
                got = complex(s)
                re_, im_ = split_complex(s)
                want = complex(exact_float(re_), exact_float(im_))
                ok = got == want
            if not ok:
                failures.append({"family": "literals/" + name, "class": "value", "input": {"text": s}, "expected": repr(want), "actual": repr(got),
                                 "repro": 'python -c "print(%s(%r))"' % ({"INT": "int", "FLOAT": "float", "COMPLEX": "complex"}[name], s)})
        except Exception as e:
            failures.append({"family": "literals/" + name, "class": type(e).__name__, "input": {"text": s}, "expected": "no exception",
                             "actual": "%s: %s" % (type(e).__name__, e), "repro": 'python -c "%s(%r)"' % ({"INT": "int", "FLOAT": "float", "COMPLEX": "complex"}[name], s)})
    ctx.bounded.append({"name": "literals/%s_converter" % name,
                        "bound": "all strings of L(%s) of length <= %d over the representative characters %s" % (name, maxlen, "".join(alphabet)),
                        "cases": len(strings), "distinct": len(set(strings)),
                        "rule": "every enumerated text is fed to CPython's %s(); it must not raise and must return the exact decimal value "
                                "(computed independently through fractions.Fraction)" % {"INT": "int", "FLOAT": "float", "COMPLEX": "complex"}[name],
                        "samples": strings[:3] + strings[len(strings) // 2:len(strings) // 2 + 2] + strings[-2:], "failures": failures[:20]})


def run(ctx):
    g = Group(ctx, "literals", PROPS)
    for name in ("INT", "FLOAT", "COMPLEX"):
        what, regex = SPECS[name]

        def incl(name=name, regex=regex):
            r = lexlang.decide(lexlang.rule_language(ctx, name), lexlang.spec(regex), "included")
            ctx.sizes["literals_%s_product_states" % name] = r[4]
            return lexlang.result(ctx, *r, a_name="L(%s)" % name, b_name="specification")
        conv = {"INT": "int", "FLOAT": "float", "COMPLEX": "complex"}[name]
        g.check("%s_%s" % (name, conv), "every text matched by lexer rule %s is among %s, so %s(text) is defined and is its decimal value"
                % (name, what, conv), incl)
        try:
            bounded_check(ctx, name)
        except Exception as e:
            ctx.errors.append("literals: bounded cross-check of %s: %s: %s" % (name, type(e).__name__, e))

    def exact(name, regex):
        def fn():
            r = lexlang.decide(lexlang.rule_language(ctx, name), lexlang.spec(regex), "equal")
            return lexlang.result(ctx, *r, a_name="L(%s)" % name, b_name="specification")
        return fn
    g.check("PI_exact", "lexer rule PI matches exactly the text \"pi\"", exact("PI", "'pi'"))
    g.check("BOOL_exact", "lexer rule BOOL matches exactly the texts \"True\" and \"False\"", exact("BOOL", "'True' | 'False'"))

    def str_shape():
        r = lexlang.decide(lexlang.rule_language(ctx, "STR"), lexlang.spec("'\"' ~[\"\\r\\n]* '\"'"), "included")
        return lexlang.result(ctx, *r, a_name="L(STR)", b_name="specification")
    g.check("STR_no_inner_quote", "a STR token is a double quote, then characters other than '\"', CR and LF, then a double quote "
            "(removing every '\"' from its text removes exactly the delimiters)", str_shape, props=["C03", "C02", "C01"])
    ctx.note("literals: float()/complex() of a literal beyond the double range (e.g. 9e999) return an infinity, they do not raise; "
             "the bounded cross-check treats that as the value")
    ctx.note("literals: int() of a digit string longer than 4300 digits raises ValueError in CPython >= 3.11 (sys.set_int_max_str_digits); "
             "the inclusion L(INT) in [0-9]+ does not exclude such scripts - part of A-cpython-literals")
    return g.obligations


ASSUMPTIONS = ["A-cpython-literals", "A-antlr-lexer"]
