"""FIRST / LOOK sets on a parser ATN (token types; EPS marks "the end of the enclosing rule is reachable without
consuming a token"). Precedence predicates and actions are treated as epsilon (an over-approximation of what can
come next, which is what the expected-token sets of the runtime do as well)."""

EPS = "eps"


def first_sets(atn):
    """rule index -> set of token types that can start the rule, plus EPS if the rule can match the empty sequence."""
    n = len(atn.rule_start)
    first = [set() for _ in range(n)]
    changed = True
    while changed:
        changed = False
        for r in range(n):
            new = _look_from(atn, atn.rule_start[r], first)
            if new != first[r]:
                first[r] = new
                changed = True
    return first


def _look_from(atn, start, first):
    out = set()
    seen = set()
    stack = [start]
    while stack:
        num = stack.pop()
        if num in seen:
            continue
        seen.add(num)
        st = atn.states[num]
        if st.type == "RULE_STOP":
            out.add(EPS)
            continue
        for e in st.edges:
            k = e.kind
            if k in ("ATOM", "RANGE", "SET"):
                for lo, hi in e.token_set():
                    out.update(range(lo, hi + 1))
            elif k == "RULE":
                f = first[e.rule]
                out.update(t for t in f if t != EPS)
                if EPS in f:
                    stack.append(e.follow)
            elif k in ("NOT_SET", "WILDCARD"):
                out.update(range(1, atn.max_token_type + 1))
                if k == "NOT_SET":
                    for lo, hi in e.intervals:
                        out.difference_update(range(lo, hi + 1))
            else:
                stack.append(e.target)
    return out


def look(atn, state, first=None):
    """tokens that can be consumed next from `state` staying inside its rule (callees included); EPS if the rule's
    stop state is reachable without consuming."""
    if first is None:
        first = first_sets(atn)
    return _look_from(atn, state, first)


def render_expected(tokens, symbolic, literal):
    """IntervalSet.toString(literalNames, symbolicNames) of the runtime: ascending token types, literal name if there
    is one else symbolic name, EOF as <EOF>; braces unless exactly one element."""
    names = []
    for t in sorted(tokens):
        if t == -1:
            names.append("<EOF>")
        elif t < len(literal) and literal[t] != "<INVALID>":
            names.append(literal[t])
        else:
            names.append(symbolic[t] if t < len(symbolic) else "<%d>" % t)
    if len(names) == 1:
        return names[0]
    return "{" + ", ".join(names) + "}"
