"""Group `parser_eq` (C14): for every parser rule, the rule's sub-ATN, read as a finite automaton over
tokens, rule references with their precedence argument, and precedence predicates, accepts exactly the regular
language of the rule's right-hand side in blackbird.g4 (left-recursive rules after ANTLR's documented rewrite).
Rule-wise regular equivalence implies the same context-free grammar, hence same language and same trees.

Symbols: ('T', tokenType) with EOF = -1, ('R', ruleIndex, precedence), ('P', precedence).
Also exports `atn_rule_nfa` / `rule_dfa` / `show_symbol` for the other parser-side groups.
"""
from . import automata as am
from .atn import ATNDecodeError
from .ctx import Group
from .g4 import G4Error

PROPS = ["C14"]


def atn_rule_nfa(atn, r):
    """automaton of rule r's sub-ATN; NFA state numbers are ATN state numbers (returned map: ATN state -> NFA state)."""
    nfa = am.NFA()
    ids, work = {}, []

    def sid(num):
        if num not in ids:
            ids[num] = nfa.new()
            work.append(num)
        return ids[num]
    start = sid(atn.rule_start[r])
    while work:
        num = work.pop()
        me = ids[num]
        st = atn.states[num]
        if st.rule != r:
            raise ATNDecodeError("state %d of rule %d reached while walking rule %d" % (num, st.rule, r))
        if st.type == "RULE_STOP":
            nfa.acc[me] = True
            continue
        for e in st.edges:
            k = e.kind
            if k == "RULE":
                nfa.t(me, ("R", e.rule, e.prec), sid(e.follow))
            elif k == "PRECEDENCE":
                nfa.t(me, ("P", e.prec), sid(e.target))
            elif k in ("EPSILON", "ACTION"):
                nfa.e(me, sid(e.target))
            elif k in ("ATOM", "RANGE", "SET"):
                for lo, hi in e.token_set():
                    for t in range(lo, hi + 1):
                        nfa.t(me, ("T", t), sid(e.target))
            else:
                raise ATNDecodeError("unsupported %s edge in parser rule %d (state %d)" % (k, r, num))
    return nfa, start, ids


def rule_dfa(ctx, r):
    def load():
        nfa, start, _ = atn_rule_nfa(ctx.parser_atn(), r)
        return am.determinise(nfa, start)
    return ctx.cached(("rule_dfa", r), load)


# --------------------------------------------------------------------------------------------- g4 side
def build(nfa, node, start, env):
    """Thompson construction for parser-rule items; env = (token name -> type, rule name -> index)."""
    toks, rules = env
    k = node[0]
    if k == "seq":
        cur = start
        for it in node[1]:
            cur = build(nfa, it, cur, env)
        return cur
    if k == "alt":
        end = nfa.new()
        for a in node[1]:
            s0 = nfa.new()
            nfa.e(start, s0)
            nfa.e(build(nfa, a, s0, env), end)
        return end
    if k == "tok":
        if node[1] not in toks:
            raise G4Error("parser rule uses unknown token %s" % node[1])
        end = nfa.new()
        nfa.t(start, ("T", toks[node[1]]), end)
        return end
    if k in ("ref", "refp"):
        if node[1] not in rules:
            raise G4Error("parser rule references unknown rule %s" % node[1])
        end = nfa.new()
        nfa.t(start, ("R", rules[node[1]], node[2] if k == "refp" else 0), end)
        return end
    if k == "pred":
        end = nfa.new()
        nfa.t(start, ("P", node[1]), end)
        return end
    if k == "?":
        end = nfa.new()
        nfa.e(start, end)
        nfa.e(build(nfa, node[1], start, env), end)
        return end
    if k == "*":
        loop = nfa.new()
        nfa.e(start, loop)
        nfa.e(build(nfa, node[1], loop, env), loop)
        return loop
    if k == "+":
        loop = nfa.new()
        nfa.e(build(nfa, node[1], start, env), loop)
        nfa.e(build(nfa, node[1], loop, env), loop)
        return loop
    raise G4Error("parser rule element %r is outside the supported subset" % (k,))


def is_left_recursive(rule):
    return any(a["items"] and a["items"][0] == ("ref", rule.name) for a in rule.alts)


def leftrec_rewrite(rule):
    """ANTLR 4 left-recursion elimination. With n alternatives, alternative i (1-based) has precedence n-i+1.
    binary  `r op r`  -> tail {prec >= p}? op r[p+1]   (r[p] when <assoc=right>)
    suffix  `r op`    -> tail {prec >= p}? op
    prefix  `op r`    -> primary op r[p]
    other             -> primary (inner self references at precedence 0)
    result: (primary | prefix) ( tails )*"""
    name = rule.name
    me = ("ref", name)
    n = len(rule.alts)
    prim, tails = [], []
    for i, a in enumerate(rule.alts, 1):
        prec = n - i + 1
        it = a["items"]
        if len(it) >= 3 and it[0] == me and it[-1] == me:
            nxt = prec if a["assoc"] == "right" else prec + 1
            tails.append(("seq", [("pred", prec)] + it[1:-1] + [("refp", name, nxt)]))
        elif len(it) >= 2 and it[0] == me:
            tails.append(("seq", [("pred", prec)] + it[1:]))
        elif len(it) >= 2 and it[-1] == me:
            prim.append(("seq", it[:-1] + [("refp", name, prec)]))
        else:
            prim.append(("seq", it))
    if not prim or not tails:
        raise G4Error("left-recursive rule %s has no primary or no recursive alternative" % name)
    return ("seq", [("alt", prim), ("*", ("alt", tails))])


def g4_rule_nfa(rule, env):
    if is_left_recursive(rule):
        ast = leftrec_rewrite(rule)
    else:
        ast = ("alt", [("seq", a["items"]) for a in rule.alts])
    nfa = am.NFA()
    s0 = nfa.new()
    nfa.acc[build(nfa, ast, s0, env)] = True
    return nfa, s0


def show_symbol(ctx, sym):
    if sym[0] == "T":
        return ctx.token_name(sym[1])
    if sym[0] == "R":
        names = ctx.vocabulary()[2]
        return "%s[%d]" % (names[sym[1]] if 0 <= sym[1] < len(names) else "<rule %d>" % sym[1], sym[2])
    return "{prec>=%d}?" % sym[1]


def show_word(ctx, word):
    return " ".join(show_symbol(ctx, s) for s in word)


def environment(ctx):
    """token and rule numbering taken from the g4 itself (tied to the generated tables by `identity`)."""
    grammar = ctx.grammar()
    toks = {r.name: i + 1 for i, r in enumerate(grammar.token_rules())}
    toks["EOF"] = -1
    rules = {r.name: i for i, r in enumerate(grammar.parser_rules)}
    return toks, rules


def run(ctx):
    g = Group(ctx, "parser_eq", PROPS)
    try:
        grammar = ctx.grammar()
        atn = ctx.parser_atn()
        env = environment(ctx)
    except Exception as e:
        ctx.errors.append("parser_eq: %s: %s" % (type(e).__name__, e))
        return g.obligations
    n_atn = len(atn.rule_start)

    def count():
        if len(grammar.parser_rules) != n_atn:
            return False, "g4 has %d parser rules, the ATN %d" % (len(grammar.parser_rules), n_atn), \
                {"g4": len(grammar.parser_rules), "atn": n_atn}
        prec = sorted(r for r in range(n_atn) if atn.states[atn.rule_start[r]].precedence_rule)
        lr = sorted(i for i, r in enumerate(grammar.parser_rules) if is_left_recursive(r))
        if prec != lr:
            return False, "precedence rules of the ATN %s, left-recursive rules of the g4 %s" % (prec, lr), {"atn": prec, "g4": lr}
        return True, "%d rules; left-recursive: %s" % (n_atn, [grammar.parser_rules[i].name for i in lr])
    g.check("rule_count", "the ATN has one sub-automaton per parser rule of the g4, and its precedence rules are exactly the "
            "left-recursive rules", count)
    sizes = {}
    for idx, rule in enumerate(grammar.parser_rules):
        def one(idx=idx, rule=rule):
            if idx >= n_atn:
                return False, "the ATN has no rule %d" % idx, {"rule_index": idx}
            n1, s1 = g4_rule_nfa(rule, env)
            n2, s2, _ = atn_rule_nfa(atn, idx)
            alphabet = sorted(n1.symbols() | n2.symbols(), key=am.sym_key)
            d1 = am.determinise(n1, s1, alphabet)
            d2 = am.determinise(n2, s2, alphabet)
            bad, pairs = am.compare(d1, d2, alphabet)
            sizes[rule.name] = {"g4_nfa": n1.n, "atn_nfa": n2.n, "symbols": len(alphabet), "product": pairs}
            if bad is None:
                return True, "%d product states, %d symbols" % (pairs, len(alphabet))
            word, t1, t2 = bad
            side = "g4 accepts, ATN rejects" if t1 else "ATN accepts, g4 rejects"
            return (False, "distinguishing sequence: %s  (%s)" % (show_word(ctx, word) or "<empty>", side),
                    {"rule": rule.name, "sequence": [show_symbol(ctx, s) for s in word], "symbols": [list(s) for s in word],
                     "g4_accepts": bool(t1), "atn_accepts": bool(t2)})
        extra = " after the left-recursion rewrite (alternative i of n has precedence n-i+1)" if is_left_recursive(rule) else ""
        g.check(rule.name, "sub-ATN of rule `%s` is language-equivalent to its g4 right-hand side%s" % (rule.name, extra), one)
    ctx.sizes["parser_eq"] = sizes
    return g.obligations


ASSUMPTIONS = ["A-antlr-tree"]
