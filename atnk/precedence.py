"""Group `precedence` (C03): the operator table of rule `expression`, extracted from the shipped parser ATN
(not from the g4) and, independently, from the generated Python code, satisfies the relations the property
statement prescribes:
    p_add < p_mul < p_pwr < s_sign;  r_add = p_add + 1, r_mul = p_mul + 1 (left associative);  r_pwr = p_pwr
    (right associative);  bracketed, function-argument and index sub-expressions are parsed at precedence 0.
p_x is the precedence predicate constant guarding the operator's tail, r_x the precedence passed to the recursive
call for the right operand, s_sign the precedence of the operand of the unary sign.
At run time the predicate constants act through the ATN (prediction) and the call arguments through the generated
code (`self.expression(k)` pushes k), so both sources are evaluated and must agree."""
from . import codegen_sim
from .ctx import Group

PROPS = ["C03"]
OPS = {"add": ("PLUS", "MINUS"), "mul": ("TIMES", "DIVIDE"), "pwr": ("PWR",)}


def _toks(e):
    return frozenset(t for lo, hi in e.token_set() for t in range(lo, hi + 1))


def atn_table(ctx):
    """Read the table off the ATN by looking backwards from every recursive call `expression[k]`:
    the consuming edges that lead (through epsilon edges) to the call's source state are the operator tokens;
    what precedes those is a precedence predicate (binary tail), nothing (prefix / brackets) or other symbols
    (function argument, index)."""
    atn = ctx.parser_atn()
    r = ctx.rule_index("expression")
    states = [s for s in atn.rule_states(r) if s.type != "RULE_STOP"]
    eps_in = {}        # state -> states with an epsilon edge into it
    sym_in = {}        # state -> symbol edges (consuming, rule, predicate) ending there
    for s in states:
        for e in s.edges:
            if e.kind in ("EPSILON", "ACTION"):
                eps_in.setdefault(e.target, []).append(s.number)
            elif e.kind == "RULE":
                sym_in.setdefault(e.follow, []).append(e)
            else:
                sym_in.setdefault(e.target, []).append(e)

    def back(n):
        """symbol edges whose end reaches n by epsilon edges; and whether the rule start does."""
        seen, stack, out = {n}, [n], []
        while stack:
            x = stack.pop()
            out += sym_in.get(x, [])
            for y in eps_in.get(x, []):
                if y not in seen:
                    seen.add(y)
                    stack.append(y)
        return out, atn.rule_start[r] in seen
    entries = []
    for s in states:
        for e in s.edges:
            if e.kind != "RULE" or e.rule != r:
                continue
            b1, from_start = back(s.number)
            ent = {"state": s.number, "r": e.prec, "ops": None, "kind": "unknown", "p": None, "before": None}
            if b1 and not from_start and all(x.token_set() is not None for x in b1):
                ent["ops"] = frozenset().union(*[_toks(x) for x in b1])
                b2, start2 = [], False
                for x in b1:
                    bb, ss = back(x.src)
                    b2 += bb
                    start2 = start2 or ss
                if b2 and not start2 and all(x.kind == "PRECEDENCE" for x in b2) and len({x.prec for x in b2}) == 1:
                    ent["kind"], ent["p"] = "tail", b2[0].prec
                elif not b2 and start2:
                    ent["kind"] = "prefix"
                elif b2 and not start2:
                    ent["kind"] = "inner"
                    ent["before"] = sorted(("R", x.rule) if x.kind == "RULE" else ("T",) + tuple(sorted(_toks(x))) for x in b2
                                           if x.kind == "RULE" or x.token_set() is not None)
            entries.append(ent)
    return _table(ctx, entries, "ATN")


def code_table(ctx):
    """The same table from blackbirdParser.expression: within one branch of the generated if/elif chain,
    `precpred(_, p)`, operator match, `self.expression(k)` in source order."""
    fn = codegen_sim.rule_methods(ctx).get("expression")
    if fn is None:
        raise LookupError("blackbirdParser.expression not found")
    r = ctx.rule_index("expression")
    ex = codegen_sim.extract(ctx, fn)
    sites = [s for s in ex.sites if s.kind in ("match", "setmatch", "call", "precpred")]
    entries = []
    for i, s in enumerate(sites):
        if s.kind != "call" or s.rule != r:
            continue
        prev = sites[i - 1] if i > 0 and sites[i - 1].branch == s.branch else None
        prev2 = sites[i - 2] if i > 1 and sites[i - 2].branch == s.branch else None
        ent = {"state": s.state, "line": s.line, "r": s.prec, "ops": None, "kind": "unknown", "p": None, "before": None}
        if prev is not None and prev.kind in ("match", "setmatch"):
            ent["ops"] = frozenset([prev.token]) if prev.kind == "match" else prev.tokens
            if prev2 is None:
                ent["kind"] = "prefix"
            elif prev2.kind == "precpred":
                ent["kind"], ent["p"] = "tail", prev2.prec
            else:
                ent["kind"] = "inner"
                ent["before"] = [("R", prev2.rule)] if prev2.kind == "call" else [("T",) + tuple(sorted([prev2.token] if prev2.kind == "match" else prev2.tokens))]
        entries.append(ent)
    return _table(ctx, entries, "code")


def _table(ctx, entries, source):
    """name the entries: add/mul/pwr tails, sign prefix, brackets, function argument, index."""
    tt = ctx.token_type
    named = {}
    problems = []
    want_ops = {k: frozenset(tt(n) for n in v) for k, v in OPS.items()}
    sign = frozenset([tt("PLUS"), tt("MINUS")])
    for ent in entries:
        key = None
        if ent["kind"] == "tail":
            key = next((k for k in sorted(want_ops) if want_ops[k] == ent["ops"]), None)
        elif ent["kind"] == "prefix" and ent["ops"] == sign:
            key = "sign"
        elif ent["kind"] == "prefix" and ent["ops"] == frozenset([tt("LBRAC")]):
            key = "brackets"
        elif ent["kind"] == "inner" and ent["ops"] == frozenset([tt("LBRAC")]) and ent["before"] == [("R", ctx.rule_index("function"))]:
            key = "function_argument"
        elif ent["kind"] == "inner" and ent["ops"] == frozenset([tt("LSQBRAC")]) and ent["before"] == [("T", tt("NAME"))]:
            key = "index"
        if key is None or key in named:
            problems.append({"state": ent["state"], "kind": ent["kind"], "r": ent["r"], "p": ent["p"],
                             "ops": sorted(ctx.token_name(t) for t in ent["ops"]) if ent["ops"] else None})
        else:
            named[key] = ent
    return {"source": source, "named": named, "problems": problems}


def external_calls(ctx):
    """RULE edges to `expression` from other rules: (caller rule, state, precedence)."""
    atn = ctx.parser_atn()
    r = ctx.rule_index("expression")
    names = ctx.vocabulary()[2]
    return [(names[atn.states[e.src].rule], e.src, e.prec) for e in atn.edges() if e.kind == "RULE" and e.rule == r and atn.states[e.src].rule != r]


def run(ctx):
    g = Group(ctx, "precedence", PROPS)
    def get(source):
        return ctx.cached(("prec_table", source), lambda: atn_table(ctx) if source == "ATN" else code_table(ctx))

    def summary(t):
        n = t["named"]
        return {k: ({"p": n[k]["p"], "r": n[k]["r"]} if n[k]["kind"] == "tail" else {"operand_precedence": n[k]["r"]}) for k in sorted(n)}

    def structure():
        for source in ("ATN", "code"):
            t = get(source)
            missing = sorted({"add", "mul", "pwr", "sign", "brackets", "function_argument", "index"} - set(t["named"]))
            if missing or t["problems"]:
                return (False, "%s: rule expression does not have the expected shape: missing %s, unclassified recursive calls %s"
                        % (source, missing, t["problems"]), {"source": source, "missing": missing, "unclassified": t["problems"]})
        ctx.extra["precedence_table"] = {"ATN": summary(get("ATN")), "code": summary(get("code"))}
        return True, "ATN: %s" % summary(get("ATN"))
    g.check("structure", "rule `expression` consists of predicate-guarded binary tails for exactly {PWR}, {TIMES, DIVIDE}, {PLUS, MINUS}, "
            "a unary {PLUS, MINUS} prefix, and bracket / function-argument / index sub-expressions; found in the ATN and in the generated code",
            structure)

    def relation(name, goal, pred, describe):
        def fn():
            for source in ("ATN", "code"):
                n = get(source)["named"]
                try:
                    ok = pred(n)
                except KeyError as k:
                    return "undecided", "%s: entry %s not found (see precedence/structure)" % (source, k)
                if not ok:
                    vals = describe(n)
                    return False, "%s: %s" % (source, vals), {"source": source, "values": vals,
                                                               "state": {k: n[k]["state"] for k in sorted(n)}}
            return True, "ATN and code: %s" % describe(get("ATN")["named"])
        g.check(name, goal, fn)

    relation("add<mul", "p_add < p_mul: TIMES/DIVIDE bind tighter than binary PLUS/MINUS",
             lambda n: n["add"]["p"] < n["mul"]["p"], lambda n: {"p_add": n["add"]["p"], "p_mul": n["mul"]["p"]})
    relation("mul<pwr", "p_mul < p_pwr: PWR binds tighter than TIMES/DIVIDE",
             lambda n: n["mul"]["p"] < n["pwr"]["p"], lambda n: {"p_mul": n["mul"]["p"], "p_pwr": n["pwr"]["p"]})
    relation("pwr<sign", "p_pwr < s_sign: the unary sign binds tighter than PWR (its operand is parsed at a precedence above p_pwr)",
             lambda n: n["pwr"]["p"] < n["sign"]["r"],
             lambda n: {"p_pwr": n["pwr"]["p"], "s_sign": n["sign"]["r"]})
    relation("add_left_assoc", "r_add = p_add + 1: binary PLUS/MINUS are left associative",
             lambda n: n["add"]["r"] == n["add"]["p"] + 1, lambda n: {"p_add": n["add"]["p"], "r_add": n["add"]["r"]})
    relation("mul_left_assoc", "r_mul = p_mul + 1: TIMES/DIVIDE are left associative",
             lambda n: n["mul"]["r"] == n["mul"]["p"] + 1, lambda n: {"p_mul": n["mul"]["p"], "r_mul": n["mul"]["r"]})
    relation("pwr_right_assoc", "r_pwr = p_pwr: PWR is right associative",
             lambda n: n["pwr"]["r"] == n["pwr"]["p"], lambda n: {"p_pwr": n["pwr"]["p"], "r_pwr": n["pwr"]["r"]})
    relation("inner_zero", "bracketed, function-argument and index sub-expressions are parsed at precedence 0",
             lambda n: n["brackets"]["r"] == 0 and n["function_argument"]["r"] == 0 and n["index"]["r"] == 0,
             lambda n: {k: n[k]["r"] for k in ("brackets", "function_argument", "index")})

    def outer():
        bad = [c for c in external_calls(ctx) if c[2] != 0]
        if bad:
            return False, "rule %s calls expression with precedence %d at state %d" % bad[0], {"caller": bad[0][0], "state": bad[0][1], "precedence": bad[0][2]}
        return True, "%d call sites in other rules, all at precedence 0" % len(external_calls(ctx))
    g.check("outer_zero", "every other rule invokes `expression` at precedence 0 (a top-level expression is unrestricted)", outer)

    def agree():
        a, c = get("ATN")["named"], get("code")["named"]
        for k in sorted(set(a) | set(c)):
            va = (a[k]["p"], a[k]["r"], a[k]["state"]) if k in a else None
            vc = (c[k]["p"], c[k]["r"], c[k]["state"]) if k in c else None
            if va != vc:
                return (False, "%s: ATN has (predicate, operand precedence, state) = %s, blackbirdParser.py has %s" % (k, va, vc),
                        {"entry": k, "atn": va, "code": vc, "line": c[k].get("line") if k in c else None})
        return True, "%d entries" % len(a)
    g.check("code==atn", "the precedence predicate constants and recursive-call precedences in blackbirdParser.expression equal those of "
            "the ATN, entry by entry, at the same state numbers", agree)
    return g.obligations


ASSUMPTIONS = ["A-antlr-prec"]
