"""ATNK runner: evaluates the requested obligation groups on the artefacts below vlib.common.REPO and prints one
JSON section (last stdout line).

    cd /verif && PYTHONPATH=/verif:$VERIF_REPO/blackbird_python /venv/bin/python -m atnk.run \
        --prop C14 --groups identity,lexer_eq,parser_eq --tier quick

Exit code 0 unless the engine itself is broken (then 3 and an `errors` entry)."""
import argparse
import importlib
import sys
import time
import traceback

from vlib import common
from .ctx import ASSUMPTION_TEXT, Ctx

GROUPS = ["identity", "lexer_eq", "parser_eq", "codegen_sim", "precedence", "literals", "dominance", "layout", "canon_lex"]
# which groups serve which property (used when --groups is not given)
BY_PROP = {
    "C14": ["identity", "lexer_eq", "parser_eq", "codegen_sim"],
    "C03": ["lexer_eq", "precedence", "literals"],
    "C10": ["lexer_eq", "dominance"],
    "C18": ["lexer_eq", "layout"],
    "C01": ["canon_lex"],
    "C09": ["canon_lex"],
}
TRUSTED = ["CPython ast/re (reading the generated sources)", "atnk's own automata kit (subset construction, product walks)"]


def main(argv=None):
    ap = argparse.ArgumentParser(prog="atnk.run")
    ap.add_argument("--prop", default="", help="property id(s), comma separated; recorded, and selects default groups")
    ap.add_argument("--groups", default="", help="comma separated subset of: " + ",".join(GROUPS) + " (or 'all')")
    ap.add_argument("--tier", default="quick", choices=["quick", "thorough"])
    args = ap.parse_args(argv)
    props = [p for p in args.prop.split(",") if p]
    if args.groups in ("", "all"):
        groups = GROUPS if (args.groups == "all" or not props) else [g for g in GROUPS if any(g in BY_PROP.get(p, []) for p in props)]
    else:
        groups = [g for g in args.groups.split(",") if g]
    t_start = time.perf_counter()
    ctx = Ctx(common.REPO, args.tier)
    doc = {"engine": "atnk", "props": props, "groups": groups, "tier": args.tier, "repo": ctx.repo, "obligations": [], "bounded": [],
           "functions": [], "assumptions": [], "trusted": list(TRUSTED), "notes": [], "errors": [], "extra": {}}
    group_time = {}
    for name in groups:
        t0 = time.perf_counter()
        if name not in GROUPS:
            ctx.errors.append("unknown group %r" % name)
            continue
        try:
            mod = importlib.import_module("atnk." + name)
            obs = mod.run(ctx)
            doc["obligations"] += obs
            for a in getattr(mod, "ASSUMPTIONS", []):
                text = "%s: %s" % (a, ASSUMPTION_TEXT[a])
                if text not in doc["assumptions"]:
                    doc["assumptions"].append(text)
            for a in getattr(mod, "TRUSTED", []):
                if a not in doc["trusted"]:
                    doc["trusted"].append(a)
            counts = {}
            for o in obs:
                counts[o["status"]] = counts.get(o["status"], 0) + 1
            print("atnk: %-12s %3d obligations %s  %.2fs" % (name, len(obs), dict(sorted(counts.items())), time.perf_counter() - t0))
            for o in obs:
                if o["status"] != common.DISCHARGED:
                    print("atnk:   %-9s %s: %s" % (o["status"].upper(), o["name"], o.get("detail", "")))
        except Exception as e:     # a defect of the engine itself, never a verdict about the repository
            ctx.errors.append("group %s crashed: %s: %s | %s" % (name, type(e).__name__, e, traceback.format_exc(limit=4).replace("\n", " / ")))
            print("atnk: %-12s CRASHED %s: %s" % (name, type(e).__name__, e))
        group_time[name] = round(time.perf_counter() - t0, 3)
        sys.stdout.flush()
    if props:
        wanted = set(props)
        doc["obligations_for_props"] = sum(1 for o in doc["obligations"] if wanted & set(o.get("props", [])))
    doc["bounded"] = ctx.bounded
    doc["notes"] = ctx.notes
    doc["errors"] = ctx.errors
    doc["extra"] = dict(ctx.extra)
    doc["extra"].update({"sha256": dict(sorted(ctx.sha.items())), "automata_sizes": ctx.sizes, "group_time_s": group_time,
                         "wall_s": round(time.perf_counter() - t_start, 3)})
    print("atnk: total %d obligations, %d failed, %d errors, %.2fs" % (
        len(doc["obligations"]), sum(1 for o in doc["obligations"] if o["status"] == common.FAILED), len(ctx.errors),
        time.perf_counter() - t_start))
    common.emit_section(doc)
    return 0


if __name__ == "__main__":
    try:
        sys.exit(main())
    except SystemExit:
        raise
    except Exception as e:
        common.emit_section({"engine": "atnk", "obligations": [], "bounded": [], "errors": ["atnk.run crashed: %s: %s" % (type(e).__name__, e)]})
        sys.exit(common.EXIT_ENGINE)
