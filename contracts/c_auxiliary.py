"""Sidecar contracts for blackbird_python/blackbird/auxiliary.py (read with `ast` by PyVC; never imported by the real code).

Spec functions are written in the same Python subset over the parse-tree accessor API; ALLCAPS names are spec-level
(mathematical) functions of the value universe.  Top-level clauses come from the property statements:
  C03  EVAL is ordinary arithmetic on the tree: ADD / SUB / MUL / DIV (true division: MUL by RECIP, for every kind of divisor)
       / POW (POWF: computed in floats when both operands are integers and the exponent is negative) / NEG / the named functions /
       pi / declared variables / row-major array indexing (FLAT(A)[k]).
  C11  an undefined name -- as a variable, as the base of an index expression, or as a bare argument -- raises
       BlackbirdSyntaxError naming the identifier, its line and column.
  C02  positional arguments in written order, keyword arguments by name (later duplicate wins), list values element-wise.
  C15  a registered p-array name evaluates to the name itself (and must be an array).
"""
MODULE = "blackbird_python/blackbird/auxiliary.py"
GLOBALS = ["_VAR", "_PARAMS"]
GLOBAL_TYPES = {"_VAR": "dict", "_PARAMS": "list"}      # type invariants of the module tables (assumed at entry, kept by every summary)

CONTRACTS = {
    "_literal": {"params": ["nonnumeric"], "reads": [], "modifies": [], "raises": ["ValueError"], "spec": "spec__literal",
                 "props": ["C02", "C06", "C05", "C01"], "families": ["load_denote"]},
    "_number": {"params": ["number"], "reads": [], "modifies": [], "raises": ["ValueError"], "spec": "spec__number",
                "props": ["C03", "C02", "C01"], "families": ["expr_value"]},
    "_func": {"params": ["function", "arg"], "reads": ["_VAR", "_PARAMS"], "modifies": ["_PARAMS"], "raises": "any", "spec": "spec__func",
              "props": ["C03"], "families": ["expr_value"]},
    "_expression": {"params": ["expr"], "reads": ["_VAR", "_PARAMS"], "modifies": ["_PARAMS"], "raises": "any", "spec": "spec__expression",
                    "props": ["C03", "C02", "C05", "C08", "C11", "C15", "C04", "C01", "C06"], "families": ["expr_value", "illformed"]},
    "_get_arguments": {"params": ["arguments"], "reads": ["_VAR", "_PARAMS"], "modifies": ["_PARAMS"], "raises": "any", "spec": "spec__get_arguments", "rename": {"values": "kwargslist"},
                       "props": ["C02", "C04", "C08", "C11", "C01", "C19"], "families": ["load_denote", "illformed"]},
}


def UNDEFINED(token, name):
    raise BlackbirdSyntaxError(
        "Blackbird SyntaxError (line {}:{}): name '{}' is not defined".format(token.line, token.column, name)
    )


def spec__literal(nonnumeric):
    if nonnumeric.STR():
        # the STR token is '"' (no quote, no newline)* '"' (closed lexer fact literals/str_token): stripping quotes = dropping the delimiters
        return str(nonnumeric.getText().replace('"', ""))
    if nonnumeric.BOOL():
        val = nonnumeric.getText()
        if val == "True":
            return True
        if val == "False":
            return False
        raise ValueError("Unknown boolean value " + nonnumeric.getText())
    raise ValueError("Unknown value " + nonnumeric.getText())


def spec__number(number):
    if number.INT():
        return int(number.getText())
    if number.FLOAT():
        return float(number.getText())
    if number.COMPLEX():
        return complex(number.getText())
    if number.PI():
        return PI_CONST()
    raise ValueError("Unknown number " + number.getText())


def APPLY_FN(function, x):
    """the fifteen named elementary functions (C03), by the token of the function node"""
    if function.EXP():
        return PARTIAL("FN_exp", x)
    if function.LOG():
        return PARTIAL("FN_log", x)
    if function.SIN():
        return PARTIAL("FN_sin", x)
    if function.COS():
        return PARTIAL("FN_cos", x)
    if function.TAN():
        return PARTIAL("FN_tan", x)
    if function.ARCSIN():
        return PARTIAL("FN_arcsin", x)
    if function.ARCCOS():
        return PARTIAL("FN_arccos", x)
    if function.ARCTAN():
        return PARTIAL("FN_arctan", x)
    if function.SINH():
        return PARTIAL("FN_sinh", x)
    if function.COSH():
        return PARTIAL("FN_cosh", x)
    if function.TANH():
        return PARTIAL("FN_tanh", x)
    if function.ARCSINH():
        return PARTIAL("FN_arcsinh", x)
    if function.ARCCOSH():
        return PARTIAL("FN_arccosh", x)
    if function.ARCTANH():
        return PARTIAL("FN_arctanh", x)
    if function.SQRT():
        return PARTIAL("FN_sqrt", x)
    raise NameError("Unknown function " + function.getText())


def spec__func(function, arg):
    # Python evaluates the argument only in the branch taken; an unknown function token raises NameError before evaluating it
    if not ANY_FUNCTION_TOKEN(function):
        raise NameError("Unknown function " + function.getText())
    return APPLY_FN(function, _expression(arg))


def ANY_FUNCTION_TOKEN(function):
    return (function.EXP() or function.LOG() or function.SIN() or function.COS() or function.TAN() or function.ARCSIN()
            or function.ARCCOS() or function.ARCTAN() or function.SINH() or function.COSH() or function.TANH()
            or function.ARCSINH() or function.ARCCOSH() or function.ARCTANH() or function.SQRT())


def spec__expression(expr):
    if isinstance(expr, blackbirdParser.NumberLabelContext):
        return _number(expr.number())

    if isinstance(expr, blackbirdParser.VariableLabelContext):
        if expr.REGREF():
            return SYMBOL(expr.getText())
        name = expr.getText()
        if name not in _VAR:
            UNDEFINED(expr.start, name)
        if name in _PARAMS:
            # C15: a registered p-array is passed by name; it must have been declared as an array
            if not isinstance(_VAR[name], np.ndarray):
                raise TypeError("Invalid type for parameter. {} must be an array.".format(name))
            return name
        return _VAR[name]

    if isinstance(expr, blackbirdParser.ArrayIdxLabelContext):
        name = expr.NAME().getText()
        if name not in _VAR:                                    # C11: also the base name of an index expression
            UNDEFINED(expr.start, name)
        k = _expression(expr.expression())
        return FLAT_ROWMAJOR(_VAR[name])[k]                      # C05/C03: k-th element in row-major order

    if isinstance(expr, blackbirdParser.ParameterLabelContext):
        p = SYMBOL(expr.parameter().NAME().getText())
        _PARAMS.append(p)
        return p

    if isinstance(expr, blackbirdParser.BracketsLabelContext):
        return _expression(expr.expression())

    if isinstance(expr, blackbirdParser.SignLabelContext):
        if expr.PLUS():
            return _expression(expr.expression())
        if expr.MINUS():
            return NEG(_expression(expr.expression()))
        return None

    if isinstance(expr, blackbirdParser.AddLabelContext):
        a, b = expr.expression()
        if expr.PLUS():
            x = _expression(a)
            y = _expression(b)
            return ADD(x, y)
        if expr.MINUS():
            x = _expression(a)
            y = _expression(b)
            return SUB(x, y)
        return None

    if isinstance(expr, blackbirdParser.MulLabelContext):
        a, b = expr.expression()
        if expr.TIMES():
            x = _expression(a)
            y = _expression(b)
            return MUL(x, y)
        if expr.DIVIDE():
            x = _expression(a)
            y = _expression(b)
            return DIV(x, y)                                     # true division, whatever the kind of the divisor; never raises
        return None

    if isinstance(expr, blackbirdParser.PowerLabelContext):
        a, b = expr.expression()
        x = _expression(a)
        y = _expression(b)
        if IS_INTKIND(x) and IS_INTKIND(y) and IS_NEGATIVE(y):
            return POWF(x, y)                                    # integer ** negative integer has a (non-integer) real value; never raises
        return PARTIAL("POW", x, y)

    if isinstance(expr, blackbirdParser.FunctionLabelContext):
        return _func(expr.function(), expr.expression())

    return None


def VAL(v):
    """value of a `val` node: expression or non-numeric literal (the third grammar-less branch -- a bare NAME -- is kept as the code has it)"""
    if v.expression():
        return _expression(v.expression())
    if v.nonnumeric():
        return _literal(v.nonnumeric())
    return ABSENT()


def spec__get_arguments(arguments):
    args = []
    kwargs = {}
    for arg in arguments.getChildren():
        if isinstance(arg, blackbirdParser.ValContext):
            if arg.expression():
                args.append(_expression(arg.expression()))
            elif arg.nonnumeric():
                args.append(_literal(arg.nonnumeric()))
            elif arg.NAME():
                name = arg.NAME().getText()
                if name in _VAR:
                    args.append(_VAR[name])
                else:
                    UNDEFINED(arg.start, name)
        elif isinstance(arg, blackbirdParser.KwargContext):
            name = arg.NAME().getText()
            if arg.val():
                if arg.val().expression():
                    kwargs[name] = _expression(arg.val().expression())
                elif arg.val().nonnumeric():
                    kwargs[name] = _literal(arg.val().nonnumeric())
            elif arg.vallist():
                # DOM_C02: the list has at least one element (an empty list has no vallist node; pinned by the repository's own test)
                values = []
                for v in arg.vallist().getChildren():
                    if isinstance(v, blackbirdParser.ValContext):
                        if v.expression():
                            values.append(_expression(v.expression()))
                        elif v.nonnumeric():
                            values.append(_literal(v.nonnumeric()))
                kwargs[name] = values
    return args, kwargs
