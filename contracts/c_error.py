"""Sidecar contract for blackbird_python/blackbird/error.py: BlackbirdErrorListener.syntaxError (C10), contract mode `post` (unary).

  ensures   the call NEVER returns: every path ends in `raise BlackbirdSyntaxError(m)` with
            m = "<format string beginning 'Blackbird SyntaxError (line {}:{})'>".format(line, column + 1, ...)
  ensures   no other exception can escape: no None is dereferenced, no unbound local is read, no partial operation can fail
  requires  PARTIAL_WF: what is known about the (partial) parse tree at an error site -- justified by the closed ATNK obligations of
            group `dominance` (atnk/dominance.py) and listed as assumptions:
              * contexts are truthy objects; `parentCtx` is None or a context
              * Expressionvar / Arrayvar contexts at an error site have their `name` and `vartype` children; an Arrayvar context that is
                an ancestor of the error context likewise (the children precede every error state: dominance/expressionvar, /arrayvar,
                /arrayvar_entry_167, /parent_arrayvar)
              * operation : NAME, measure : MEASURE (dominance/statement/operation_measure_shape)
              * M1: no ATN state renders the expected-token set "{INT, '(', '['}", so the message literal guarding `op_name` never occurs
                (dominance/statement/M1) -- otherwise `op_name` could be read unbound when neither child exists (error state 222)
  loop      while parent_ctx: invariant `parent_ctx is None or a context` (INV_PARENT); termination not verified (parent chains are finite)
"""
MODULE = "blackbird_python/blackbird/error.py"
GLOBALS = []

CONTRACTS = {
    "syntaxError": {"qual": "BlackbirdErrorListener.syntaxError", "params": ["self", "recognizer", "offendingSymbol", "line", "column", "msg", "e"],
                    "mode": "post", "reads": [], "modifies": [], "raises": ["BlackbirdSyntaxError"], "requires": "REQ_syntaxError",
                    "post": {"always_raises": "BlackbirdSyntaxError", "message_prefix": "Blackbird SyntaxError (line {}:{})",
                             "message_args": ["line", "column + 1"]},
                    "invariants": {"1": "INV_PARENT"}, "wf": "partial_tree", "none_safety": True,
                    "props": ["C10"], "families": ["syntax_errors"]},
    # the constructor every BlackbirdSyntaxError(...) runs: it must hand the exception object back, whatever the interpreter's exception state
    #   ensures  returns None on every path; no exception escapes (the AttributeError of `None.tb_lineno` is caught); writes nothing
    "NoTraceBack_init": {"qual": "NoTraceBack.__init__", "params": ["self", "msg"], "mode": "post", "reads": [], "modifies": [], "raises": [],
                         "post": {"returns_none": True}, "none_safety": True,
                         "props": ["C10", "C11", "C12"], "families": ["syntax_errors"]},
}


def REQ_syntaxError(self, recognizer, offendingSymbol, line, column, msg, e):
    ctx = e.ctx if e else recognizer._ctx
    return (recognizer is not None and offendingSymbol is not None and IS_CTX(ctx)
            and not (msg == "mismatched input '\\n' expecting {INT, '(', '['}"))      # M1 (closed ATNK fact): this text is never produced


def INV_PARENT(parent_ctx):
    return parent_ctx is None or IS_CTX(parent_ctx)
