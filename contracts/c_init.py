"""Sidecar contracts for blackbird_python/blackbird/__init__.py (C07: load() resolves includes relative to the file; C01/C09: dumps is serialize)."""
MODULE = "blackbird_python/blackbird/__init__.py"
GLOBALS = ["_VAR", "_PARAMS"]
GLOBAL_TYPES = {"_VAR": "dict", "_PARAMS": "list"}      # type invariants of the module tables (assumed at entry, kept by every summary)

CONTRACTS = {
    "load": {"params": ["filename"], "reads": ["_VAR", "_PARAMS"], "modifies": ["_VAR", "_PARAMS"], "raises": "any", "spec": "spec_load",
             "props": ["C07", "C10", "C12"], "families": ["include_inline"]},
    "loads": {"params": ["string"], "reads": ["_VAR", "_PARAMS"], "modifies": ["_VAR", "_PARAMS"], "raises": "any", "spec": "spec_loads",
              "props": ["C02", "C10", "C12"], "families": ["load_denote"]},
    "dumps": {"params": ["blackbird"], "reads": [], "modifies": [], "raises": "any", "spec": "spec_dumps", "props": ["C01", "C09", "C13"],
              "families": ["roundtrip"]},
    "dump": {"params": ["blackbird", "f"], "reads": [], "modifies": [], "raises": "any", "spec": "spec_dump", "props": ["C01", "C09"],
             "families": ["roundtrip"]},
}


def spec_load(filename):
    cwd = os.path.dirname(filename)                 # C07: the base directory is the file's own directory, never the process working directory
    data = antlr4.FileStream(filename)
    return parse(data, cwd=cwd)


def spec_loads(string):
    data = antlr4.InputStream(string)
    return parse(data)


def spec_dumps(blackbird):
    return blackbird.serialize()


def spec_dump(blackbird, f):
    text = blackbird.serialize()
    f.write(text)
