"""Sidecar contracts for blackbird_python/blackbird/listener.py.

State components: the module tables `_VAR`, `_PARAMS` (shared with auxiliary.py) and the listener's fields reached from `self`.
Top-level clauses (taken from the property statements):
  C02  one operation entry per executed statement, in textual order: written gate name, modes in order as integers,
       positional / keyword arguments = values of the written expressions; mode set = union; metadata as written.
  C05  scalars hold CAST(T, value); arrays: 2-D, element (r, c) = c-th entry of the r-th written row, rows of equal length
       (else rejected), declared shape respected (else rejected).
  C04  template parameters stay symbolic at their written positions; `name_i_j` expansion for whole-array parameters.
  C06  loop bodies are deferred while walking and replayed once per value, loop variable bound to CAST(T, v) which must
       preserve the value; the variable is removed afterwards -- also when the loop is empty.
  C07  an included program is expanded with its modes, in increasing order, renamed to the call's modes; arity / keyword checks.
  C08  arguments whose symbols are not all template parameters become RegRefTransforms (positional and keyword alike).
  C11  reserved names, non-integer modes, complex values into int/float, loop values not of the loop type are refused.
  C12  the tables are emptied before anything of a parse reads them (enterStart) and when the program block ends.
  C15  p-array names are registered only for programs of type tdm; template symbols are reported whatever their spelling.
"""
MODULE = "blackbird_python/blackbird/listener.py"
GLOBALS = ["_VAR", "_PARAMS"]
GLOBAL_TYPES = {"_VAR": "dict", "_PARAMS": "list"}      # type invariants of the module tables (assumed at entry, kept by every summary)

# module-level constant tables, compared with the repository's as closed obligations
CONSTS = {
    "PYTHON_TYPES": {"array": "class:np.ndarray", "float": "class:float", "complex": "class:complex", "int": "class:int", "str": "class:str",
                     "bool": "class:bool"},
    "NUMPY_TYPES": {"float": "class:np.float64", "complex": "class:np.complex128", "int": "class:np.int64", "str": "class:np.str_",
                    "bool": "class:np.bool_"},
}

PROG = ["self._program._name", "self._program._version", "self._program._target", "self._program._type", "self._program._operations",
        "self._program._modes", "self._program._var", "self._program._parameters", "self._program._forvar"]

CONTRACTS = {
    "is_ptype": {"params": ["p"], "reads": [], "modifies": [], "raises": "any", "spec": "spec_is_ptype", "props": ["C15", "C04"],
                 "families": ["tdm"]},
    "RegRefTransform": {"qual": "RegRefTransform.__init__", "ctor": True, "params": ["self", "expr"], "reads": [], "modifies": [], "raises": "any",
                        "spec": "spec_RegRefTransform_init", "props": ["C08", "C19"], "families": ["regref_transform"],
                        "fields": ["expr", "func", "regrefs", "func_str"]},
    "RegRefTransform_str": {"qual": "RegRefTransform.__str__", "params": ["self"], "reads": ["self.func_str"], "modifies": [], "raises": [],
                            "spec": "spec_RegRefTransform_str", "props": ["C08", "C01"], "families": ["regref_transform"]},
    "listener_program": {"qual": "BlackbirdListener.program", "params": ["self"], "reads": ["self._program"], "modifies": [], "raises": [],
                         "spec": "spec_listener_program", "props": ["C02", "C12"], "families": ["load_denote"]},
    "BlackbirdListener": {"qual": "BlackbirdListener.__init__", "ctor": True, "params": ["self", "cwd"], "defaults": {"cwd": None}, "reads": [],
                          "modifies": [], "raises": [], "spec": "spec_BlackbirdListener_init", "props": ["C07", "C12"],
                          "fields": ["_program", "_includes", "_cwd", "_in_for"], "families": ["include_inline", "history"]},
    "enterStart": {"qual": "BlackbirdListener.enterStart", "params": ["self", "ctx"], "reads": [], "modifies": ["_VAR", "_PARAMS"], "raises": [],
                   "spec": "spec_enterStart", "props": ["C12"], "families": ["history"]},
    "exitDeclarename": {"qual": "BlackbirdListener.exitDeclarename", "params": ["self", "ctx"], "reads": [], "modifies": ["self._program._name"],
                        "raises": [], "spec": "spec_exitDeclarename", "props": ["C02", "C18"], "families": ["load_denote"]},
    "exitVersion": {"qual": "BlackbirdListener.exitVersion", "params": ["self", "ctx"], "reads": [], "modifies": ["self._program._version"],
                    "raises": [], "spec": "spec_exitVersion", "props": ["C02", "C18"], "families": ["load_denote"]},
    "exitTarget": {"qual": "BlackbirdListener.exitTarget", "params": ["self", "ctx"], "reads": ["_VAR", "_PARAMS", "self._program._target"],
                   "modifies": ["self._program._target", "_PARAMS"], "raises": "any", "spec": "spec_exitTarget", "props": ["C02", "C12", "C18"],
                   "families": ["load_denote", "history"]},
    "exitDeclaretype": {"qual": "BlackbirdListener.exitDeclaretype", "params": ["self", "ctx"], "reads": ["_VAR", "_PARAMS", "self._program._type"],
                        "modifies": ["self._program._type", "_PARAMS"], "raises": "any", "spec": "spec_exitDeclaretype", "props": ["C02", "C12", "C15", "C18"],
                        "families": ["load_denote", "tdm"]},
    "exitExpressionvar": {"qual": "BlackbirdListener.exitExpressionvar", "params": ["self", "ctx"], "reads": ["_VAR", "_PARAMS"],
                          "modifies": ["_VAR", "_PARAMS"], "raises": "any", "spec": "spec_exitExpressionvar", "props": ["C05", "C11", "C04", "C18", "C02"],
                          "families": ["decl_types", "illformed"]},
    "exitArrayvar": {"qual": "BlackbirdListener.exitArrayvar", "params": ["self", "ctx"], "reads": ["_VAR", "_PARAMS", "self._program._type"],
                     "modifies": ["_VAR", "_PARAMS"], "raises": "any", "spec": "spec_exitArrayvar", "props": ["C05", "C04", "C15", "C11", "C18", "C02"],
                     "families": ["decl_types", "template_subst", "tdm", "illformed"]},
    "exitStatement": {"qual": "BlackbirdListener.exitStatement", "params": ["self", "ctx"],
                      "reads": ["_VAR", "_PARAMS", "self._in_for", "self._includes", "self._program._operations", "self._program._modes"],
                      "modifies": ["_PARAMS", "self._program._operations", "self._program._modes"], "raises": "any", "spec": "spec_exitStatement",
                      "props": ["C02", "C06", "C07", "C08", "C11", "C19", "C18"], "families": ["load_denote", "regref_transform", "include_inline", "illformed"]},
    "enterForloop": {"qual": "BlackbirdListener.enterForloop", "params": ["self", "ctx"], "reads": [], "modifies": ["self._in_for"], "raises": [],
                     "spec": "spec_enterForloop", "props": ["C06"], "families": ["forloop_unroll"]},
    "exitForloop": {"qual": "BlackbirdListener.exitForloop", "params": ["self", "ctx"],
                    "reads": ["_VAR", "_PARAMS", "self._in_for", "self._includes", "self._program._operations", "self._program._modes", "self._program._forvar"],
                    "modifies": ["_VAR", "_PARAMS", "self._in_for", "self._program._operations", "self._program._modes", "self._program._forvar"],
                    "raises": "any", "spec": "spec_exitForloop", "props": ["C06", "C11", "C18"], "families": ["forloop_unroll", "illformed"]},
    "enterProgram": {"qual": "BlackbirdListener.enterProgram", "params": ["self", "ctx"], "reads": ["self._program._var", "self._program._parameters"],
                     "modifies": ["_VAR", "_PARAMS", "self._program._var", "self._program._parameters"], "raises": [], "spec": "spec_enterProgram",
                     "props": ["C12", "C04", "C11", "C07"], "families": ["history"]},
    "exitProgram": {"qual": "BlackbirdListener.exitProgram", "params": ["self", "ctx"],
                    "reads": ["_VAR", "_PARAMS", "self._program._var", "self._program._parameters"],
                    "modifies": ["_VAR", "_PARAMS", "self._program._var", "self._program._parameters"], "raises": "any", "spec": "spec_exitProgram",
                    "props": ["C04", "C12", "C15", "C11", "C07"], "families": ["template_subst", "tdm", "history"]},
    "exitInclude": {"qual": "BlackbirdListener.exitInclude", "params": ["self", "ctx"], "reads": ["_VAR", "_PARAMS", "self._includes", "self._cwd"],
                    "modifies": ["self._includes", "_VAR", "_PARAMS"], "raises": "any", "spec": "spec_exitInclude", "props": ["C07", "C10", "C12"],
                    "families": ["include_inline", "syntax_errors"]},
    "parse": {"params": ["data", "listener", "cwd"], "defaults": {"cwd": None, "listener": "class:BlackbirdListener"}, "reads": ["_VAR", "_PARAMS"], "modifies": ["_VAR", "_PARAMS"],
              "raises": "any", "spec": "spec_parse", "props": ["C02", "C10", "C12", "C07"], "families": ["syntax_errors", "history"]},
}


def spec_is_ptype(p):
    return str(p)[0] == "p" and str(p)[1:].isdigit()


def spec_RegRefTransform_init(self, expr):
    # C08/C19: ONE enumeration L of the free symbols serves both the function's parameter list and the register list
    L = list(expr.free_symbols)
    self.expr = expr
    self.func = sym.lambdify(L, expr)
    self.regrefs = [int(str(i)[1:]) for i in L]
    self.func_str = str(expr)


def spec_RegRefTransform_str(self):
    return self.func_str                         # C08: a transform prints as the expression it was built from


def spec_listener_program(self):
    return self._program                         # C02/C12: the program this listener filled, nothing else


def spec_BlackbirdListener_init(self, cwd):
    self._program = BlackbirdProgram()
    self._includes = {}
    self._cwd = cwd
    self._in_for = False
    if cwd is None:
        self._cwd = os.getcwd()                  # the process working directory is read only when no directory was given (C07)


def spec_enterStart(self, ctx):
    _VAR.clear()
    _PARAMS.clear()


def spec_exitDeclarename(self, ctx):
    self._program._name = ctx.programname().getText()


def spec_exitVersion(self, ctx):
    self._program._version = ctx.versionnumber().getText()


def spec_exitTarget(self, ctx):
    self._program._target["name"] = ctx.device().getText()
    options = {}
    if ctx.arguments():
        args, options = _get_arguments(ctx.arguments())
        if args:
            WARN_POSITIONAL_IGNORED()
    self._program._target["options"] = options


def spec_exitDeclaretype(self, ctx):
    self._program._type["name"] = ctx.programtype().getText()
    options = {}
    if ctx.arguments():
        args, options = _get_arguments(ctx.arguments())
        if args:
            WARN_POSITIONAL_IGNORED()
    self._program._type["options"] = options


def RESERVED_NAME_CHECK(ctx, name):
    """C11: qN and the metadata keywords cannot be declared; the error names the identifier, its line and column"""
    if ctx.name().invalid():
        child = ctx.name().invalid()
        if child.REGREF():
            raise BlackbirdSyntaxError(
                "Blackbird SyntaxError (line {}:{}): Variable name '{}' is reserved for register references".format(
                    child.start.line, child.start.column, name
                )
            )
        if child.reserved():
            raise BlackbirdSyntaxError(
                "Blackbird SyntaxError (line {}:{}): Variable name '{}' is a reserved Blackbird keyword".format(
                    child.start.line, child.start.column, name
                )
            )


def spec_exitExpressionvar(self, ctx):
    name = ctx.name().getText()
    vartype = ctx.vartype().getText()
    RESERVED_NAME_CHECK(ctx, name)
    if ctx.expression():
        value = _expression(ctx.expression())
    elif ctx.nonnumeric():
        value = _literal(ctx.nonnumeric())
    if isinstance(value, sym.Expr):
        final_value = value                                        # C04: a symbolic initialiser is kept
    elif vartype == "array" or (vartype in ("int", "float") and IS_COMPLEXKIND(value)):
        # C19/C05: `array` is not a scalar type (np.ndarray(n) is uninitialised memory); C11: literal or computed, Python or NumPy complex
        raise TypeError("Var {} = {} is not of declared type {}".format(name, value, vartype))
    else:
        try:
            final_value = PYTHON_TYPES[vartype](value)             # C05: value of the declared type
        except TypeError:
            try:
                final_value = NUMPY_TYPES[vartype](value)
            except:
                raise TypeError("Var {} = {} is not of declared type {}".format(name, value, vartype))
    _VAR[name] = final_value


def spec_exitArrayvar(self, ctx):
    name = ctx.name().getText()
    vartype = ctx.vartype().getText()
    RESERVED_NAME_CHECK(ctx, name)
    shape = None
    if ctx.shape():
        shape = tuple([int(i) for i in ctx.shape().getText().split(",")])
    # the written entries, row by row; parameters are remembered with their position among ALL written entries (C04)
    value = []
    parameters = []
    array_rows = 0
    row_lengths = set()
    for i in ctx.arrayval().getChildren():
        if isinstance(i, blackbirdParser.ArrayrowContext):
            array_rows += 1
            row_lengths.add(len(i.expression()))
            for j in i.getChildren():
                if isinstance(j, blackbirdParser.ParameterLabelContext):
                    parameters.append((len(value) + len(parameters), _expression(j)))
                elif j.getText() != ",":
                    value.append(_expression(j))
    if len(row_lengths) > 1:                                        # C05: rows of different lengths are rejected, not rearranged
        raise BlackbirdSyntaxError(
            "Blackbird SyntaxError (line {}:{}): Array var {} has rows of different lengths".format(ctx.start.line, ctx.start.column, name)
        )
    try:
        if vartype in ("int", "float") and any(IS_COMPLEXKIND(v) for v in value):   # C11
            raise TypeError
        final_value = np.array(value, dtype=NUMPY_TYPES[vartype])  # C05: declared element type
    except TypeError:
        raise BlackbirdSyntaxError(
            "Blackbird SyntaxError (line {}:{}): Array var {} is not of declared type {}".format(ctx.start.line, ctx.start.column, name, vartype)
        )
    if final_value.size == 0 and len(parameters) == 1:
        # whole-array parameter: needs a declared shape; expands to name_i_j per element, the base name is no parameter (C04)
        if not ctx.shape():
            raise BlackbirdSyntaxError(
                "Blackbird SyntaxError (line {}:{}): Array template var {} has no shape defined.".format(ctx.start.line, ctx.start.column, name)
            )
        final_value = []
        for i in range(shape[0]):
            final_value.append([])
            for j in range(shape[1]):
                final_value[-1].append(sym.Symbol(parameters[0][1].name + "_{}_{}".format(i, j)))
        final_value = np.array(final_value)
        _PARAMS.extend(final_value.flatten())
        _PARAMS.remove(parameters[0][1])
    else:
        if parameters:
            final_value = final_value.astype(object)
            for p in parameters:
                final_value = np.insert(final_value, p[0], p[1])   # lean/Fold.lean reinsert_split: this reconstructs the written order
        final_value = final_value.reshape(array_rows, -1)          # row-major, one row per written row (lean/Fold.lean flatten_get_rowmajor)
        actual_shape = final_value.shape
        if shape and actual_shape != shape:                         # C05: a contradicting declaration is rejected
            raise BlackbirdSyntaxError(
                "Blackbird SyntaxError (line {}:{}): Array var {} has declared shape {} "
                "but actual shape {}".format(ctx.start.line, ctx.start.column, name, shape, actual_shape)
            )
    if self._program._type["name"] == "tdm" and is_ptype(name):    # C15: only tdm programs pass p-arrays by name
        _PARAMS.append(name)
    _VAR[name] = final_value


def spec_exitStatement(self, ctx):
    if isinstance(ctx.parentCtx, blackbirdParser.ForloopContext):
        if self._in_for:
            return                                                  # C06: body statements are deferred while walking
    if ctx.operation():
        op = ctx.operation().getText()
    elif ctx.measure():
        op = ctx.measure().getText()
    modes = [m for m in ctx.arrayrow().getChildren() if m.getText() != ","]
    for i, m in enumerate(modes):
        m = _expression(m)
        if IS_INTKIND(m):                                           # C02/C11: modes are integers, in written order
            modes[i] = m
        else:
            raise ValueError("Mode must be of type int, not {}".format(type(m)))
    self._program._modes |= set(modes)                              # C02: union of all modes used
    if ctx.arguments():
        op_args, op_kwargs = _get_arguments(ctx.arguments())
        # C08: an argument with a symbol that is not a template parameter depends on a measured register
        for idx, a in enumerate(op_args):
            if isinstance(a, sym.Expr):
                if not set(a.free_symbols) <= set(_PARAMS):
                    op_args[idx] = RegRefTransform(a)
        for k, v in op_kwargs.items():
            if isinstance(v, sym.Expr):
                if not set(v.free_symbols) <= set(_PARAMS):
                    op_kwargs[k] = RegRefTransform(v)
            elif isinstance(v, list):
                # C08/C01: elements of a list-valued keyword argument alike
                for idx, a in enumerate(v):
                    if isinstance(a, sym.Expr):
                        if not set(a.free_symbols) <= set(_PARAMS):
                            v[idx] = RegRefTransform(a)
        operation = {"op": op, "args": op_args, "kwargs": op_kwargs, "modes": modes}
    else:
        operation = {"op": op, "modes": modes}
    if op in self._includes:
        # C07: inline the included program with its modes, in increasing order, renamed to the modes of the call
        bb = self._includes[op][1]
        if len(modes) != len(bb.modes):
            raise ValueError(
                "Included operation {} acts on {} modes, "
                "but {} modes provided".format(op, len(bb.modes), len(modes))
            )
        if ctx.arguments():
            if not bb.is_template():
                raise ValueError("Included operation {} does not accept arguments".format(op))
            if bb.parameters != set(operation["kwargs"]):
                raise ValueError("Included operation {} must accept only keyword arguments {}".format(op, bb.parameters))
            bb = bb(**operation["kwargs"])
        else:
            if bb.is_template():
                raise ValueError("Included operation {} missing keyword arguments {}".format(op, bb.parameters))
        mode_map = dict(zip(sorted(bb.modes), modes))
        for i in copy.deepcopy(bb._operations):                      # C07: every call expands a COPY (the registered include is reused by later calls)
            i["modes"] = [mode_map[j] for j in i["modes"]]
            self._program._operations.append(i)
    else:
        self._program._operations.append(operation)                 # C02: one entry per executed statement, in order


def spec_enterForloop(self, ctx):
    self._in_for = True


def spec_exitForloop(self, ctx):
    self._in_for = False
    if ctx.rangeval():
        for_var = range(*[int(c.getText()) for c in ctx.rangeval().getChildren() if c.getText() != ":"])   # a, a+c, ... below b
    elif ctx.vallist():
        for_var = []
        for c in ctx.vallist().getChildren():
            if isinstance(c, blackbirdParser.ValContext):
                if c.expression() is not None:
                    for_var.append(_expression(c.expression()))
                elif c.nonnumeric() is not None:
                    for_var.append(_literal(c.nonnumeric()))
    for var in for_var:
        if ctx.NAME():
            # C06/C11: bound to the value converted to the declared type; a value the conversion changes or refuses is not of the loop type
            try:
                if ctx.vartype().getText() == "array":
                    raise ValueError                                # C19: `array` is no loop type (np.ndarray(v) is uninitialised memory)
                new_var = PYTHON_TYPES[ctx.vartype().getText()](var)
                if new_var != var:
                    raise ValueError
            except ValueError:
                raise ValueError("invalid value {}; must be {}".format(var, ctx.vartype().getText()))
            _VAR[ctx.NAME().getText()] = new_var
        for statement in ctx.statement_list:
            self.exitStatement(statement)                           # the body, once per value, in order
    self._program._forvar[ctx.NAME().getText()] = np.array(for_var)
    if ctx.NAME():
        _VAR.pop(ctx.NAME().getText(), None)                        # C06: not visible after the loop -- also when it never ran


def spec_enterProgram(self, ctx):
    _VAR.clear()
    self._program._var.update(_VAR)
    # C09/C04: parameters met in the metadata options stay registered (the tables were emptied when the parse started)
    self._program._parameters.extend(_PARAMS)


def spec_exitProgram(self, ctx):
    self._program._var.update(_VAR)                                 # entries copied; the table itself is not handed out (C12)
    _VAR.clear()
    # C04/C15: template symbols are reported whatever their spelling; registered p-array names (strings) are not parameters
    self._program._parameters.extend([p for p in _PARAMS if not isinstance(p, str)])
    _PARAMS.clear()


def spec_exitInclude(self, ctx):
    filename = os.path.join(self._cwd, ctx.STR().getText()[1:-1])   # C07: relative to the including file's directory
    for _, f in self._includes.items():
        if f[0] == filename:
            return                                                  # repeated include lines are no-ops
    cwd = os.path.dirname(filename)
    data = antlr4.FileStream(filename)
    lexer = blackbirdLexer(data)
    stream = antlr4.CommonTokenStream(lexer)
    parser = blackbirdParser(stream)
    parser.removeErrorListeners()
    parser.addErrorListener(BlackbirdErrorListener())               # C10: installed before start()
    tree = parser.start()
    listener = BlackbirdListener(cwd=cwd)
    walker = antlr4.ParseTreeWalker()
    walker.walk(listener, tree)
    bb = listener.program
    self._includes[bb.name] = [filename, bb]
    self._includes.update(listener._includes)                       # nested includes are registered at the top level too


def spec_parse(data, listener, cwd):
    lexer = blackbirdLexer(data)
    stream = antlr4.CommonTokenStream(lexer)
    parser = blackbirdParser(stream)
    parser.removeErrorListeners()
    parser.addErrorListener(BlackbirdErrorListener())               # C10: default listeners removed, ours installed before start()
    tree = parser.start()
    blackbird = listener(cwd=cwd)
    walker = antlr4.ParseTreeWalker()
    walker.walk(blackbird, tree)
    return blackbird.program
