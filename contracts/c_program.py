"""Sidecar contracts for blackbird_python/blackbird/program.py.

Top-level clauses (from the property statements):
  C01/C09  every value kind is printed in its canonical Blackbird form, recursively inside lists: integers decimal, floats by
           repr (round-trips exactly), complex as {re}{+|-}{|im|}j, booleans True/False, strings double-quoted, NumPy scalars
           as plain numbers, symbolic values with every parameter occurrence written {name} whatever the other names are;
           arrays are hoisted into declarations (numpy_to_blackbird: header with the shape, one line per row, every element).
  C13      getters return the program's own fields, nothing is written.
  C15      in tdm programs p-array names are printed unquoted and only p-arrays are declared.
"""
MODULE = "blackbird_python/blackbird/program.py"
GLOBALS = []

FIELDS = ["_var", "_forvar", "_modes", "_name", "_version", "_target", "_type", "_operations", "_parameters"]

CONTRACTS = {
    "_is_ptype": {"params": ["v"], "reads": [], "modifies": [], "raises": "any", "spec": "spec__is_ptype", "props": ["C15", "C01", "C09"],
                  "families": ["tdm"]},
    "_value_to_blackbird": {"params": ["v", "p_names"], "defaults": {"p_names": "empty_tuple"}, "reads": [], "modifies": [], "raises": "any",
                            "spec": "spec__value_to_blackbird", "props": ["C01", "C09", "C15", "C19"], "families": ["roundtrip", "api_serialize"]},
    "numpy_to_blackbird": {"params": ["A", "var_name"], "reads": [], "modifies": [], "raises": "any", "spec": "spec_numpy_to_blackbird",
                           "props": ["C01", "C09"], "families": ["api_serialize", "roundtrip"]},
    "_bind_parameters": {"params": ["v", "values"], "reads": [], "modifies": [], "raises": "any", "spec": "spec__bind_parameters",
                         "props": ["C04", "C07", "C13"], "families": ["template_subst"]},
    "__call__": {"qual": "BlackbirdProgram.__call__", "params": ["self"], "kwarg": "kwargs", "reads": ["self._parameters", "self._operations", "self._var"],
                 "modifies": [], "raises": "any", "spec": "spec_call", "props": ["C04", "C07", "C13"], "families": ["template_subst", "readonly_ops"]},
    "serialize": {"qual": "BlackbirdProgram.serialize", "params": ["self"],
                  "reads": ["self._name", "self._version", "self._target", "self._type", "self._operations", "self._var"], "modifies": [], "raises": "any",
                  "spec": "spec_serialize", "props": ["C01", "C09", "C15", "C13", "C19"], "families": ["roundtrip", "api_serialize", "tdm"]},
    "BlackbirdProgram": {"qual": "BlackbirdProgram.__init__", "ctor": True, "params": ["self", "name", "version"],
                         "defaults": {"name": "blackbird_program", "version": "1.0"}, "reads": [], "modifies": [], "raises": [],
                         "spec": "spec_BlackbirdProgram_init", "props": ["C12", "C02"], "fields": ["_var", "_forvar", "_modes", "_name", "_version", "_target",
                                                                                             "_type", "_operations", "_parameters"],
                         "families": ["history"]},
    "getter_name": {"qual": "BlackbirdProgram.name", "params": ["self"], "reads": ["self._name"], "modifies": [], "raises": [], "spec": "spec_get_name",
                    "props": ["C02", "C13"]},
    "getter_version": {"qual": "BlackbirdProgram.version", "params": ["self"], "reads": ["self._version"], "modifies": [], "raises": [],
                       "spec": "spec_get_version", "props": ["C02", "C13"]},
    "getter_modes": {"qual": "BlackbirdProgram.modes", "params": ["self"], "reads": ["self._modes"], "modifies": [], "raises": [], "spec": "spec_get_modes",
                     "props": ["C02", "C13"]},
    "getter_target": {"qual": "BlackbirdProgram.target", "params": ["self"], "reads": ["self._target"], "modifies": [], "raises": [],
                      "spec": "spec_get_target", "props": ["C02", "C13"]},
    "getter_programtype": {"qual": "BlackbirdProgram.programtype", "params": ["self"], "reads": ["self._type"], "modifies": [], "raises": [],
                           "spec": "spec_get_programtype", "props": ["C02", "C13", "C15"]},
    "getter_operations": {"qual": "BlackbirdProgram.operations", "params": ["self"], "reads": ["self._operations"], "modifies": [], "raises": [],
                          "spec": "spec_get_operations", "props": ["C02", "C13"]},
    "getter_parameters": {"qual": "BlackbirdProgram.parameters", "params": ["self"], "reads": ["self._parameters"], "modifies": [], "raises": "any",
                          "spec": "spec_get_parameters", "props": ["C04", "C13", "C19"]},
    "getter_variables": {"qual": "BlackbirdProgram.variables", "params": ["self"], "reads": ["self._var"], "modifies": [], "raises": [],
                         "spec": "spec_get_variables", "props": ["C05", "C13", "C15"]},
    "is_template": {"qual": "BlackbirdProgram.is_template", "params": ["self"], "reads": ["self._parameters"], "modifies": [], "raises": [],
                    "spec": "spec_is_template", "props": ["C04", "C13", "C17", "C07"]},
    # the expression printer (C01/C09: what is written must read back as the same expression): the two overrides of sympy's StrPrinter
    "_print_Mul": {"qual": "_BlackbirdExprPrinter._print_Mul", "params": ["self", "expr"], "reads": [], "modifies": [], "raises": "any",
                   "spec": "spec_print_Mul", "props": ["C01", "C09", "C04"], "families": ["roundtrip", "api_serialize"]},
    "_print_ImaginaryUnit": {"qual": "_BlackbirdExprPrinter._print_ImaginaryUnit", "params": ["self", "expr"], "reads": [], "modifies": [], "raises": [],
                             "spec": "spec_print_ImaginaryUnit", "props": ["C01", "C09"], "families": ["roundtrip", "api_serialize"]},
    "__len__": {"qual": "BlackbirdProgram.__len__", "params": ["self"], "reads": ["self._operations"], "modifies": [], "raises": [],
                "spec": "spec_len", "props": ["C02", "C13"]},
}


def spec_print_Mul(self, expr):
    # Blackbird's unary minus binds tighter than ** (grammar: MINUS expression before PWR): -a**2 would read back as (-a)**2, so a
    # negated product that contains a power is written -(...)  (C01/C09); everything else is sympy's own text (A-sympy)
    text = super()._print_Mul(expr)
    if text.startswith("-") and "**" in text:
        return "-(" + text[1:] + ")"
    return text


def spec_print_ImaginaryUnit(self, expr):
    return "1j"                                                    # the grammar's imaginary literal (sympy's own text is I)


def spec__is_ptype(v):
    return len(v) > 1 and v[0] == "p" and v[1:].isdigit()


def spec__value_to_blackbird(v, p_names):
    if isinstance(v, (list, tuple)):
        # lists: every element recursively canonical (NumPy scalars as plain numbers, strings double-quoted, symbols braced)
        return "[{}]".format(", ".join(_value_to_blackbird(i, p_names) for i in v))
    if isinstance(v, str):
        if v in p_names:
            return v                                               # C15: reference to a DECLARED p-array, unquoted
        return '"{}"'.format(v)
    if isinstance(v, sym.Expr):
        # Blackbird text of the expression (A-sympy-str + _BlackbirdExprPrinter: negated powers bracketed, imaginary unit 1j), then every
        # occurrence of every free parameter written {name}: whole-word alternation, longest name first, so the result does not depend
        # on other names being prefixes of one another nor on the iteration order of the symbol set
        text = _BlackbirdExprPrinter().doprint(v)
        names = sorted((str(p) for p in v.free_symbols), key=len, reverse=True)
        if not names:
            return text
        pattern = r"\b({})\b".format("|".join(re.escape(n) for n in names))
        return re.sub(pattern, r"{\1}", text)
    if isinstance(getattr(v, "expr", None), sym.Expr):
        return _BlackbirdExprPrinter().doprint(v.expr)           # register transforms: same printer, nothing to brace
    if isinstance(v, np.generic):
        v = v.item()                                               # NumPy scalars print as the plain Python number
    if isinstance(v, complex):
        # C09: the sign character is the sign BIT of the imaginary part, so that negative zero survives
        return "{}{}{}j".format(v.real, "+-"[int(np.signbit(v.imag))], abs(v.imag))
    return "{}".format(v)


def spec_numpy_to_blackbird(A, var_name):
    if np.issubdtype(A.dtype, np.complexfloating):
        script = ["complex array {}[{}, {}] =".format(var_name, *A.shape)]
        for row in A:
            row_str = "    " + ", ".join(["{0}{1}{2}j".format(n.real, "+-"[int(np.signbit(n.imag))], abs(n.imag)) for n in row])
            script.append(row_str)
    elif np.issubdtype(A.dtype, np.integer):
        script = ["int array {}[{}, {}] =".format(var_name, *A.shape)]
        for row in A:
            row_str = "    " + ", ".join(["{}".format(int(n)) for n in row])
            script.append(row_str)
    elif np.issubdtype(A.dtype, np.floating):
        script = ["float array {}[{}, {}] =".format(var_name, *A.shape)]
        for row in A:
            row_str = "    " + ", ".join(["{}".format(n) for n in row])
            script.append(row_str)
    else:
        raise ValueError("Array {} is of unsupported type {}".format(A, A.dtype))
    script.append("")
    return script


def spec_BlackbirdProgram_init(self, name, version):
    # C12: every program owns fresh containers
    self._var = {}
    self._forvar = {}
    self._modes = set()
    self._name = name
    self._version = version
    self._target = {"name": None, "options": dict()}
    self._type = {"name": None, "options": dict()}
    self._operations = []
    self._parameters = []


def spec_get_name(self):
    return self._name


def spec_get_version(self):
    return self._version


def spec_get_modes(self):
    return self._modes


def spec_get_target(self):
    return self._target


def spec_get_programtype(self):
    return self._type


def spec_get_operations(self):
    return self._operations


def spec_get_parameters(self):
    return set([str(i) for i in self._parameters])


def spec_get_variables(self):
    return self._var


def spec_is_template(self):
    return bool(self.parameters)


def spec_len(self):
    return len(self._operations)


def spec__bind_parameters(v, values):
    # C04: SUBST(v, values) on every value kind that can hold a parameter
    if isinstance(v, sym.Expr):
        par = list(v.free_symbols)
        func = sym.lambdify(par, v)
        try:
            vals = [values[str(p)] for p in par]                   # one enumeration `par` for the function and the values: bound by position
        except KeyError:
            raise ValueError("Invalid value for free parameter provided")   # a missing value is refused
        return func(*vals)
    if isinstance(v, list):
        return [_bind_parameters(i, values) for i in v]            # lists element by element
    if isinstance(v, np.ndarray):
        populated_array = copy.deepcopy(v)                         # never the template's own array
        if v.dtype == object:
            for idx in np.ndindex(v.shape):
                populated_array[idx] = _bind_parameters(v[idx], values)
            if not any(isinstance(i, sym.Expr) for i in populated_array.flat):
                populated_array = np.array(populated_array.tolist())
        return populated_array
    return v


def spec_call(self, **kwargs):
    if not self.parameters:
        raise ValueError("Program is not a template!")
    prog = copy.deepcopy(self)                                     # C13: the instance shares nothing with the template
    prog._parameters = []                                          # C04: an instantiated program has no free parameters left
    new_kwargs = copy.deepcopy(kwargs)
    for k, v in kwargs.items():
        if isinstance(v, Iterable):
            if np.ndim(v) != 2:
                raise ValueError("Invalid dim for free parameter provided. Must have dim 2.")
            added_kwargs = {k + "_{}_{}".format(i, j): val for i, row in enumerate(v) for j, val in enumerate(row)}   # name_i_j per element
            new_kwargs.update(added_kwargs)
            del new_kwargs[k]
    kwargs = new_kwargs
    for op in prog._operations:
        if "args" not in op:
            continue
        for idx, a in enumerate(op["args"]):
            op["args"][idx] = _bind_parameters(a, kwargs)
        for k, v in op["kwargs"].items():
            op["kwargs"][k] = _bind_parameters(v, kwargs)
    for k, v in prog._var.items():
        prog._var[k] = _bind_parameters(v, kwargs)
    return prog


def spec_serialize(self):
    var_count = 0
    array_insert = 3
    script = ["name {}".format(self.name), "version {}".format(self.version)]
    for name, data in [("target", self.target), ("type", self.programtype)]:
        if data["name"] is not None:
            array_insert += 1
            options = ""
            if data["options"]:
                option_strings = []
                for k, v in data["options"].items():
                    option_strings.append("{}={}".format(k, _value_to_blackbird(v)))       # C09: options in canonical form too
                options = " ({})".format(", ".join(option_strings))
            script.append("{} {}{}".format(name, data["name"], options))
    script.append("")
    if self.programtype["name"] == "tdm":
        inv_type_map = {np.dtype(v).kind: k for k, v in NUMPY_TYPES.items()}
        for k, v in self._var.items():
            if not (_is_ptype(k) and isinstance(v, np.ndarray)):
                continue                                             # C15: only p-arrays are declared
            var_type = inv_type_map[np.array(v).dtype.kind]
            array_string = ""
            if isinstance(v, Iterable):
                for row in v:
                    array_string += "\n    " + "".join("{}, ".format(i) for i in row)[:-2]
                script.append("{} array {} ={}".format(var_type, k, array_string))
            else:
                script.append("{} array {} =\n{}".format(var_type, k, v))
        script.append("")
    p_names = set()
    if self.programtype["name"] == "tdm":
        p_names = {k for k, v in self._var.items() if _is_ptype(k) and isinstance(v, np.ndarray)}
    for op in self.operations:
        if len(op["modes"]) == 1:
            modes = op["modes"][0]
        else:
            modes = "[{}]".format(", ".join("{}".format(m) for m in op["modes"]))         # written order, plain integers
        if "args" in op:
            args = []
            kwargs = []
            for v in op["args"]:
                if isinstance(v, np.ndarray):
                    var_name = "A{}".format(var_count)
                    args.append(var_name)
                    var_count += 1
                    bb_array = numpy_to_blackbird(v, var_name)
                    for idx, line in enumerate(bb_array):
                        script.insert(array_insert + idx, line)      # declarations go after the metadata, in order of first use
                    array_insert += len(bb_array)
                else:
                    args.append(_value_to_blackbird(v, p_names))
            for k, v in op["kwargs"].items():
                if isinstance(v, np.ndarray):
                    var_name = "A{}".format(var_count)
                    kwargs.append("{}={}".format(k, var_name))
                    var_count += 1
                    bb_array = numpy_to_blackbird(v, var_name)
                    for idx, line in enumerate(bb_array):
                        script.insert(array_insert + idx, line)
                    array_insert += len(bb_array)
                else:
                    kwargs.append("{}={}".format(k, _value_to_blackbird(v, p_names)))
            if args and kwargs:
                arguments = "({}, {})".format(", ".join(args), ", ".join(kwargs))
            elif not kwargs:
                arguments = "({})".format(", ".join(args))
            elif not args:
                arguments = "({})".format(", ".join(kwargs))
            script.append("{}{} | {}".format(op["op"], arguments, modes))
        else:
            script.append("{} | {}".format(op["op"], modes))
    if script[-1] != "":
        script.append("")
    return "\n".join(script)
