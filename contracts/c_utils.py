"""Sidecar contracts for blackbird_python/blackbird/utils.py.

C16  to_DiGraph: with W(i) = set(modes_i) + registers of the transforms among args and keyword values, and S_q the increasing list of the
     operations i with q in W(i): one node per operation (attributes name / args / kwargs / modes as tuple), edges exactly the pairs
     (S_q[j-1], S_q[j]) -- the relation `E` of lean/Graph.lean (Consec): lean/GridEdges.lean proves that the algorithm below (per-wire filtered
     lists of operation indices, edges between adjacent entries) computes exactly E (edges_eq_E) and the node set (nodes_iff); acyclicity, reachability = chains sharing a wire and order on every
     wire are the Lean theorems acyclic / reach_iff_chain / topo_keeps_wire_order over that edge set.  Nothing of the program is written (C13).
C17  match_template: the four structural prechecks raise TemplateError; graphs must be isomorphic under equal gate name AND equal mode tuple;
     a Symbol argument yields the program's value, a one-parameter expression is solved, more than one parameter is refused, repeated
     parameters must agree up to rounding (np.isclose), p-array values are substituted for tdm programs.
"""
MODULE = "blackbird_python/blackbird/utils.py"
GLOBALS = []

CONTRACTS = {
    "to_DiGraph": {"params": ["program"], "reads": [], "modifies": [], "raises": "any", "spec": "spec_to_DiGraph", "props": ["C16", "C13", "C17"],
                   "families": ["digraph", "readonly_ops"]},
    "match_template": {"params": ["template", "program"], "reads": [], "modifies": [], "raises": "any", "spec": "spec_match_template",
                       "props": ["C17", "C13"], "families": ["template_match", "readonly_ops"]},
}


def spec_to_DiGraph(program):
    grid = {}                                                        # ghost S: wire -> increasing list of [index, command]
    for idx, op in enumerate(program.operations):
        dependencies = set(op['modes'])                              # W(idx)
        if 'args' in op:
            for a in op['args']:
                if isinstance(a, RegRefTransform):
                    dependencies |= set(a.regrefs)
            for _, v in op['kwargs'].items():
                if isinstance(v, RegRefTransform):
                    dependencies |= set(v.regrefs)
        cmd = Command(name=op['op'], args=op.get('args', []), kwargs=op.get('kwargs', {}), modes=tuple(op['modes']))   # read with defaults: no write (C13)
        for q in dependencies:
            if q not in grid:
                grid[q] = []
            grid[q].append([idx, cmd])
    G = nx.DiGraph()
    for q, cmds in grid.items():
        if cmds:
            attrs = cmds[0][1]._asdict()
            G.add_node(cmds[0][0], **attrs)
        for i in range(1, len(cmds)):
            if cmds[i][0] not in G:
                attrs = cmds[i][1]._asdict()
                G.add_node(cmds[i][0], **attrs)
            G.add_edge(cmds[i-1][0], cmds[i][0])                     # consecutive operations on the wire: Consec(touch, q, S_q[i-1], S_q[i])
    return G


def spec_match_template(template, program):
    if not template.is_template():
        raise TemplateError("Argument 1 is not a template.")
    if program.is_template():
        raise TemplateError("Argument 2 cannot be a template.")
    if template.version != program.version:
        raise TemplateError("Mismatching Blackbird version between template and program")
    if template.target['name'] != program.target['name']:
        raise TemplateError("Mismatching target between template and program")
    G1 = to_DiGraph(template)
    G2 = to_DiGraph(program)

    def node_match(n1, n2):
        return n1['name'] == n2['name'] and n1['modes'] == n2['modes']     # same gate AND same mode list, in order

    GM = isomorphism.DiGraphMatcher(G1, G2, node_match)
    if not GM.is_isomorphic():
        raise TemplateError("Not the same program.")
    G1nodes = G1.nodes().data()
    G2nodes = G2.nodes().data()
    argmatch = {}
    key = ""
    for n1, n2 in GM.mapping.items():
        for x, y in zip(G1nodes[n1]['args'], G2nodes[n2]['args']):
            if np.all(x != y):
                if isinstance(x, sym.Symbol):
                    key = str(x)
                    val = y
                elif isinstance(x, sym.Expr):
                    var = x.free_symbols
                    if len(var) > 1:
                        raise TemplateError("Matching template parameters only supports "
                                            "one template parameter per gate argument.")
                    res = solve(x-y, var)
                    key = str(var)[1:-1]
                    val = float(res[-1])
                if key in argmatch:
                    try:
                        same = bool(np.isclose(argmatch[key], val))      # consistent up to rounding
                    except TypeError:
                        same = argmatch[key] == val
                    if not same:
                        raise TemplateError("Template parameter {} matches inconsistent values: "
                                            "{} and {}".format(key, val, argmatch[key]))
                if key != "":
                    argmatch[key] = val
    p_params = {k: program.variables[str(v)] for k, v in argmatch.items() if str(v) in program.variables}
    argmatch.update(p_params)
    return argmatch
