"""Frame / ownership / order-independence clauses (read with ast by pyvc.frames_run; DESIGN 2.5, section 3 C07 C12 C13 C19).

modifies        regions the function may write (prefix match); everything else must stay untouched
outputs         regions that hold the function's results (for aliasing clauses); "return" is implicit
independent_of  regions whose objects must not be stored (by reference) into the outputs; a trailing "!" = that exact object only
deterministic   the returned value must not depend on the iteration order of a set
independent_of_mutable  as independent_of for that exact object, but only on paths where a type test says it is a list / array / dict / set
order_free      fields whose order is documented as free (RegRefTransform.regrefs / func share one enumeration)
"""
P = "blackbird_python/blackbird/"

FRAMES = {
    # C13: read-only operations leave the program unchanged; instances are independent of the template
    "serialize": {"module": P + "program.py", "qual": "BlackbirdProgram.serialize", "params": ["self"], "modifies": [], "deterministic": True,
                  "props": ["C13", "C19", "C01", "C09"], "families": ["readonly_ops", "hashseed"]},
    "__call__": {"module": P + "program.py", "qual": "BlackbirdProgram.__call__", "params": ["self"], "kwarg": "kwargs", "modifies": [],
                 "independent_of": ["param.self", "param.kwargs"], "deterministic": True, "props": ["C13", "C04", "C19", "C07"],
                 "families": ["readonly_ops", "template_subst"]},
    "_value_to_blackbird": {"module": P + "program.py", "qual": "_value_to_blackbird", "params": ["v", "tdm"], "modifies": [], "deterministic": True,
                            "props": ["C13", "C19", "C01", "C09"], "families": ["hashseed", "roundtrip"]},
    "_bind_parameters": {"module": P + "program.py", "qual": "_bind_parameters", "params": ["v", "values"], "modifies": [], "deterministic": True,
                         "independent_of_mutable": ["param.v"], "props": ["C13", "C19", "C04"], "families": ["hashseed", "template_subst"]},
    "numpy_to_blackbird": {"module": P + "program.py", "qual": "numpy_to_blackbird", "params": ["A", "var_name"], "modifies": [], "deterministic": True,
                           "props": ["C13", "C19"], "families": ["readonly_ops"]},
    "parameters": {"module": P + "program.py", "qual": "BlackbirdProgram.parameters", "params": ["self"], "modifies": [], "props": ["C13", "C19"],
                   "families": ["readonly_ops"]},
    "is_template": {"module": P + "program.py", "qual": "BlackbirdProgram.is_template", "params": ["self"], "modifies": [], "props": ["C13"],
                    "families": ["readonly_ops"]},
    "__len__": {"module": P + "program.py", "qual": "BlackbirdProgram.__len__", "params": ["self"], "modifies": [], "props": ["C13"], "families": ["readonly_ops"]},
    "to_DiGraph": {"module": P + "utils.py", "qual": "to_DiGraph", "params": ["program"], "modifies": [], "props": ["C13", "C16", "C17"],
                   "families": ["readonly_ops", "digraph"]},
    "match_template": {"module": P + "utils.py", "qual": "match_template", "params": ["template", "program"], "modifies": [], "props": ["C13", "C17"],
                       "families": ["readonly_ops", "template_match"]},
    "dumps": {"module": P + "__init__.py", "qual": "dumps", "params": ["blackbird"], "modifies": [], "props": ["C13"], "families": ["readonly_ops"]},
    # C07: the include expansion writes only the including program; what it appends is independent of the registered include
    "exitStatement": {"module": P + "listener.py", "qual": "BlackbirdListener.exitStatement", "params": ["self", "ctx"],
                      "modifies": ["param.self._program", "global._PARAMS"], "outputs": ["param.self._program"],
                      "independent_of": ["param.self._includes", "global._VAR!", "global._PARAMS!"], "props": ["C07", "C12", "C19"],
                      "families": ["include_inline", "hashseed"]},
    "exitInclude": {"module": P + "listener.py", "qual": "BlackbirdListener.exitInclude", "params": ["self", "ctx"],
                    "modifies": ["param.self._includes", "global._VAR", "global._PARAMS"], "props": ["C07", "C12"], "families": ["include_inline"]},
    # C12: nothing reachable from the module tables is handed out with the program; handlers write only the tables and their own program
    "exitProgram": {"module": P + "listener.py", "qual": "BlackbirdListener.exitProgram", "params": ["self", "ctx"],
                    "modifies": ["param.self._program", "global._VAR", "global._PARAMS"], "outputs": ["param.self._program"],
                    "independent_of": ["global._VAR!", "global._PARAMS!"], "props": ["C12", "C04", "C19"], "families": ["history", "hashseed"]},
    "enterProgram": {"module": P + "listener.py", "qual": "BlackbirdListener.enterProgram", "params": ["self", "ctx"],
                     "modifies": ["param.self._program", "global._VAR", "global._PARAMS"], "outputs": ["param.self._program"],
                     "independent_of": ["global._VAR!", "global._PARAMS!"], "props": ["C12"], "families": ["history"]},
    "enterStart": {"module": P + "listener.py", "qual": "BlackbirdListener.enterStart", "params": ["self", "ctx"], "modifies": ["global._VAR", "global._PARAMS"],
                   "props": ["C12"], "families": ["history"]},
    "exitForloop": {"module": P + "listener.py", "qual": "BlackbirdListener.exitForloop", "params": ["self", "ctx"],
                    "modifies": ["param.self._program", "param.self._in_for", "global._VAR", "global._PARAMS"], "props": ["C12", "C06"], "families": ["history"]},
    "exitExpressionvar": {"module": P + "listener.py", "qual": "BlackbirdListener.exitExpressionvar", "params": ["self", "ctx"],
                          "modifies": ["global._VAR", "global._PARAMS"], "props": ["C12"], "families": ["history"]},
    "exitArrayvar": {"module": P + "listener.py", "qual": "BlackbirdListener.exitArrayvar", "params": ["self", "ctx"],
                     "modifies": ["global._VAR", "global._PARAMS"], "props": ["C12", "C19"], "families": ["history"]},
    "exitTarget": {"module": P + "listener.py", "qual": "BlackbirdListener.exitTarget", "params": ["self", "ctx"],
                   "modifies": ["param.self._program", "global._PARAMS"], "props": ["C12"], "families": ["history"]},
    "exitDeclaretype": {"module": P + "listener.py", "qual": "BlackbirdListener.exitDeclaretype", "params": ["self", "ctx"],
                        "modifies": ["param.self._program", "global._PARAMS"], "props": ["C12"], "families": ["history"]},
    "BlackbirdListener.__init__": {"module": P + "listener.py", "qual": "BlackbirdListener.__init__", "params": ["self", "cwd"], "modifies": ["param.self"],
                                   "props": ["C12"], "families": ["history"]},
    "BlackbirdProgram.__init__": {"module": P + "program.py", "qual": "BlackbirdProgram.__init__", "params": ["self", "name", "version"],
                                  "modifies": ["param.self"], "outputs": ["param.self"], "independent_of": ["global._VAR", "global._PARAMS"],
                                  "props": ["C12"], "families": ["history"]},
    # C19 / C08: one enumeration of the symbol set serves both regrefs and func (documented freedom); nothing else depends on set order
    "RegRefTransform.__init__": {"module": P + "listener.py", "qual": "RegRefTransform.__init__", "params": ["self", "expr"], "modifies": ["param.self"],
                                 "order_free": ["regrefs", "func"], "order_free_locals": ["regref_symbols"], "props": ["C19", "C08"],
                                 "families": ["regref_transform", "hashseed"]},
    "_get_arguments": {"module": P + "auxiliary.py", "qual": "_get_arguments", "params": ["arguments"], "modifies": ["global._PARAMS"], "deterministic": True,
                       "props": ["C19", "C12"], "families": ["hashseed"]},
    "_expression": {"module": P + "auxiliary.py", "qual": "_expression", "params": ["expr"], "modifies": ["global._PARAMS"], "deterministic": True,
                    "props": ["C19", "C12"], "families": ["hashseed"]},
}
