"""Further property tags of the contracts (merged into each contract's `props` when the sidecars are loaded).

A property about "the program a script denotes" or "each load" depends on every function on the load path, not only on the function that holds
its central mechanism: a change to exitProgram can break "variables have their declared value" (C05), a memoised helper called from
exitStatement breaks "each load is independent" (C12), a process-wide NumPy setting changed inside _expression breaks C12 and C19. The third
wave of seeded changes (DESIGN I.9) was aimed at exactly such sites; these tags are what it taught.

LOAD_PATH     functions every load goes through          -> all properties about loading
HANDLERS      everything a load may execute              -> C12 (no state survives a load), C19 (no dependence on hash order / history)
PRINT_PATH    everything a serialisation may execute     -> C19, C13
"""
LOAD_PROPS = ["C02", "C03", "C04", "C05", "C06", "C08", "C11", "C15", "C18"]
LOAD_PATH = ["parse", "load", "loads", "enterStart", "enterProgram", "exitProgram", "BlackbirdListener", "listener_program", "BlackbirdProgram",
             "getter_operations", "getter_variables", "getter_parameters"]
HANDLERS = ["_literal", "_number", "_func", "_expression", "_get_arguments", "is_ptype", "RegRefTransform", "BlackbirdListener", "enterStart", "exitDeclarename",
            "exitVersion", "exitTarget", "exitDeclaretype", "exitExpressionvar", "exitArrayvar", "exitStatement", "enterForloop", "exitForloop", "enterProgram",
            "exitProgram", "exitInclude", "parse", "load", "loads", "BlackbirdProgram", "listener_program"]
PRINT_PATH = ["_is_ptype", "_value_to_blackbird", "numpy_to_blackbird", "serialize", "_print_Mul", "_print_ImaginaryUnit", "dumps", "dump", "RegRefTransform_str"]

ALSO = {
    "exitExpressionvar": ["C15", "C03"],          # C15: a scalar named p<digits> is not a p-array; C03: the initialiser's value
    "exitStatement": ["C12", "C15", "C03", "C04"],
    "exitArrayvar": ["C03", "C12"],
    "exitForloop": ["C12", "C02"],
    "_get_arguments": ["C15", "C03"],
    "RegRefTransform": ["C07", "C13"],            # transforms are copied with instances and renumbered with includes
    "load": ["C02"], "loads": ["C07"],
    "__call__": ["C17"], "_bind_parameters": ["C17", "C19"],
    "to_DiGraph": ["C19", "C12"], "match_template": ["C19"],
}
for _n in LOAD_PATH:
    ALSO.setdefault(_n, [])
    ALSO[_n] = ALSO[_n] + LOAD_PROPS
for _n in ("parse", "load", "loads"):
    ALSO[_n] = ALSO[_n] + ["C10"]
for _n in HANDLERS:
    ALSO.setdefault(_n, [])
    ALSO[_n] = ALSO[_n] + ["C12", "C19"]
# wave 4 (C02d_1: the pairing of a transform's registers with its function is part of "the program the script denotes"): whatever a load may
# execute belongs to every property about what a load yields. Exceptions: the evaluator of the error path (c_error) and the printing side.
for _n in HANDLERS:
    if _n not in ("load", "loads", "parse"):
        ALSO[_n] = ALSO[_n] + ["C02", "C01"]
for _n in ("RegRefTransform", "_expression", "_get_arguments", "exitStatement"):
    ALSO[_n] = ALSO[_n] + ["C06", "C07", "C08", "C09"]
for _n in PRINT_PATH:
    ALSO.setdefault(_n, [])
    ALSO[_n] = ALSO[_n] + ["C19", "C13"]
