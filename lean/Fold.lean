/-
  Fold.lean -- spec-level bridge lemmas of DESIGN.md §2.4: the fold form used by the step contracts
  (`FOLD(STEP, init, xs)`) against the comprehension form in which the properties are stated.

  (a) foldl_append_map      FOLD(append ∘ f)        = map f
  (b) foldl_filter_map      FOLD(filter-append)     = filter-map
  (c) foldl_concat          FOLD(extend ∘ g)        = flatten (map g)
  (d) rowmajor_div_mod / rowmajor_decompose         row-major index arithmetic
  (e) flatten_get_rowmajor  element (r, c) of a list of rows of equal length `n` is entry `r * n + c` of the
                            flattened list
  (f) reinsert_split        `exitArrayvar`: splitting the entries of an array into values and template
                            parameters (recording each parameter's position `len(value) + len(parameters)`)
                            and re-inserting the parameters in order (`np.insert`) reconstructs the entries.
  (g) insertAll_eq_splice / hoist_two / hoist_all
                            `serialize`: `for idx, line in enumerate(b): script.insert(k + idx, line)` splices the
                            block `b` in at `k`; successive blocks (`array_insert += len(b)`) follow one another.
  Complete proofs; `#print axioms` shows at most propext, Classical.choice, Quot.sound (checked by vlib/leanrun.py).
-/
import Mathlib.Data.List.Induction

/-! ### (a)–(c) accumulate loops -/

/-- (a) `for x in l: acc.append(f(x))` builds `map f` -/
theorem foldl_append_map {α β : Type} (f : α → β) :
    ∀ (l : List α) (init : List β), l.foldl (fun acc x => acc ++ [f x]) init = init ++ l.map f := by
  intro l
  induction l with
  | nil => intro init; simp
  | cons a t ih => intro init; simp [ih]

/-- (b) `for x in l: if p(x): acc.append(f(x))` builds `[f(x) for x in l if p(x)]` -/
theorem foldl_filter_map {α β : Type} (p : α → Bool) (f : α → β) :
    ∀ (l : List α) (init : List β),
      l.foldl (fun acc x => if p x then acc ++ [f x] else acc) init = init ++ (l.filter p).map f := by
  intro l
  induction l with
  | nil => intro init; simp
  | cons a t ih =>
    intro init
    cases h : p a <;> simp [ih, h]

/-- (c) `for x in l: acc.extend(g(x))` builds the concatenation of the `g(x)` -/
theorem foldl_concat {α β : Type} (g : α → List β) :
    ∀ (l : List α) (init : List β), l.foldl (fun acc x => acc ++ g x) init = init ++ (l.map g).flatten := by
  intro l
  induction l with
  | nil => intro init; simp
  | cons a t ih => intro init; simp [ih]

/-- the three folds started from the empty accumulator -/
theorem foldl_append_map_nil {α β : Type} (f : α → β) (l : List α) :
    l.foldl (fun acc x => acc ++ [f x]) [] = l.map f := by
  rw [foldl_append_map, List.nil_append]

theorem foldl_filter_map_nil {α β : Type} (p : α → Bool) (f : α → β) (l : List α) :
    l.foldl (fun acc x => if p x then acc ++ [f x] else acc) [] = (l.filter p).map f := by
  rw [foldl_filter_map, List.nil_append]

theorem foldl_concat_nil {α β : Type} (g : α → List β) (l : List α) :
    l.foldl (fun acc x => acc ++ g x) [] = (l.map g).flatten := by
  rw [foldl_concat, List.nil_append]

/-! ### (d) row-major index arithmetic -/

/-- (d1) index `r * n + c` with `c < n` is row `r`, column `c` -/
theorem rowmajor_div_mod (n r c : ℕ) (hn : 0 < n) (hc : c < n) :
    (r * n + c) / n = r ∧ (r * n + c) % n = c := by
  constructor
  · rw [Nat.mul_comm, Nat.mul_add_div hn, Nat.div_eq_of_lt hc, Nat.add_zero]
  · rw [Nat.mul_comm, Nat.mul_add_mod, Nat.mod_eq_of_lt hc]

/-- (d2) every index below `m * n` is a valid (row, column) pair and is recovered from it -/
theorem rowmajor_decompose (m n k : ℕ) (hk : k < m * n) :
    k / n < m ∧ k % n < n ∧ (k / n) * n + k % n = k := by
  have hn : 0 < n := by
    rcases Nat.eq_zero_or_pos n with h | h
    · subst h; simp at hk
    · exact h
  refine ⟨?_, Nat.mod_lt _ hn, ?_⟩
  · rw [Nat.div_lt_iff_lt_mul hn]; exact hk
  · rw [Nat.mul_comm]; exact Nat.div_add_mod k n

/-! ### (e) row-major layout of a flattened list of rows -/

/-- (e) entry `r * n + c` of the flattened rows is entry `c` of row `r` (both sides `none` when `r` is out of range) -/
theorem flatten_get_rowmajor {α : Type} (n c : ℕ) (hc : c < n) :
    ∀ (rows : List (List α)), (∀ row ∈ rows, row.length = n) →
      ∀ (r : ℕ), rows.flatten[r * n + c]? = (rows[r]?).bind (fun row => row[c]?) := by
  intro rows
  induction rows with
  | nil => intro _ r; simp
  | cons row rest ih =>
    intro hlen r
    have hrow : row.length = n := hlen row List.mem_cons_self
    have hrest : ∀ row' ∈ rest, row'.length = n := fun row' h => hlen row' (List.mem_cons_of_mem _ h)
    cases r with
    | zero =>
      simp only [Nat.zero_mul, Nat.zero_add, List.flatten_cons, List.getElem?_cons_zero, Option.bind_some]
      exact List.getElem?_append_left (by omega)
    | succ r =>
      have hidx : (r + 1) * n + c = row.length + (r * n + c) := by rw [hrow, Nat.succ_mul]; omega
      simp only [List.flatten_cons, List.getElem?_cons_succ]
      rw [hidx, List.getElem?_append_right (Nat.le_add_right _ _), Nat.add_sub_cancel_left]
      exact ih hrest r

/-- (e') the same with in-range indices and `getElem` -/
theorem flatten_getElem_rowmajor {α : Type} (n c r : ℕ) (rows : List (List α))
    (hlen : ∀ row ∈ rows, row.length = n) (hr : r < rows.length) (hc : c < n) :
    ∃ (h₁ : r * n + c < rows.flatten.length) (h₂ : c < (rows[r]).length),
      rows.flatten[r * n + c] = (rows[r])[c] := by
  have h := flatten_get_rowmajor n c hc rows hlen r
  have h₂ : c < (rows[r]).length := by rw [hlen _ (List.getElem_mem hr)]; exact hc
  rw [List.getElem?_eq_getElem hr, Option.bind_some, List.getElem?_eq_getElem h₂] at h
  obtain ⟨h₁, heq⟩ := List.getElem?_eq_some_iff.mp h
  exact ⟨h₁, h₂, heq⟩

/-- length of the flattened rows -/
theorem flatten_length_rowmajor {α : Type} (n : ℕ) :
    ∀ (rows : List (List α)), (∀ row ∈ rows, row.length = n) → rows.flatten.length = rows.length * n := by
  intro rows
  induction rows with
  | nil => intro _; simp
  | cons row rest ih =>
    intro hlen
    have hrow : row.length = n := hlen row List.mem_cons_self
    have hrest : ∀ row' ∈ rest, row'.length = n := fun row' h => hlen row' (List.mem_cons_of_mem _ h)
    simp only [List.flatten_cons, List.length_append, List.length_cons, ih hrest, hrow, Nat.succ_mul]
    omega

/-! ### (f) template parameters inside arrays: split, then re-insert

`items` are the entries of an array in source order, tagged `true` when the entry is a template parameter.
`splitStep` is the body of the loop in `exitArrayvar`:
`parameters.append((len(value) + len(parameters), x))` for a parameter, `value.append(x)` otherwise;
`reinsert` is `for p in parameters: final_value = np.insert(final_value, p[0], p[1])`. -/

def reinsert {α : Type} (vals : List α) (ps : List (ℕ × α)) : List α :=
  ps.foldl (fun acc p => acc.insertIdx p.1 p.2) vals

def splitStep {α : Type} (st : List α × List (ℕ × α)) (it : Bool × α) : List α × List (ℕ × α) :=
  if it.1 then (st.1, st.2 ++ [(st.1.length + st.2.length, it.2)]) else (st.1 ++ [it.2], st.2)

def splitParams {α : Type} (items : List (Bool × α)) : List α × List (ℕ × α) :=
  items.foldl splitStep ([], [])

theorem splitParams_snoc {α : Type} (pre : List (Bool × α)) (it : Bool × α) :
    splitParams (pre ++ [it]) = splitStep (splitParams pre) it := by
  simp [splitParams, List.foldl_append]

theorem insertIdx_length_append {α : Type} (a : α) (ys : List α) :
    ∀ (l : List α), (l ++ ys).insertIdx l.length a = l ++ a :: ys := by
  intro l
  induction l with
  | nil => simp
  | cons x t ih => simp [List.insertIdx_succ_cons, ih]

theorem reinsert_snoc {α : Type} (vals : List α) (ps : List (ℕ × α)) (q : ℕ × α) :
    reinsert vals (ps ++ [q]) = (reinsert vals ps).insertIdx q.1 q.2 := by
  simp [reinsert, List.foldl_append]

/-- every entry is accounted for exactly once -/
theorem splitParams_length {α : Type} (items : List (Bool × α)) :
    (splitParams items).1.length + (splitParams items).2.length = items.length := by
  induction items using List.reverseRecOn with
  | nil => rfl
  | append_singleton pre it ih =>
    rw [splitParams_snoc]
    obtain ⟨b, x⟩ := it
    cases b <;> simp [splitStep] <;> omega

/-- the invariant of the re-insertion: it holds with any tail `ys` still to come after the kept values -/
theorem reinsert_split_append {α : Type} (items : List (Bool × α)) :
    ∀ ys : List α, reinsert ((splitParams items).1 ++ ys) (splitParams items).2 = items.map Prod.snd ++ ys := by
  induction items using List.reverseRecOn with
  | nil => intro ys; rfl
  | append_singleton pre it ih =>
    intro ys
    have hlen := splitParams_length pre
    rw [splitParams_snoc]
    obtain ⟨b, x⟩ := it
    cases b with
    | false =>
      simp only [splitStep, Bool.false_eq_true, if_false, List.map_append, List.map_cons, List.map_nil,
        List.append_assoc]
      exact ih ([x] ++ ys)
    | true =>
      simp only [splitStep, if_true, List.map_append, List.map_cons, List.map_nil, List.append_assoc]
      rw [reinsert_snoc, ih ys, hlen]
      have h := insertIdx_length_append x ys (pre.map Prod.snd)
      rw [List.length_map] at h
      simpa using h

/-- (f) re-inserting the recorded parameters, in order, at their recorded positions into the kept values
    reconstructs the full list of entries -/
theorem reinsert_split {α : Type} (items : List (Bool × α)) :
    reinsert (splitParams items).1 (splitParams items).2 = items.map Prod.snd := by
  simpa using reinsert_split_append items []

/-- the kept values are the non-parameter entries, in order -/
theorem splitParams_values {α : Type} (items : List (Bool × α)) :
    (splitParams items).1 = (items.filter (fun it => !it.1)).map Prod.snd := by
  induction items using List.reverseRecOn with
  | nil => rfl
  | append_singleton pre it ih =>
    rw [splitParams_snoc]
    obtain ⟨b, x⟩ := it
    cases b <;> simp [splitStep, ih, List.filter_append]

/-- the recorded parameters are the parameter entries, in order -/
theorem splitParams_params {α : Type} (items : List (Bool × α)) :
    (splitParams items).2.map Prod.snd = (items.filter (fun it => it.1)).map Prod.snd := by
  induction items using List.reverseRecOn with
  | nil => rfl
  | append_singleton pre it ih =>
    rw [splitParams_snoc]
    obtain ⟨b, x⟩ := it
    cases b <;> simp [splitStep, ih, List.filter_append]

/-- each recorded position is the position of that parameter in the full list of entries -/
theorem splitParams_positions {α : Type} (items : List (Bool × α)) :
    ∀ q ∈ (splitParams items).2, items[q.1]? = some (true, q.2) := by
  induction items using List.reverseRecOn with
  | nil => intro q hq; simp [splitParams] at hq
  | append_singleton pre it ih =>
    have hlen := splitParams_length pre
    rw [splitParams_snoc]
    obtain ⟨b, x⟩ := it
    have hold : ∀ q ∈ (splitParams pre).2, (pre ++ [(b, x)])[q.1]? = some (true, q.2) := by
      intro q hq
      have h := ih q hq
      have hlt : q.1 < pre.length := (List.getElem?_eq_some_iff.mp h).1
      rw [List.getElem?_append_left hlt]; exact h
    cases b with
    | false => simpa [splitStep] using hold
    | true =>
      intro q hq
      simp only [splitStep, if_true, List.mem_append, List.mem_singleton] at hq
      rcases hq with hq | hq
      · exact hold q hq
      · subst hq
        simp only [hlen]
        rw [List.getElem?_append_right (Nat.le_refl _)]
        simp

/-- (f) for a list of children `cs` classified by `isParam` and evaluated by `f` (`_expression`) -/
theorem reinsert_split_map {α β : Type} (isParam : β → Bool) (f : β → α) (cs : List β) :
    let sp := splitParams (cs.map (fun c => (isParam c, f c)))
    reinsert sp.1 sp.2 = cs.map f := by
  intro sp
  have h := reinsert_split (cs.map (fun c => (isParam c, f c)))
  simpa [List.map_map, Function.comp_def] using h

/-! ### (g) hoisting array declarations in `serialize`

`insertAll l k b` is, literally, `for idx, line in enumerate(b): script.insert(k + idx, line)` on `script = l`
(`b.zipIdx` is `enumerate(b)` with the pairs as `(line, idx)`); `serialize` then does `array_insert += len(b)`.
`k ≤ l.length` always holds there (`array_insert` counts header lines already in `script`); for `k > l.length`
Python's `insert` would append whereas `List.insertIdx` leaves the list unchanged, so the hypothesis is needed. -/

def insertAll {α : Type} (l : List α) (k : ℕ) (b : List α) : List α :=
  (b.zipIdx).foldl (fun acc p => acc.insertIdx (k + p.2) p.1) l

/-- the invariant of the insertion loop: after `s` lines the next line goes right behind `pre`, `pre.length = k + s` -/
theorem insertAll_aux {α : Type} (k : ℕ) :
    ∀ (b : List α) (s : ℕ) (pre post : List α), pre.length = k + s →
      (b.zipIdx s).foldl (fun acc p => acc.insertIdx (k + p.2) p.1) (pre ++ post) = pre ++ b ++ post := by
  intro b
  induction b with
  | nil => intro s pre post _; simp
  | cons a t ih =>
    intro s pre post hlen
    simp only [List.zipIdx_cons, List.foldl_cons]
    rw [← hlen, insertIdx_length_append a post pre]
    have h := ih (s + 1) (pre ++ [a]) post (by simp [hlen]; omega)
    simpa [List.append_assoc] using h

/-- (g) inserting the lines of `b` one by one at `k, k+1, …` splices the block `b` in at position `k` -/
theorem insertAll_eq_splice {α : Type} (l : List α) (k : ℕ) (b : List α) (hk : k ≤ l.length) :
    insertAll l k b = l.take k ++ b ++ l.drop k := by
  have h := insertAll_aux k b 0 (l.take k) (l.drop k) (by simp [List.length_take, Nat.min_eq_left hk])
  rw [List.take_append_drop] at h
  exact h

/-- the same with the split of the script given: header `pre`, rest `post` -/
theorem insertAll_append {α : Type} (pre post b : List α) :
    insertAll (pre ++ post) pre.length b = pre ++ b ++ post :=
  insertAll_aux pre.length b 0 pre post rfl

theorem insertAll_length {α : Type} (l : List α) (k : ℕ) (b : List α) (hk : k ≤ l.length) :
    (insertAll l k b).length = l.length + b.length := by
  rw [insertAll_eq_splice l k b hk]
  simp only [List.length_append, List.length_take, List.length_drop, Nat.min_eq_left hk]
  omega

/-- (g) two arrays in a row: block `b1` at `k`, then `b2` at `k + len(b1)`; the declarations end up behind the
    header in order of first use -/
theorem hoist_two {α : Type} (l : List α) (k : ℕ) (b1 b2 : List α) (hk : k ≤ l.length) :
    insertAll (insertAll l k b1) (k + b1.length) b2 = l.take k ++ b1 ++ b2 ++ l.drop k := by
  rw [insertAll_eq_splice l k b1 hk]
  have h := insertAll_append (l.take k ++ b1) (l.drop k) b2
  rw [List.length_append, List.length_take, Nat.min_eq_left hk] at h
  exact h

/-- (g) any number of arrays: hoisting the blocks `bs` one after the other, each behind the previous one
    (`array_insert += len(bb_array)`), puts their concatenation at `k` -/
theorem hoist_all {α : Type} (k : ℕ) :
    ∀ (bs : List (List α)) (l : List α), k ≤ l.length →
      (bs.foldl (fun st b => (insertAll st.1 st.2 b, st.2 + b.length)) (l, k)).1
        = l.take k ++ bs.flatten ++ l.drop k := by
  intro bs
  induction bs using List.reverseRecOn with
  | nil => intro l _; simp
  | append_singleton pre b ih =>
    intro l hk
    have hpos : ∀ (bs : List (List α)) (st : List α × ℕ),
        (bs.foldl (fun st b => (insertAll st.1 st.2 b, st.2 + b.length)) st).2 = st.2 + bs.flatten.length := by
      intro bs
      induction bs with
      | nil => intro st; simp
      | cons c cs ihc => intro st; simp [ihc, Nat.add_assoc]
    simp only [List.foldl_append, List.foldl_cons, List.foldl_nil, List.flatten_append, List.flatten_cons,
      List.flatten_nil, List.append_nil]
    rw [ih l hk, hpos pre (l, k)]
    have h := insertAll_append (l.take k ++ pre.flatten) (l.drop k) b
    rw [List.length_append, List.length_take, Nat.min_eq_left hk] at h
    simpa [List.append_assoc] using h
