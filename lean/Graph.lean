/-
  Graph.lean -- lemmas over the edge-set characterisation in `to_DiGraph`'s contract (DESIGN.md §3 C16, C17; Appendix A).

  `touch i q` abstracts "operation `i` touches wire `q`" (`q ∈ set(modes_i) ∪ regrefs_i`).
  `Consec` / `E` are, verbatim, the contract's edge set; another engine compares these two definitions
  textually with the contract, so do not reformat them.

  G1 acyclic, G2 reach_iff_chain, G3 topo_keeps_wire_order, G4 reorder_iso (C17),
  G6 edge_lt_of_finite / reach_lt_of_finite (finite program of `n` operations).
  Complete proofs; `#print axioms` shows at most propext, Classical.choice, Quot.sound (checked by vlib/leanrun.py).
-/
import Mathlib.Logic.Relation
import Mathlib.Order.Basic
import Mathlib.Data.Nat.Find
import Mathlib.Logic.Function.Basic
open Relation

def Consec (touch : ℕ → ℕ → Prop) (q i j : ℕ) : Prop :=
  i < j ∧ touch i q ∧ touch j q ∧ ∀ k, i < k → k < j → ¬ touch k q
def E (touch : ℕ → ℕ → Prop) (i j : ℕ) : Prop := ∃ q, Consec touch q i j
def Share (touch : ℕ → ℕ → Prop) (i j : ℕ) : Prop := i < j ∧ ∃ q, touch i q ∧ touch j q

variable (touch : ℕ → ℕ → Prop)

theorem E_forward {i j : ℕ} (h : E touch i j) : i < j := by
  obtain ⟨q, hlt, _⟩ := h; exact hlt
theorem E_sub_Share {i j : ℕ} (h : E touch i j) : Share touch i j := by
  obtain ⟨q, hlt, hi, hj, _⟩ := h; exact ⟨hlt, q, hi, hj⟩
theorem reach_forward {i j : ℕ} (h : TransGen (E touch) i j) : i < j := by
  induction h with
  | single h1 => exact E_forward touch h1
  | tail _ h2 ih => exact lt_trans ih (E_forward touch h2)

/-- G1: acyclic, every edge (hence every path) points forward -/
theorem acyclic (i : ℕ) : ¬ TransGen (E touch) i i :=
  fun h => lt_irrefl i (reach_forward touch h)

theorem share_reach : ∀ (d i j : ℕ), j - i ≤ d → Share touch i j → TransGen (E touch) i j := by
  classical
  intro d
  induction d with
  | zero => intro i j hd hs; obtain ⟨hlt, _⟩ := hs; omega
  | succ d ih =>
    intro i j hd hs
    obtain ⟨hlt, q, hi, hj⟩ := hs
    have hex : ∃ k, i < k ∧ touch k q := ⟨j, hlt, hj⟩
    let k := Nat.find hex
    have hk : i < k ∧ touch k q := Nat.find_spec hex
    have hkmin : ∀ m, m < k → ¬ (i < m ∧ touch m q) := fun m hm => Nat.find_min hex hm
    have hkj : k ≤ j := Nat.find_min' hex ⟨hlt, hj⟩
    have hedge : E touch i k := by
      refine ⟨q, hk.1, hi, hk.2, ?_⟩
      intro m him hmk hmq; exact hkmin m hmk ⟨him, hmq⟩
    rcases Nat.lt_or_ge k j with hlt2 | hge
    · have hrec : TransGen (E touch) k j := by
        apply ih k j
        · omega
        · exact ⟨hlt2, q, hk.2, hj⟩
      exact TransGen.head hedge hrec
    · have : k = j := le_antisymm hkj hge
      rw [this] at hedge; exact TransGen.single hedge

/-- G2: reachable ⇔ chain of operations successively sharing a wire -/
theorem reach_iff_chain (i j : ℕ) : TransGen (E touch) i j ↔ TransGen (Share touch) i j := by
  constructor
  · intro h
    induction h with
    | single h1 => exact TransGen.single (E_sub_Share touch h1)
    | tail _ h2 ih => exact TransGen.tail ih (E_sub_Share touch h2)
  · intro h
    induction h with
    | single h1 => exact share_reach touch _ _ _ (le_refl _) h1
    | tail _ h2 ih => exact TransGen.trans ih (share_reach touch _ _ _ (le_refl _) h2)

/-- G3: every topological order keeps program order on every wire -/
theorem topo_keeps_wire_order (pos : ℕ → ℕ) (htopo : ∀ a b, E touch a b → pos a < pos b)
    (i j q : ℕ) (hij : i < j) (hi : touch i q) (hj : touch j q) : pos i < pos j := by
  have hr : TransGen (E touch) i j := share_reach touch _ _ _ (le_refl _) ⟨hij, q, hi, hj⟩
  clear hij hi hj
  induction hr with
  | single h1 => exact htopo _ _ h1
  | tail _ h2 ih => exact lt_trans ih (htopo _ _ h2)

/-- G4 (C17): a reordering that keeps the order of operations sharing a wire is a graph isomorphism -/
theorem reorder_iso (touch touch' : ℕ → ℕ → Prop) (π : ℕ → ℕ) (hbij : Function.Bijective π)
    (hsame : ∀ i q, touch' (π i) q ↔ touch i q)
    (hord : ∀ i j q, i < j → touch i q → touch j q → π i < π j)
    (i j : ℕ) : E touch i j ↔ E touch' (π i) (π j) := by
  have hsurj := hbij.2
  have hrefl : ∀ a b q, touch a q → touch b q → π a < π b → a < b := by
    intro a b q ha hb hlt
    rcases Nat.lt_trichotomy a b with h | h | h
    · exact h
    · subst h; exact absurd hlt (Nat.lt_irrefl _)
    · exact absurd (hord b a q h hb ha) (Nat.lt_asymm hlt)
  constructor
  · rintro ⟨q, hlt, hi, hj, hbetween⟩
    refine ⟨q, hord i j q hlt hi hj, (hsame i q).mpr hi, (hsame j q).mpr hj, ?_⟩
    intro m hm1 hm2 hmq
    obtain ⟨k, rfl⟩ := hsurj m
    have hk : touch k q := (hsame k q).mp hmq
    exact hbetween k (hrefl i k q hi hk hm1) (hrefl k j q hk hj hm2) hk
  · rintro ⟨q, hlt, hi, hj, hbetween⟩
    have hi' : touch i q := (hsame i q).mp hi
    have hj' : touch j q := (hsame j q).mp hj
    refine ⟨q, hrefl i j q hi' hj' hlt, hi', hj', ?_⟩
    intro k hk1 hk2 hkq
    exact hbetween (π k) (hord i k q hk1 hi' hkq) (hord k j q hk2 hkq hj') ((hsame k q).mpr hkq)

/-- G6: in a finite program of `n` operations (`touch i q → i < n`) every edge joins two operations `< n` -/
theorem edge_lt_of_finite (n : ℕ) (hfin : ∀ i q, touch i q → i < n) {i j : ℕ} (h : E touch i j) :
    i < n ∧ j < n := by
  obtain ⟨q, _, hi, hj, _⟩ := h
  exact ⟨hfin i q hi, hfin j q hj⟩

/-- G6': the same for paths: reachability never leaves the operations of the program -/
theorem reach_lt_of_finite (n : ℕ) (hfin : ∀ i q, touch i q → i < n) {i j : ℕ}
    (h : TransGen (E touch) i j) : i < n ∧ j < n := by
  induction h with
  | single h1 => exact edge_lt_of_finite touch n hfin h1
  | tail _ h2 ih => exact ⟨ih.1, (edge_lt_of_finite touch n hfin h2).2⟩
