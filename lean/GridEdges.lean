/-
  GridEdges.lean -- the algorithm of `to_DiGraph` (blackbird/utils.py) computes exactly the contract's edge set `E`
  (DESIGN.md §3 C16; companion of Graph.lean).

  `Consec` / `E` are restated here VERBATIM from Graph.lean: the files of this directory are checked one by one with plain
  `lean File.lean` (vlib/leanrun.py copies each file alone into a work directory, no LEAN_PATH), so a sibling import is
  not available. Keep the two definitions textually identical to Graph.lean.

  Model (operations `0 .. n-1`; `touch i q` = "operation `i` touches wire `q`", a `Prop` with a `Decidable` instance
  `[∀ i q, Decidable (touch i q)]`, so that `Consec touch` / `E touch` of Graph.lean apply to it unchanged):
    * `wire touch n q`   = `(List.range n).filter (touch · q)`: the list `grid[q]` built by the first loop
                           (`grid[q].append([idx, cmd])` for `idx` in program order), indices only;
    * `consecPairs l`    = `l.zip l.tail`: the pairs `(cmds[i-1][0], cmds[i][0])`, `i = 1 .. len(cmds)-1`, for which the
                           second loop calls `G.add_edge`;
    * nodes              = members of some `wire q` (`G.add_node` for `cmds[0]` and for every `cmds[i]`).

  GE1 mem_consecPairs_iff_of_pairwise   adjacency in a strictly increasing list = "no member strictly between"
  GE2 mem_wire_iff                      `i ∈ wire q ↔ i < n ∧ touch i q`
  GE3 mem_consecPairs_wire_iff          `(i, j) ∈ consecPairs (wire q) ↔ Consec touch q i j ∧ j < n`   (no finiteness
                                        hypothesis; operations `≥ n` are never looked at by the algorithm)
  GE4 edges_eq_E_bounded / edges_eq_E   the edge set is `E touch` (restricted to `j < n`; all of `E touch` for a finite
                                        program `touch i q → i < n`)
  GE5 nodes_iff / wire_nodup / wire_sorted   every operation touching a wire is a node; once per wire, in program order
  Complete proofs; `#print axioms` shows at most propext, Classical.choice, Quot.sound (checked by vlib/leanrun.py).
-/
import Mathlib.Data.Nat.Notation

def Consec (touch : ℕ → ℕ → Prop) (q i j : ℕ) : Prop :=
  i < j ∧ touch i q ∧ touch j q ∧ ∀ k, i < k → k < j → ¬ touch k q
def E (touch : ℕ → ℕ → Prop) (i j : ℕ) : Prop := ∃ q, Consec touch q i j

/-- `grid[q]`: the operations touching wire `q`, in program order -/
def wire (touch : ℕ → ℕ → Prop) [∀ i q, Decidable (touch i q)] (n q : ℕ) : List ℕ :=
  (List.range n).filter (fun i => decide (touch i q))

/-- the pairs of adjacent elements `(l[i-1], l[i])`, `i = 1 .. len(l)-1` -/
def consecPairs {α : Type} (l : List α) : List (α × α) := l.zip l.tail

theorem consecPairs_cons_cons {α : Type} (x y : α) (t : List α) :
    consecPairs (x :: y :: t) = (x, y) :: consecPairs (y :: t) := rfl

/-- GE1: in a strictly increasing list two members are adjacent iff no member lies strictly between them -/
theorem mem_consecPairs_iff_of_pairwise :
    ∀ (l : List ℕ), l.Pairwise (· < ·) → ∀ a b : ℕ,
      ((a, b) ∈ consecPairs l ↔ a ∈ l ∧ b ∈ l ∧ a < b ∧ ∀ c ∈ l, a < c → c < b → False) := by
  intro l
  induction l with
  | nil => intro _ a b; simp [consecPairs]
  | cons x t ih =>
    cases t with
    | nil =>
      intro _ a b
      simp only [consecPairs, List.tail_cons, List.zip_nil_right, List.not_mem_nil, List.mem_singleton, false_iff]
      rintro ⟨rfl, rfl, hlt, _⟩
      exact Nat.lt_irrefl _ hlt
    | cons y t =>
      intro hp a b
      have hxall : ∀ c ∈ y :: t, x < c := (List.pairwise_cons.mp hp).1
      have hp' : (y :: t).Pairwise (· < ·) := (List.pairwise_cons.mp hp).2
      have hyall : ∀ c ∈ t, y < c := (List.pairwise_cons.mp hp').1
      have ih' := ih hp' a b
      rw [consecPairs_cons_cons, List.mem_cons, ih']
      constructor
      · rintro (heq | ⟨ha, hb, hlt, hno⟩)
        · obtain ⟨rfl, rfl⟩ := Prod.mk.inj heq
          refine ⟨List.mem_cons_self, List.mem_cons_of_mem _ List.mem_cons_self,
            hxall _ List.mem_cons_self, ?_⟩
          intro c hc hac hcb
          rcases List.mem_cons.mp hc with rfl | hc
          · exact Nat.lt_irrefl _ hac
          · rcases List.mem_cons.mp hc with rfl | hc
            · exact Nat.lt_irrefl _ hcb
            · exact Nat.lt_asymm hcb (hyall c hc)
        · refine ⟨List.mem_cons_of_mem _ ha, List.mem_cons_of_mem _ hb, hlt, ?_⟩
          intro c hc hac hcb
          rcases List.mem_cons.mp hc with rfl | hc
          · exact Nat.lt_asymm hac (hxall a ha)
          · exact hno c hc hac hcb
      · rintro ⟨ha, hb, hlt, hno⟩
        have hb' : b ∈ y :: t := by
          rcases List.mem_cons.mp hb with rfl | hb
          · rcases List.mem_cons.mp ha with rfl | ha
            · exact absurd hlt (Nat.lt_irrefl _)
            · exact absurd hlt (Nat.lt_asymm (hxall a ha))
          · exact hb
        rcases List.mem_cons.mp ha with rfl | ha
        · rcases List.mem_cons.mp hb' with rfl | hbt
          · exact Or.inl rfl
          · exact (hno y (List.mem_cons_of_mem _ List.mem_cons_self)
              (hxall y List.mem_cons_self) (hyall b hbt)).elim
        · exact Or.inr ⟨ha, hb', hlt, fun c hc => hno c (List.mem_cons_of_mem _ hc)⟩

section
variable (touch : ℕ → ℕ → Prop) [∀ i q, Decidable (touch i q)]

/-- GE2: `grid[q]` holds exactly the operations `< n` touching `q` -/
theorem mem_wire_iff (n q i : ℕ) : i ∈ wire touch n q ↔ i < n ∧ touch i q := by
  simp [wire, List.mem_filter, List.mem_range]

/-- GE5a: `grid[q]` is in program order (strictly increasing), hence without repetition -/
theorem wire_sorted (n q : ℕ) : (wire touch n q).Pairwise (· < ·) :=
  List.Pairwise.filter _ List.pairwise_lt_range

theorem wire_nodup (n q : ℕ) : (wire touch n q).Nodup :=
  (wire_sorted touch n q).imp (fun h => Nat.ne_of_lt h)

/-- GE3: the edges added for wire `q` are the pairs of operations `< n` consecutive on `q`, spelled out -/
theorem mem_consecPairs_wire_iff' (n q i j : ℕ) :
    (i, j) ∈ consecPairs (wire touch n q) ↔
      (i < j ∧ j < n ∧ touch i q ∧ touch j q ∧ ∀ k, i < k → k < j → ¬ touch k q) := by
  rw [mem_consecPairs_iff_of_pairwise _ (wire_sorted touch n q)]
  simp only [mem_wire_iff]
  constructor
  · rintro ⟨⟨_, hi⟩, ⟨hjn, hj⟩, hlt, hno⟩
    exact ⟨hlt, hjn, hi, hj, fun k hik hkj hk => hno k ⟨Nat.lt_trans hkj hjn, hk⟩ hik hkj⟩
  · rintro ⟨hlt, hjn, hi, hj, hno⟩
    exact ⟨⟨Nat.lt_trans hlt hjn, hi⟩, ⟨hjn, hj⟩, hlt, fun k hk hik hkj => hno k hik hkj hk.2⟩

/-- GE3: the same against the contract's `Consec` -/
theorem mem_consecPairs_wire_iff (n q i j : ℕ) :
    (i, j) ∈ consecPairs (wire touch n q) ↔ (Consec touch q i j ∧ j < n) := by
  rw [mem_consecPairs_wire_iff']
  unfold Consec
  constructor
  · rintro ⟨hlt, hjn, hi, hj, hno⟩; exact ⟨⟨hlt, hi, hj, hno⟩, hjn⟩
  · rintro ⟨⟨hlt, hi, hj, hno⟩, hjn⟩; exact ⟨hlt, hjn, hi, hj, hno⟩

/-- every edge joins two operations of the program -/
theorem lt_of_mem_consecPairs_wire {n q i j : ℕ} (h : (i, j) ∈ consecPairs (wire touch n q)) :
    i < j ∧ i < n ∧ j < n := by
  obtain ⟨hlt, hjn, _⟩ := (mem_consecPairs_wire_iff' touch n q i j).mp h
  exact ⟨hlt, Nat.lt_trans hlt hjn, hjn⟩

/-- GE4: the edge set of the graph (union over the wires), no finiteness hypothesis -/
theorem edges_eq_E_bounded (n i j : ℕ) :
    (∃ q, (i, j) ∈ consecPairs (wire touch n q)) ↔ (E touch i j ∧ j < n) := by
  unfold E
  constructor
  · rintro ⟨q, h⟩
    obtain ⟨hc, hjn⟩ := (mem_consecPairs_wire_iff touch n q i j).mp h
    exact ⟨⟨q, hc⟩, hjn⟩
  · rintro ⟨⟨q, hc⟩, hjn⟩
    exact ⟨q, (mem_consecPairs_wire_iff touch n q i j).mpr ⟨hc, hjn⟩⟩

/-- GE4: for a program of `n` operations the graph's edge set is exactly the contract's `E` -/
theorem edges_eq_E (n : ℕ) (hfin : ∀ i q, touch i q → i < n) (i j : ℕ) :
    (∃ q, (i, j) ∈ consecPairs (wire touch n q)) ↔ E touch i j := by
  rw [edges_eq_E_bounded]
  constructor
  · exact fun h => h.1
  · intro h
    refine ⟨h, ?_⟩
    obtain ⟨q, _, _, hj, _⟩ := h
    exact hfin j q hj

/-- GE5: the nodes are the operations touching at least one wire -/
theorem nodes_iff (n i : ℕ) : (∃ q, i ∈ wire touch n q) ↔ (i < n ∧ ∃ q, touch i q) := by
  simp only [mem_wire_iff]
  constructor
  · rintro ⟨q, hin, hq⟩; exact ⟨hin, q, hq⟩
  · rintro ⟨hin, q, hq⟩; exact ⟨q, hin, hq⟩

theorem nodes_iff_of_finite (n : ℕ) (hfin : ∀ i q, touch i q → i < n) (i : ℕ) :
    (∃ q, i ∈ wire touch n q) ↔ ∃ q, touch i q := by
  rw [nodes_iff]
  constructor
  · exact fun h => h.2
  · rintro ⟨q, hq⟩; exact ⟨hfin i q hq, q, hq⟩

/-- the endpoints of every edge are nodes (`G.add_edge` never creates a node that `G.add_node` did not) -/
theorem endpoints_mem_wire {n q i j : ℕ} (h : (i, j) ∈ consecPairs (wire touch n q)) :
    i ∈ wire touch n q ∧ j ∈ wire touch n q := by
  have h' := (mem_consecPairs_iff_of_pairwise _ (wire_sorted touch n q) i j).mp h
  exact ⟨h'.1, h'.2.1⟩

end
