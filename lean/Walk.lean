/-
  Walk.lean -- the fold-congruence ("walk") lemma of DESIGN.md §2.4 / §2.6 (Appendix A).

  If on every state satisfying `inv` the real step equals the spec step and the spec step preserves `inv`,
  then folding the real handlers over any event list equals folding the spec steps.

  * `walk_lemma`            -- Appendix A, unchanged.
  * `fold_congr_mem`        -- the step hypothesis is only needed for events that are members of the list
                               (the verification conditions are proved for "an arbitrary element of xs").
  * `walk_lemma_except`     -- states with an exceptional outcome (`Except Err S`): once an error is reached
                               every further event keeps it; `real`/`spec` are only applied to ok states.
  * `walk_lemma_except_mem` -- both refinements together.
  * `foldl_liftE_eq_foldlM` -- the absorbing-error fold is `List.foldlM` in the `Except` monad, so the two
                               lemmas above are statements about `l.foldlM real s = l.foldlM spec s`.
  Complete proofs; `#print axioms` shows at most propext, Classical.choice, Quot.sound (checked by vlib/leanrun.py).
  Needs Lean core only (no Mathlib import), so it checks in well under a second.
-/

/-- Walk lemma (§2.6): handler-wise agreement under an invariant lifts to the whole event sequence -/
theorem walk_lemma {S Ev : Type} (real spec : S → Ev → S) (inv : S → Prop)
    (hstep : ∀ s e, inv s → real s e = spec s e ∧ inv (spec s e)) :
    ∀ (l : List Ev) (s : S), inv s → l.foldl real s = l.foldl spec s ∧ inv (l.foldl spec s) := by
  intro l
  induction l with
  | nil => intro s hs; exact ⟨rfl, hs⟩
  | cons e t ih =>
    intro s hs
    obtain ⟨heq, hinv⟩ := hstep s e hs
    simp only [List.foldl_cons]
    rw [heq]
    exact ih (spec s e) hinv

/-- Fold congruence where the step hypothesis is only required for the elements of the list -/
theorem fold_congr_mem {S Ev : Type} (real spec : S → Ev → S) (inv : S → Prop) :
    ∀ (l : List Ev), (∀ e ∈ l, ∀ s, inv s → real s e = spec s e ∧ inv (spec s e)) →
      ∀ (s : S), inv s → l.foldl real s = l.foldl spec s ∧ inv (l.foldl spec s) := by
  intro l
  induction l with
  | nil => intro _ s hs; exact ⟨rfl, hs⟩
  | cons e t ih =>
    intro hstep s hs
    obtain ⟨heq, hinv⟩ := hstep e List.mem_cons_self s hs
    simp only [List.foldl_cons]
    rw [heq]
    exact ih (fun e' he' => hstep e' (List.mem_cons_of_mem _ he')) (spec s e) hinv

/-- A step on ok states lifted to outcomes: an error outcome absorbs every further event -/
def liftE {S Ev Err : Type} (step : S → Ev → Except Err S) : Except Err S → Ev → Except Err S
  | .ok s, e => step s e
  | .error x, _ => .error x

/-- An invariant on ok states lifted to outcomes: error outcomes carry no obligation -/
def invE {S Err : Type} (inv : S → Prop) : Except Err S → Prop
  | .ok s => inv s
  | .error _ => True

theorem invE_ok_iff {S Err : Type} (inv : S → Prop) (r : Except Err S) :
    invE inv r ↔ ∀ s', r = .ok s' → inv s' := by
  cases r with
  | ok s => exact ⟨fun h s' hs' => (by cases hs'; exact h), fun h => h s rfl⟩
  | error x => exact ⟨fun _ s' hs' => (nomatch hs'), fun _ => trivial⟩

/-- once an error, always that error -/
theorem foldl_liftE_error {S Ev Err : Type} (step : S → Ev → Except Err S) (x : Err) :
    ∀ (l : List Ev), l.foldl (liftE step) (.error x) = .error x := by
  intro l
  induction l with
  | nil => rfl
  | cons e t ih => simpa only [List.foldl_cons, liftE] using ih

/-- the absorbing-error fold is the monadic fold of the `Except` monad -/
theorem foldl_liftE_eq_foldlM {S Ev Err : Type} (step : S → Ev → Except Err S) :
    ∀ (l : List Ev) (s : S), l.foldl (liftE step) (.ok s) = l.foldlM step s := by
  intro l
  induction l with
  | nil => intro s; rfl
  | cons e t ih =>
    intro s
    simp only [List.foldl_cons, List.foldlM_cons, liftE]
    cases h : step s e with
    | ok s' => exact ih s'
    | error x => exact foldl_liftE_error step x t

/-- Walk lemma with exceptional outcomes, step hypothesis only for members of the list:
    if on every ok state satisfying `inv` the real step equals the spec step (as `Except` values, i.e. the same
    exception or the same next state) and ok results satisfy `inv`, then the two folds agree. -/
theorem walk_lemma_except_mem {S Ev Err : Type} (real spec : S → Ev → Except Err S) (inv : S → Prop)
    (l : List Ev)
    (hstep : ∀ e ∈ l, ∀ s, inv s → real s e = spec s e ∧ ∀ s', spec s e = .ok s' → inv s')
    (s : S) (hs : inv s) :
    l.foldl (liftE real) (.ok s) = l.foldl (liftE spec) (.ok s) ∧
      ∀ s', l.foldl (liftE spec) (.ok s) = .ok s' → inv s' := by
  have h := fold_congr_mem (liftE real) (liftE spec) (invE inv) l
    (by
      intro e he r hr
      cases r with
      | ok s0 =>
        obtain ⟨heq, hinv⟩ := hstep e he s0 hr
        exact ⟨heq, (invE_ok_iff inv _).mpr hinv⟩
      | error x => exact ⟨rfl, trivial⟩)
    (.ok s) hs
  exact ⟨h.1, (invE_ok_iff inv _).mp h.2⟩

/-- Walk lemma with exceptional outcomes (§2.6 "with states including the exceptional outcome") -/
theorem walk_lemma_except {S Ev Err : Type} (real spec : S → Ev → Except Err S) (inv : S → Prop)
    (hstep : ∀ s e, inv s → real s e = spec s e ∧ ∀ s', spec s e = .ok s' → inv s')
    (l : List Ev) (s : S) (hs : inv s) :
    l.foldl (liftE real) (.ok s) = l.foldl (liftE spec) (.ok s) ∧
      ∀ s', l.foldl (liftE spec) (.ok s) = .ok s' → inv s' :=
  walk_lemma_except_mem real spec inv l (fun e _ s0 h0 => hstep s0 e h0) s hs

/-- the same statement in monadic form -/
theorem walk_lemma_foldlM {S Ev Err : Type} (real spec : S → Ev → Except Err S) (inv : S → Prop)
    (l : List Ev)
    (hstep : ∀ e ∈ l, ∀ s, inv s → real s e = spec s e ∧ ∀ s', spec s e = .ok s' → inv s')
    (s : S) (hs : inv s) :
    l.foldlM real s = l.foldlM spec s ∧ ∀ s', l.foldlM spec s = .ok s' → inv s' := by
  have h := walk_lemma_except_mem real spec inv l hstep s hs
  rw [foldl_liftE_eq_foldlM, foldl_liftE_eq_foldlM] at h
  exact h
