"""Run-wide context of PyVC: repository sources, sidecar contracts, call dispatch (contracts / spec primitives / library),
solver access for feasibility pruning, effect log."""
import ast
import os
import re

import z3

from . import lib
from . import terms as T
from .sym import Exec, St, Outcome, Unsupported, MUTATORS, fresh, fresh_int
from .terms import (V, PyC, Tup, ClassRef, Closure, ExcVal, asV, tobool, app, pred, code, NONE, TRUE, FALSE, NIL_LIST, NIL_DICT, NIL_SET, IntV, StrV,
                    EXC_CODE, EXC_CLASSES, truthy)

MODULE_ALIASES = {"np", "sym", "os", "copy", "warnings", "antlr4", "re", "nx", "isomorphism", "sys", "blackbirdParser"}
BUILTIN_TYPES = {"int", "float", "complex", "str", "bool", "list", "tuple", "dict", "set", "object"}
# properties of BlackbirdProgram whose getters return the field (each getter is itself under contract: program.py sidecar)
PROPERTY_FIELDS = {"name": "_name", "version": "_version", "modes": "_modes", "target": "_target", "programtype": "_type", "operations": "_operations",
                   "variables": "_var", "program": "_program"}


OBJECT_METHODS = {"removeErrorListeners", "addErrorListener", "start", "walk", "add_node", "add_edge", "write"}
SPEC_PREDS = {"IS_CTX": "is_ctx", "IS_COMPLEXKIND": "is_complexkind", "IS_INTKIND": "is_intkind", "IS_NEGATIVE": "is_negative", "IS_DICT": "is_dict"}


class Contract:
    def __init__(self, name, d, sidecar):
        self.name = name
        self.qual = d.get("qual", name)
        self.params = d["params"]
        self.reads = d.get("reads", [])
        self.modifies = d.get("modifies", [])
        self.raises = d.get("raises", "any")          # list of class names or "any"
        self.props = d.get("props", [])
        self.spec = d.get("spec")
        self.mode = d.get("mode", "equiv")            # equiv | post | trusted
        self.rename = d.get("rename", {})             # spec local name -> real local name (loop-carried correspondence)
        self.d = d
        self.sidecar = sidecar
        self.is_method = bool(self.params) and self.params[0] == "self"
        self.ctor = d.get("ctor", False)


class Sidecar:
    def __init__(self, path):
        self.path = path
        src = open(path).read()
        self.tree = ast.parse(src)
        self.module = None
        self.globals = []
        self.contracts = {}
        self.specs = {}
        self.consts = {}
        self.global_types = {}
        for n in self.tree.body:
            if isinstance(n, ast.Assign) and isinstance(n.targets[0], ast.Name):
                nm = n.targets[0].id
                if nm == "MODULE":
                    self.module = ast.literal_eval(n.value)
                elif nm == "GLOBALS":
                    self.globals = ast.literal_eval(n.value)
                elif nm == "CONTRACTS":
                    for k, d in ast.literal_eval(n.value).items():
                        self.contracts[k] = Contract(k, d, self)
                elif nm == "CONSTS":
                    self.consts = ast.literal_eval(n.value)
                elif nm == "GLOBAL_TYPES":
                    self.global_types = ast.literal_eval(n.value)
            elif isinstance(n, ast.FunctionDef):
                self.specs[n.name] = n


class Ctx:
    def __init__(self, repo, contract_dir):
        self.repo = repo
        self.sidecars = []
        self.contracts = {}       # call name -> Contract
        self.global_types = {}
        self.specs = {}           # spec function name -> FunctionDef
        self.module_consts = {}
        for fn_ in sorted(os.listdir(contract_dir)):
            if fn_.startswith("c_") and fn_.endswith(".py"):
                sc = Sidecar(os.path.join(contract_dir, fn_))
                self.sidecars.append(sc)
                for k, c in sc.contracts.items():
                    self.contracts[k.split(".")[-1]] = c
                self.specs.update(sc.specs)
                self.module_consts.update(sc.consts)
                self.global_types.update(sc.global_types)
        tags_path = os.path.join(contract_dir, "tags.py")
        if os.path.exists(tags_path):
            env = {}
            exec(compile(open(tags_path).read(), tags_path, "exec"), env)
            for k, extra in env.get("ALSO", {}).items():
                c = self.contracts.get(k)
                if c is None:
                    raise RuntimeError("contracts/tags.py names an unknown contract %r" % k)
                c.props = sorted(set(c.props) | set(extra))
                c.d["props"] = c.props
        self.axioms = T.base_axioms() + lib.axioms()
        self.extra_axioms = []
        self.solver = None
        self.quiet = False
        self.effects = []
        self.assumed = set()
        self.none_mode = False
        self.accessors = self._accessors()
        self.ctx_classes = self._ctx_classes()
        self.n_feas = 0
        self.cur_globals = []
        self.inline_depth = 0
        self.loop_cache = {}
        self.heap_terms = {}
        self.cur_module = None
        self.cur_class = None
        self.hidden_state = []

    # ------------------------------------------------------------------------------------------------ sources
    def _accessors(self):
        """pure observer methods of parse-tree contexts: read off blackbirdParser.py + the antlr4 runtime's tree API"""
        names = {"getText", "getChildren", "getChild", "getChildCount", "getToken", "getTokens", "getTypedRuleContext", "getTypedRuleContexts", "getRuleIndex"}
        path = os.path.join(self.repo, "blackbird_python", "blackbird", "blackbirdParser.py")
        try:
            tree = ast.parse(open(path).read())
            for cls in ast.walk(tree):
                if isinstance(cls, ast.ClassDef) and cls.name.endswith("Context"):
                    for f in cls.body:
                        if isinstance(f, ast.FunctionDef) and f.name not in ("__init__", "enterRule", "exitRule", "copyFrom", "accept"):
                            names.add(f.name)
        except (OSError, SyntaxError):
            pass
        return names

    def _ctx_classes(self):
        """class hierarchy of the parse-tree context classes (read off blackbirdParser.py): name -> (id, names of all subclasses incl. itself)"""
        path = os.path.join(self.repo, "blackbird_python", "blackbird", "blackbirdParser.py")
        bases = {}
        try:
            tree = ast.parse(open(path).read())
        except (OSError, SyntaxError):
            return {}
        for cls in ast.walk(tree):
            if isinstance(cls, ast.ClassDef) and cls.name.endswith("Context"):
                bases[cls.name] = [b.id if isinstance(b, ast.Name) else b.attr for b in cls.bases]
        ids = {n: i + 1 for i, n in enumerate(sorted(bases))}
        out = {}
        for n in bases:
            subs = set()
            for m in bases:
                k, seen = m, set()
                stack = [m]
                while stack:
                    k = stack.pop()
                    if k == n:
                        subs.add(m)
                        break
                    for b in bases.get(k, []):
                        if b not in seen:
                            seen.add(b)
                            stack.append(b)
            out[n] = (ids[n], sorted(subs))
        self.ctx_ids = ids
        return out

    def extract(self, module_rel, qual):
        """the FunctionDef `qual` (Class.func or func) of a repository module, re-read from the working tree"""
        path = os.path.join(self.repo, module_rel)
        src = open(path, newline=None).read()
        tree = ast.parse(src)
        node = tree
        for part in qual.split("."):
            found = None
            for n in node.body:
                if isinstance(n, (ast.FunctionDef, ast.ClassDef)) and n.name == part:
                    found = n
            if found is None:
                return None, path
            node = found
        return node, path

    def module_const(self, module_rel, name):
        """the defining expression of a module-level CONSTANT `name`, or None: bound exactly once at module level (plain `name = expr`), never
        declared `global` in a function, never the target of an augmented assignment / del / import, and `expr` is an immutable display: literals,
        tuples of such, dotted names of classes / builtin types (np.integer, int), str concatenations / `%`-free implicit joins of literals"""
        key = (module_rel, name)
        cache = self.__dict__.setdefault("_module_consts", {})
        if key in cache:
            return cache[key]
        cache[key] = None
        try:
            tree = ast.parse(open(os.path.join(self.repo, module_rel), newline=None).read())
        except (OSError, SyntaxError):
            return None
        binds = [n for n in tree.body if isinstance(n, ast.Assign) and any(isinstance(t, ast.Name) and t.id == name for t in n.targets)]
        if len(binds) != 1 or len(binds[0].targets) != 1:
            return None
        for n in ast.walk(tree):
            if isinstance(n, (ast.Global, ast.Nonlocal)) and name in n.names:
                return None
            if isinstance(n, (ast.AugAssign, ast.AnnAssign)) and isinstance(n.target, ast.Name) and n.target.id == name:
                return None
            if isinstance(n, ast.Delete) and any(isinstance(t, ast.Name) and t.id == name for t in n.targets):
                return None
            if isinstance(n, ast.Name) and n.id == name and isinstance(n.ctx, ast.Store) and n is not binds[0].targets[0] \
                    and not any(n in ast.walk(f) for f in ast.walk(tree) if isinstance(f, (ast.FunctionDef, ast.Lambda))):
                return None                     # rebound somewhere else at module / class level (loop target, with-as, ...)

        def immutable(x):
            if isinstance(x, ast.Constant):
                return not isinstance(x.value, bytes) or True
            if isinstance(x, ast.Tuple):
                return all(immutable(y) for y in x.elts)
            if isinstance(x, ast.Name):
                return x.id in BUILTIN_TYPES or x.id in ("True", "False", "None")
            if isinstance(x, ast.Attribute):
                return isinstance(x.value, ast.Name) and x.value.id in MODULE_ALIASES
            if isinstance(x, ast.UnaryOp) and isinstance(x.op, (ast.USub, ast.UAdd)):
                return isinstance(x.operand, ast.Constant)
            if isinstance(x, ast.BinOp) and isinstance(x.op, ast.Add):
                return all(isinstance(y, ast.Constant) and isinstance(y.value, str) for y in (x.left, x.right)) or (immutable(x.left) and immutable(x.right)
                                                                                                                     and isinstance(x.left, (ast.Constant, ast.BinOp)))
            return False
        if immutable(binds[0].value):
            cache[key] = binds[0].value
        return cache[key]

    def globals_of(self, fname):
        return self.cur_globals

    # ------------------------------------------------------------------------------------------------ solver
    def feasible(self, conds):
        if self.quiet:
            return True
        self.n_feas += 1
        s = self._solver()
        s.push()
        try:
            s.add(*conds)
            r = s.check()
        finally:
            s.pop()
        return r != z3.unsat

    def proves(self, goal, timeout_ms=1500):
        """goal follows from the axioms alone (free constants arbitrary)"""
        s = self._solver()
        s.push()
        try:
            s.add(z3.Not(goal))
            return s.check() == z3.unsat
        finally:
            s.pop()

    def _solver(self):
        if self.solver is None:
            self.solver = z3.Solver()
            self.solver.set("timeout", 1500)
            self.solver.add(*self.axioms)
            self.solver.add(*self.extra_axioms)
        return self.solver

    def grammar(self):
        """parser rules of src/blackbird.g4 with their presence vectors (pyvc/wf.py); None if the grammar cannot be read"""
        if not hasattr(self, "_grammar"):
            try:
                from . import wf
                self._grammar = wf.Grammar(self.repo)
            except Exception as e:             # noqa: the wf facts are an optional strengthening; without them proofs are only harder
                self._grammar = None
                self.grammar_error = str(e)[:200]
        return self._grammar

    def type_facts(self, key, value):
        """type invariants of module tables: facts about a (new) value of the location `key`"""
        if key.startswith("global:") and self.global_types.get(key[7:]) == "dict" and z3.is_expr(value) and not z3.is_bool(value):
            return [pred("is_dict", value)]
        return []

    def reset_solver(self):
        self.solver = None

    # ------------------------------------------------------------------------------------------------ hooks used by Exec
    def effect(self, ex, p, kind, key, node):
        if ex.side == "real" and not self.quiet:
            self.effects.append((kind, key, getattr(node, "lineno", None), list(p.conds)))

    def none_check(self, ex, p, obj, node):
        if not self.none_mode or ex.side != "real":
            return
        if isinstance(getattr(node, "value", None), ast.Name) and node.value.id == "self":
            return                              # the receiver of the method under verification is an object
        if isinstance(obj, (PyC, Tup, ClassRef, Closure)):
            if isinstance(obj, PyC) and obj.v is None:
                ex.raise_(p, "AttributeError", None, node.lineno)
            return
        o = asV(obj)
        pn = p.assume(o == NONE)
        if self.feasible(pn.conds):
            ex.raise_(pn, "AttributeError", PyC("None dereference at line %d: %s" % (node.lineno, ast.unparse(node)[:80])), node.lineno)
        p.conds.append(o != NONE)

    def attr_hook(self, ex, p, obj, attr, default):
        if attr == "parameters":
            # BlackbirdProgram.parameters (property): the set of the parameters' names -- getter verified in the program.py sidecar
            o = asV(obj)
            hk = (o.sexpr(), "_parameters")
            cur = p.heap[hk] if hk in p.heap else app("attr__parameters", o)
            return app("PARAMSET", asV(cur))
        return default

    def field_of(self, attr):
        """properties of BlackbirdProgram / BlackbirdListener read through their getters (each getter is under contract)"""
        return PROPERTY_FIELDS.get(attr, attr)

    def elem_facts(self, xs, elem):
        return []

    def module_name(self, ex, n):
        if n in MODULE_ALIASES:
            return ClassRef("module:" + n)
        if n in BUILTIN_TYPES or n in EXC_CODE or n in ("Iterable", "Exception", "SyntaxWarning", "UserWarning", "DeprecationWarning"):
            return ClassRef(n)
        if n in self.contracts or n in self.specs or n in lib.FUNCS:
            return ClassRef("func:" + n)
        if n in self.module_consts:
            return self._const_value(self.module_consts[n])
        if n[:1].isupper() and (n.endswith("Context") or n.endswith("Transform") or n.endswith("Program") or n.endswith("Listener") or n.endswith("Error")):
            return ClassRef(n)
        if ex.side != "real" and n.isupper():
            return ClassRef("func:" + n)
        return None

    def _const_value(self, v):
        """module-level constant tables such as PYTHON_TYPES: dict name -> class reference"""
        if isinstance(v, dict):
            t = NIL_DICT
            for k, x in v.items():
                t = app("dict_set", t, asV(PyC(k)), asV(self._const_value(x)))
            return t
        if isinstance(v, str) and v.startswith("class:"):
            return ClassRef(v[6:])
        return PyC(v)

    CANON_MODULES = {"numpy": "np", "sympy": "sym", "networkx": "nx", "os": "os", "os.path": "os.path", "copy": "copy", "warnings": "warnings",
                     "antlr4": "antlr4", "re": "re", "sys": "sys", "networkx.algorithms": "nx.algorithms", "networkx.algorithms.isomorphism": "isomorphism"}

    def import_aliases(self):
        """names the module under verification binds by import, as the dotted names the library models use: `from os import path as os_path`
        -> os_path = os.path; `from antlr4 import InputStream` -> InputStream = antlr4.InputStream; `import numpy` -> numpy = np"""
        mod = self.cur_module
        cache = self.__dict__.setdefault("_import_aliases", {})
        if mod not in cache:
            m = {}
            try:
                tree = ast.parse(open(os.path.join(self.repo, mod), newline=None).read())
            except (OSError, SyntaxError, TypeError):
                tree = None
            for n in ast.walk(tree) if tree is not None else []:
                if isinstance(n, ast.Import):
                    for a in n.names:
                        canon = self.CANON_MODULES.get(a.name)
                        local = a.asname or a.name.split(".")[0]
                        if canon and local not in MODULE_ALIASES and (a.asname or "." not in a.name):
                            m[local] = canon
                        elif not canon and local not in MODULE_ALIASES and local not in m:
                            m[local] = a.name if a.asname else a.name.split(".")[0]       # `import math`: math.f is the library function math.f
                elif isinstance(n, ast.ImportFrom) and n.module and not n.level:
                    canon = self.CANON_MODULES.get(n.module)
                    if canon:
                        for a in n.names:
                            local = a.asname or a.name
                            if local not in MODULE_ALIASES or (canon + "." + a.name) != local:
                                m[local] = canon + "." + a.name
                    elif n.module.split(".")[0] not in ("blackbird",) :
                        # any other library: its functions are uninterpreted (unknown_library_call)
                        for a in n.names:
                            local = a.asname or a.name
                            if local not in MODULE_ALIASES and local not in m and a.name != "*":
                                m[local] = n.module + "." + a.name
            cache[mod] = m
        return cache[mod]

    def dotted(self, ex, e):
        parts = []
        n = e
        while isinstance(n, ast.Attribute):
            parts.append(n.attr)
            n = n.value
        if not isinstance(n, ast.Name):
            return None
        root = n.id
        if root not in MODULE_ALIASES:
            al = self.import_aliases().get(root) if ex.side != "spec" else None
            if al is None:
                return None
            root = al
        if n.id in ex_env_names(ex):
            return None
        parts.append(root)
        name = ".".join(reversed(parts))
        n = ast.Name(id=root.split(".")[0], ctx=ast.Load())
        if name == "np.pi":
            return app("PI_CONST")
        if n.id == "blackbirdParser":
            return ClassRef(parts[0])
        return ClassRef(name)

    # ------------------------------------------------------------------------------------------------ calls
    def call(self, ex, e, p):
        f = e.func
        # keyword / star arguments
        if isinstance(f, ast.Name) and f.id == "isinstance":
            if len(e.args) != 2 or e.keywords or any(isinstance(a, ast.Starred) for a in e.args):
                raise Unsupported("isinstance with unexpected argument", e)
            res = []
            for obj, p2 in ex.ev(e.args[0], p):
                for cls, p3 in ex.ev(e.args[1], p2):
                    classes = cls.items if isinstance(cls, Tup) else [cls]
                    names = []
                    for c in classes:
                        if not isinstance(c, ClassRef):
                            raise Unsupported("isinstance with computed class", e)
                        names.append(c.name)
                    res.append((self.isinstance_(obj, names), p3))
            return res
        gen = self.map_filter_as_generator(e, p)
        if gen is not None:
            return ex.ev(gen, p)
        if isinstance(f, ast.Name) and f.id in ("set", "list") and len(e.args) == 1 and not e.keywords and f.id not in p.env and \
           (isinstance(e.args[0], (ast.ListComp, ast.GeneratorExp, ast.SetComp)) or
                (isinstance(e.args[0], ast.Call) and self.map_filter_as_generator(e.args[0], p) is not None)):
            c0 = e.args[0]
            if isinstance(c0, ast.Call):
                c0 = self.map_filter_as_generator(c0, p)
            elt = c0.elt
            comp = ast.SetComp(elt=elt, generators=c0.generators) if f.id == "set" else ast.ListComp(elt=elt, generators=c0.generators)
            ast.copy_location(comp, c0)            # same position => same temporary name as the inner comprehension
            return ex.ev(comp, p)
        res = []
        for (args, kwargs, starkw), p2 in self.evargs(ex, e, p):
            res.extend(self.dispatch(ex, e, f, args, kwargs, starkw, p2))
        return res

    def map_filter_as_generator(self, e, p):
        """map(f, xs) / filter(f, xs) with f a one-parameter lambda, a one-parameter nested def that only returns an expression, or a plain
        name: the generator expression (f(x) for x in xs) / (x for x in xs if f(x)), the function body substituted. None if not of this shape."""
        f = e.func
        if not (isinstance(f, ast.Name) and f.id in ("map", "filter") and f.id not in p.env and len(e.args) == 2 and not e.keywords
                and not any(isinstance(a, ast.Starred) for a in e.args)):
            return None
        cached = getattr(e, "_pyvc_gen", None)
        if cached is not None:
            return cached
        fn, xs = e.args
        var = "__mf%d_%d" % (e.lineno, e.col_offset)
        body = None
        lam = fn
        if isinstance(fn, ast.Name) and isinstance(p.env.get(fn.id), Closure):
            fd = p.env[fn.id].fdef
            stmts = [s_ for s_ in fd.body if not (isinstance(s_, ast.Expr) and isinstance(s_.value, ast.Constant))]
            if len(stmts) == 1 and isinstance(stmts[0], ast.Return) and stmts[0].value is not None and len(fd.args.args) == 1 and not fd.args.defaults \
               and not fd.args.vararg and not fd.args.kwarg and not fd.args.kwonlyargs:
                lam = ast.Lambda(args=fd.args, body=stmts[0].value)
        if isinstance(lam, ast.Lambda):
            a = lam.args
            if len(a.args) != 1 or a.defaults or a.vararg or a.kwarg or a.kwonlyargs or getattr(a, "posonlyargs", None):
                return None
            if any(isinstance(n, (ast.Lambda, ast.ListComp, ast.SetComp, ast.DictComp, ast.GeneratorExp)) for n in ast.walk(lam.body)):
                return None                                  # an inner scope could rebind the parameter's name
            old = a.args[0].arg

            class Ren(ast.NodeTransformer):
                def visit_Name(self, n):
                    return ast.copy_location(ast.Name(id=var, ctx=n.ctx), n) if n.id == old else n
            import copy as _copy
            body = Ren().visit(_copy.deepcopy(lam.body))
        elif isinstance(fn, ast.Name) and fn.id not in p.env:
            body = ast.Call(func=ast.Name(id=fn.id, ctx=ast.Load()), args=[ast.Name(id=var, ctx=ast.Load())], keywords=[])
        else:
            return None
        tgt = ast.Name(id=var, ctx=ast.Store())
        if f.id == "map":
            gen = ast.GeneratorExp(elt=body, generators=[ast.comprehension(target=tgt, iter=xs, ifs=[], is_async=0)])
        else:
            gen = ast.GeneratorExp(elt=ast.Name(id=var, ctx=ast.Load()), generators=[ast.comprehension(target=tgt, iter=xs, ifs=[body], is_async=0)])
        ast.copy_location(gen, e)
        for n in ast.walk(gen):
            if not hasattr(n, "lineno"):
                ast.copy_location(n, e)
        ast.fix_missing_locations(gen)
        e._pyvc_gen = gen
        return gen

    def isinstance_(self, obj, names):
        if isinstance(obj, PyC):
            pyt = {"int": int, "float": float, "str": str, "bool": bool, "complex": complex}
            return z3.BoolVal(any(n in pyt and isinstance(obj.v, pyt[n]) and not (n == "int" and isinstance(obj.v, bool) and False) for n in names))
        if isinstance(obj, Tup):
            return z3.BoolVal(any(n in ("list" if obj.kind == "list" else "tuple", "Iterable") for n in names))
        o = asV(obj)
        self.assumed.add("A-class-hierarchy")
        alts = []
        for n in names:
            if n in self.ctx_classes:
                # context classes: an object has exactly one class; isinstance holds for the class and its subclasses
                alts.extend(T.fn("class_of", V, z3.IntSort())(o) == self.ctx_ids[m] for m in self.ctx_classes[n][1])
            else:
                alts.append(pred("isinst_" + n, o))
        return z3.Or(*alts) if len(alts) != 1 else alts[0]

    def evargs(self, ex, e, p):
        combos = [(([], {}, None), p)]
        for a in e.args:
            nxt = []
            for (args, kw, skw), p0 in combos:
                for v, p2 in ex.ev(a, p0):
                    if isinstance(a, ast.Starred):
                        if isinstance(v, Tup):
                            nxt.append(((args + v.items, kw, skw), p2))
                        else:
                            # a starred sequence of unknown length: one entry of args, its position recorded under __star__
                            prev = kw["__star__"].v if "__star__" in kw else ()
                            nxt.append(((args + [v], dict(kw, __star__=PyC(prev + (len(args),))), skw), p2))
                    else:
                        nxt.append(((args + [v], kw, skw), p2))
            combos = nxt
        for k in e.keywords:
            nxt = []
            for (args, kw, skw), p0 in combos:
                for v, p2 in ex.ev(k.value, p0):
                    if k.arg is None:
                        nxt.append(((args, kw, v), p2))
                    else:
                        nxt.append(((args, dict(kw, **{k.arg: v}), skw), p2))
            combos = nxt
        return combos

    def plain(self, e, star, starkw, what):
        """guard of the callees that take exactly the evaluated positional / keyword arguments: f(*seq) with a sequence of unknown length is
        NOT f(seq), and f(**kw) is not f() -- an argument the model would drop makes two different calls one term"""
        if star is not None:
            raise Unsupported("%s with unexpected argument (*sequence of unknown length)" % what, e)
        if starkw is not None:
            raise Unsupported("%s with unexpected argument (**mapping)" % what, e)

    def exc_value(self, e, n, args, kwargs, star, starkw):
        self.plain(e, star, starkw, n)
        if len(args) > 1 or kwargs:
            raise Unsupported("%s with unexpected argument (the model keeps one message)" % n, e)
        return ExcVal(n, args[0] if args else None)

    def lib_call(self, ex, e, name, args, kwargs, star, starkw, p):
        h, aid = lib.FUNCS[name]
        if star is not None and name in lib.STAR_OK_FUNCS:
            kwargs = dict(kwargs, __star__=star)          # the handler models the starred shape itself
            star = None
        self.plain(e, star, starkw, name)
        self.assumed.add(aid)
        return h(ex, e, args, kwargs, p)

    def unknown_library_call(self, ex, e, name, args, kwargs, star, starkw, p):
        """a library function without an assumed contract: an uninterpreted function of its arguments that may raise and MAY CHANGE every
        mutable argument it is given (each argument that is a location holds an unknown value afterwards). Nothing is assumed about it, so
        a real function calling it can only equal a spec that calls the same function with the same arguments."""
        self.plain(e, star, starkw, name)
        sym_ = "UF_" + name + lib.kwsfx(kwargs)
        vs = [asV(a) for a in args] + [asV(v) for v in lib.kwvals(kwargs)]
        q = ex.may_raise(p, code(sym_, *vs), app(sym_ + "_msg", *vs), getattr(e, "lineno", None))
        if q is None:
            return []
        q = q.copy()
        ex.notes.append("library function %s() has no assumed contract: uninterpreted, may change its arguments (line %s)" % (name, getattr(e, "lineno", "?")))
        self.assumed.add("A-unknown-library: %s is a deterministic function of its arguments (and of nothing else)" % name)
        nodes = list(getattr(e, "args", [])) + [k.value for k in getattr(e, "keywords", [])]
        for i, nd in enumerate(nodes):
            if isinstance(nd, ast.Starred):
                nd = nd.value
            if isinstance(nd, (ast.Name, ast.Attribute, ast.Subscript)):
                try:
                    l = ex.loc(nd, q)
                except Unsupported:
                    l = None
                if l is not None:
                    cur = l.get(q)
                    if cur is not None and not isinstance(cur, (PyC, ClassRef, Closure)) and not (z3.is_expr(cur) and (z3.is_bool(cur) or z3.is_int(cur))):
                        l.set(q, app("%s!arg%d" % (sym_, i), *vs))
                        ex.note_write(l.key)
        return [(app(sym_, *vs), q)]

    def dispatch(self, ex, e, f, args, kwargs, starkw, p):
        star = kwargs.get("__star__")             # PyC(positions in args of starred sequences of unknown length) or None
        kwargs = {k: v for k, v in kwargs.items() if k != "__star__"}
        if isinstance(f, ast.Name):
            n = f.id
            if n in p.env:
                return self.call_value(ex, e, p.env[n], args, kwargs, starkw, p, star)
            if ex.side != "real" and n in self.specs:
                self.plain(e, star, starkw, n)
                return self.inline(ex, e, self.specs[n], args, kwargs, p)
            if n in self.contracts:
                self.plain(e, star, None, n)
                return self.summary(ex, e, self.contracts[n], None, args, kwargs, starkw, p)
            if n in EXC_CODE or n == "Exception":
                return [(self.exc_value(e, n, args, kwargs, star, starkw), p)]
            if n in lib.FUNCS:
                return self.lib_call(ex, e, n, args, kwargs, star, starkw, p)
            if ex.side != "spec" and self.import_aliases().get(n) in lib.FUNCS:
                return self.lib_call(ex, e, self.import_aliases()[n], args, kwargs, star, starkw, p)      # `from antlr4 import InputStream`
            if ex.side != "spec" and n in self.import_aliases() and "." in self.import_aliases()[n]:
                return self.unknown_library_call(ex, e, self.import_aliases()[n], args, kwargs, star, starkw, p)
            if ex.side != "real" and n.isupper() or (ex.side != "real" and re.fullmatch(r"[A-Z][A-Z0-9_]*", n)):
                self.plain(e, star, starkw, n)
                return self.spec_primitive(ex, e, n, args, kwargs, p)
            if ex.side in ("real", "dry"):
                # a module-level helper of the same module that has no contract of its own: its body is part of the caller's obligation
                fdef, _ = self.extract(self.cur_module, n) if self.cur_module else (None, None)
                if isinstance(fdef, ast.FunctionDef):
                    ex.notes.append("helper %s() has no contract: inlined at line %s" % (n, getattr(e, "lineno", "?")))
                    self.plain(e, star, starkw, n)
                    return self.inline(ex, e, fdef, args, kwargs, p)
            raise Unsupported("call of unknown function %s" % n, e)
        if isinstance(f, ast.Attribute):
            ref = self.dotted(ex, f)
            if ref is not None:
                name = ref.name
                if name in lib.FUNCS:
                    return self.lib_call(ex, e, name, args, kwargs, star, starkw, p)
                if name in EXC_CODE:
                    return [(self.exc_value(e, name, args, kwargs, star, starkw), p)]
                return self.unknown_library_call(ex, e, name, args, kwargs, star, starkw, p)
            mname = f.attr
            # method of self under contract
            if isinstance(f.value, ast.Name) and f.value.id == "self" and mname in self.contracts and self.contracts[mname].is_method:
                selfv = ex.ev(f.value, p)[0][0]
                self.plain(e, star, None, "." + mname)
                return self.summary(ex, e, self.contracts[mname], selfv, args, kwargs, starkw, p)
            # mutators on locations
            if mname in MUTATORS:
                l = None
                try:
                    l = ex.loc(f.value, p)
                except Unsupported:
                    l = None
                if l is not None:
                    cur = l.get(p)
                    if cur is not None and not isinstance(cur, (ClassRef,)):
                        self.plain(e, star, starkw, "." + mname)
                        return self.mutate(ex, e, l, mname, args, kwargs, p)
            if mname in OBJECT_METHODS:
                self.plain(e, star, None, "." + mname)
                return self.object_method(ex, e, f, mname, args, kwargs, p, starkw)
            res = []
            for obj, p2 in ex.ev(f.value, p):
                self.none_check(ex, p2, obj, f)
                if z3.is_expr(obj) and z3.is_app(obj) and obj.decl().name() == "SUPER":
                    # super().m(...): the base class's method (library code, not under contract): a pure partial function of self and the
                    # arguments, the same symbol on both sides
                    self.assumed.add("A-sympy" if mname.startswith("_print") else "A-cpython")
                    self.plain(e, star, starkw, "super()." + mname)
                    res.extend(lib.partial(ex, p2, e, "super_" + mname + lib.kwsfx(kwargs), obj.arg(0), *args, *lib.kwvals(kwargs)))
                    continue
                if mname in lib.METHODS:
                    h, aid = lib.METHODS[mname]
                    self.assumed.add(aid)
                    if star is not None and mname in lib.STAR_OK_METHODS:
                        self.plain(e, None, starkw, "." + mname)
                        res.extend(h(ex, e, obj, args, dict(kwargs, __star__=star), p2))      # the handler models the starred shape itself
                    else:
                        self.plain(e, star, starkw, "." + mname)
                        res.extend(h(ex, e, obj, args, dict(kwargs), p2))
                elif mname in self.accessors:
                    self.assumed.add("A-antlr-tree")
                    self.plain(e, star, starkw, "." + mname)
                    res.append((app("m_" + mname + lib.kwsfx(kwargs), asV(obj), *[asV(a) for a in args], *[asV(v) for v in lib.kwvals(kwargs)]), p2))
                elif mname in MUTATORS:
                    raise Unsupported("mutating method .%s on a value without location" % mname, e)
                elif mname in self.contracts and self.contracts[mname].is_method:
                    self.plain(e, star, None, "." + mname)
                    res.extend(self.summary(ex, e, self.contracts[mname], obj, args, kwargs, starkw, p2))
                elif ex.side != "real":
                    self.plain(e, star, starkw, "." + mname)
                    res.append((app("m_" + mname + lib.kwsfx(kwargs), asV(obj), *[asV(a) for a in args], *[asV(v) for v in lib.kwvals(kwargs)]), p2))
                else:
                    fdef = None
                    if isinstance(f.value, ast.Name) and f.value.id == "self" and self.cur_class and self.cur_module:
                        fdef, _ = self.extract(self.cur_module, self.cur_class + "." + mname)
                    if isinstance(fdef, ast.FunctionDef):
                        ex.notes.append("helper method self.%s() has no contract: inlined at line %s" % (mname, getattr(e, "lineno", "?")))
                        self.plain(e, star, starkw, "." + mname)
                        static = any(ast.unparse(d) == "staticmethod" for d in fdef.decorator_list)
                        res.extend(self.inline(ex, e, fdef, ([] if static else [obj]) + list(args), kwargs, p2))
                    else:
                        # a library method without a specific contract: a pure, possibly failing function of receiver and arguments
                        # (all mutating methods of the builtin containers are handled above); recorded as assumed
                        ex.notes.append("method .%s() has no specific contract: treated as a pure partial function (line %s)" % (mname, getattr(e, "lineno", "?")))
                        self.assumed.add("A-cpython")
                        self.plain(e, star, starkw, "." + mname)
                        res.extend(lib.partial(ex, p2, e, "um_" + mname + "".join("_" + k for k in sorted(kwargs)), obj, *args,
                                               *[v for k, v in sorted(kwargs.items())]))
            return res
        if isinstance(f, (ast.Subscript, ast.Call)):
            res = []
            for fv, p2 in ex.ev(f, p):
                res.extend(self.call_value(ex, e, fv, args, kwargs, starkw, p2, star))
            return res
        raise Unsupported("call form", e)

    def call_value(self, ex, e, fv, args, kwargs, starkw, p, star=None):
        """calling a first-class value: a nested def, a class reference (cast / constructor), or an opaque callable"""
        if isinstance(fv, Closure):
            self.plain(e, star, starkw, "nested function")
            return self.inline(ex, e, fv.fdef, args, kwargs, p, closure_env=p.env)
        if isinstance(fv, ClassRef):
            n = fv.name
            if n.startswith("func:"):
                n = n[5:]
            fake = ast.Call(func=ast.Name(id=n, ctx=ast.Load()), args=[], keywords=[])
            ast.copy_location(fake, e)
            if n in lib.FUNCS or n in self.contracts or n in EXC_CODE:
                return self.dispatch(ex, fake, fake.func, args, kwargs, starkw, St(env={}, glob=p.glob, heap=p.heap, conds=p.conds, loops=p.loops)) \
                    if False else self.dispatch_noenv(ex, fake, args, dict(kwargs, __star__=star) if star is not None else kwargs, starkw, p)
        vs = [asV(fv)] + [asV(a) for a in args] + [asV(v) for k, v in sorted(kwargs.items())] + ([asV(starkw)] if starkw is not None else [])
        nm = "CALLV%d%s%s" % (len(args), "".join("_" + k for k in sorted(kwargs)), "_starkw" if starkw is not None else "")
        if star is not None:
            # f(*seq) is not f(seq): which arguments were unpacked is part of the function symbol
            nm += "_star" + "_".join(str(i) for i in star.v)
        return lib.partial(ex, p, e, nm, *vs)

    def dispatch_noenv(self, ex, fake, args, kwargs, starkw, p):
        saved = p.env
        q = p.copy()
        q.env = {}
        out = self.dispatch(ex, fake, fake.func, args, kwargs, starkw, q)
        res = []
        for v, q2 in out:
            q3 = q2.copy()
            q3.env = dict(saved)
            res.append((v, q3))
        return res

    def spec_primitive(self, ex, e, n, args, kwargs, p):
        """ALLCAPS names in spec code are spec-level (mathematical) functions: total and pure unless declared partial"""
        if n == "RAISES":
            raise Unsupported("RAISES placeholder", e)
        if kwargs:
            raise Unsupported("%s with unexpected argument (keyword %s)" % (n, ", ".join(sorted(kwargs))), e)
        if n in SPEC_PREDS:
            return [(pred(SPEC_PREDS[n], *[asV(a) for a in args]), p)]
        if n in ("PARTIAL",):
            name = args[0].v
            return lib.partial(ex, p, e, name, *args[1:])
        return [(app(n, *[asV(a) for a in args]), p)]

    def inline(self, ex, e, fdef, args, kwargs, p, closure_env=None):
        for d in getattr(fdef, "decorator_list", []):
            dn = ast.unparse(d)
            if any(w in dn for w in ("lru_cache", "cache", "memo")):
                # memoisation keeps results across calls (keyed by == and hash): hidden module state
                self.hidden_state.append((fdef.name, getattr(e, "lineno", 0), dn))
            elif dn not in ("staticmethod", "classmethod", "property"):
                raise Unsupported("helper %s has decorator %s" % (fdef.name, dn), e)
        if self.inline_depth > 6:
            raise Unsupported("inlining depth exceeded at %s" % fdef.name, e)
        names = [a.arg for a in fdef.args.args]
        fa = fdef.args
        if fa.vararg or fa.kwarg or fa.kwonlyargs or getattr(fa, "posonlyargs", None):
            raise Unsupported("helper %s has *args / **kwargs / keyword-only / positional-only parameters" % fdef.name, e)
        if len(args) > len(names) or any(k not in names for k in kwargs) or any(k in names[:len(args)] for k in kwargs):
            raise Unsupported("%s with unexpected argument (parameters: %s)" % (fdef.name, ", ".join(names)), e)
        env = dict(closure_env) if closure_env else {}
        for nm, v in zip(names, args):
            env[nm] = v
        for k, v in kwargs.items():
            env[k] = v
        defaults = fdef.args.defaults
        for nm, dflt in zip(names[len(names) - len(defaults):], defaults):
            if nm not in env:
                env[nm] = ex.ev(dflt, p)[0][0]
        sub = Exec(self, ex.side, ex.fname)
        sub.fn_locals = {n.id for n in ast.walk(fdef) if isinstance(n, ast.Name) and isinstance(n.ctx, ast.Store)} - set(self.cur_globals)
        sub.loop_hook = ex.loop_hook
        sub.try_depth = ex.try_depth
        sub.pure = ex.pure
        sub.writes = set() if ex.writes is not None else None      # the helper's own locals are not the caller's
        q = p.copy()
        q.env = env
        self.inline_depth += 1
        try:
            sub.exc_sinks = [ex.exc_sinks[-1]]
            rets = []
            sub.ret_sink = rets
            for q2 in sub.block(fdef.body, [q]):
                rets.append(Outcome("ret", q2, value=PyC(None)))
        finally:
            self.inline_depth -= 1
        ex.notes.extend(sub.notes)
        # objects passed by reference: a parameter the helper mutated in place (not rebound) is the caller's object
        back = {}
        if e is not None and hasattr(e, "args"):
            for nm, a in zip(names, list(e.args)):
                if isinstance(a, ast.Name) and a.id in p.env and ("local:" + nm) in sub.mutated and ("local:" + nm) not in sub.rebound:
                    back[nm] = a.id
        res = []
        for o in rets:
            q3 = o.st.copy()
            final_env = q3.env
            q3.env = dict(p.env)
            for nm, caller in back.items():
                if nm in final_env:
                    q3.env[caller] = final_env[nm]
                    ex.note_write("local:" + caller)
            res.append((o.value, q3))
        if ex.writes is not None and sub.writes:
            ex.writes |= {k for k in sub.writes if not k.startswith("local:")}
        return res

    def object_method(self, ex, e, f, mname, args, kwargs, p, starkw=None):
        """methods of opaque library objects (antlr4 parser / walker): the receiver is updated in place (state threading keeps the
        order of calls observable), the call may raise, the result is a function of receiver state and arguments"""
        l = ex.loc(f.value, p)
        self.assumed.add("A-antlr-tree")
        # keyword arguments and a **mapping are arguments of the method's functions like the positional ones: m(x, k=v, **kw) is the
        # term meth_m_k_starkw(receiver, x, v, kw)
        extra = [asV(v) for v in lib.kwvals(kwargs)] + ([asV(starkw)] if starkw is not None else [])
        if mname == "walk" and (len(args) != 2 or extra):
            raise Unsupported("walk with unexpected argument", e)
        if extra:
            mname = mname + lib.kwsfx(kwargs) + ("_starkw" if starkw is not None else "")
        if (l is None or l.get(p) is None) and mname == "walk":
            # ParseTreeWalker().walk(...): the walker itself carries no state the model uses; evaluate the receiver, then walk as below
            outs = ex.ev(f.value, p)
            if len(outs) != 1:
                raise Unsupported("walk() on a receiver with several outcomes", e)
            p = outs[0][1]
            l = None
        elif l is None or l.get(p) is None:
            # receiver is a temporary (e.g. the result of a helper call): its updated state is not observable afterwards
            res = []
            for obj, p2 in ex.ev(f.value, p):
                cur = asV(obj)
                av = [asV(a) for a in args] + extra
                q = ex.may_raise(p2, code("meth_" + mname, cur, *av), app("meth_%s_msg" % mname, cur, *av), e.lineno)
                if q is not None:
                    res.append((app("ret_" + mname, cur, *av), q))
            return res
        q = p.copy()
        cur = asV(l.get(q)) if l is not None else None
        av = [asV(a) for a in args] + extra
        if mname == "walk":
            # ParseTreeWalker.walk(listener, tree): runs the listener's handlers over the tree (A-antlr-walk): the listener object and the
            # module tables are whatever the handlers make of them -- a function of listener, tree and the tables
            self.assumed.add("A-antlr-walk")
            state = [asV(q.glob[g]) for g in self.cur_globals if g in q.glob]
            q = ex.may_raise(q, code("WALK", av[0], av[1], *state), app("WALK_msg", av[0], av[1], *state), e.lineno)
            if q is None:
                return []
            q = q.copy()
            larg = ex.loc(e.args[0], q)
            if larg is None:
                raise Unsupported("walk(listener, ...) with a listener that is not a variable", e)
            larg.set(q, app("WALKED", av[0], av[1], *state))
            ex.note_write(larg.key)
            for g in self.cur_globals:
                if g in q.glob:
                    q.glob[g] = app("WALK_post_" + g, av[0], av[1], *state)
                    ex.note_write("global:" + g)
            return [(PyC(None), q)]
        q = ex.may_raise(q, code("meth_" + mname, cur, *av), app("meth_%s_msg" % mname, cur, *av), e.lineno)
        if q is None:
            return []
        q = q.copy()
        l.set(q, app("meth_" + mname, cur, *av))
        ex.note_write(l.key)
        ex.mutated.add(l.key)
        return [(app("ret_" + mname, cur, *av), q)]

    def mutate(self, ex, e, l, mname, args, kwargs, p):
        q = p.copy()
        cur = l.get(q)
        a = [asV(x) for x in args]
        ret = PyC(None)
        arity = {"append": (1, 1), "extend": (1, 1), "clear": (0, 0), "update": (1, 1), "add": (1, 1), "insert": (2, 2), "remove": (1, 1), "pop": (2, 2),
                 "setdefault": (1, 2)}
        if mname in arity and (kwargs or not arity[mname][0] <= len(args) <= arity[mname][1]):
            # d.update(x, k=v), d.update(**kw), s.update(a, b), xs.pop(), xs.pop(i), d.pop(k): none of these is the modelled shape
            raise Unsupported("mutating method .%s with unexpected argument (%d positional%s)"
                              % (mname, len(args), "".join(", %s=" % k for k in sorted(kwargs))), e)
        if mname == "append":
            new = Tup(cur.items + [args[0]], "list") if isinstance(cur, Tup) and cur.kind == "list" else app("list_app", asV(cur), a[0])
        elif mname == "extend":
            if isinstance(cur, Tup) and isinstance(args[0], Tup):
                new = Tup(cur.items + args[0].items, "list")
            else:
                new = app("list_cat", asV(cur), a[0])
        elif mname == "clear":
            new = app("py_cleared", asV(cur))
        elif mname == "update":
            new = app("dict_update", asV(cur), a[0])
        elif mname == "add":
            new = app("set_add", asV(cur), a[0])
        elif mname == "insert":
            new = app("list_insert", asV(cur), a[0], a[1])
        elif mname == "remove":
            q = ex.may_raise(q, code("list_remove", asV(cur), a[0]), None, e.lineno)
            if q is None:
                return []
            q = q.copy()
            new = app("list_remove", asV(cur), a[0])
        elif mname == "pop" and len(args) == 2:
            new = app("dict_discard", asV(cur), a[0])
            ret = app("dict_get_default", asV(cur), a[0], a[1])
        elif mname == "setdefault":
            new = app("dict_setdefault", asV(cur), a[0], a[1] if len(a) > 1 else NONE)
            ret = app("dict_get", new, a[0])
        elif mname == "sort" and not args and set(kwargs) <= {"key", "reverse"}:
            # xs.sort(key=k, reverse=r) leaves in xs what sorted(xs, key=k, reverse=r) returns (both are stable): the same term as lib._sorted
            extra = [asV(v) for k, v in sorted(kwargs.items())]
            new = app("py_sorted" + "".join("_" + k for k in sorted(kwargs)), asV(cur), *extra)
        else:
            raise Unsupported("mutating method .%s" % mname, e)
        l.set(q, new)
        ex.note_write(l.key)
        ex.mutated.add(l.key)
        self.effect(ex, q, "method-" + mname, l.key, e)
        return [(ret, q)]

    # ------------------------------------------------------------------------------------------------ contracts at call sites
    def resolve_comp(self, ex, comp, binding, p):
        """state component named in reads/modifies -> Loc. comp: '_VAR' (global) or 'self._program._operations' (heap path)"""
        if "." not in comp:
            return ex.loc_by_key("global:" + comp)
        parts = comp.split(".")
        obj = asV(binding[parts[0]])
        for a in parts[1:-1]:
            hk = (obj.sexpr(), a)
            obj = asV(p.heap[hk]) if hk in p.heap else app("attr_" + a, obj)
        hk = (obj.sexpr(), parts[-1])
        attr = parts[-1]

        def hget(st, hk=hk, obj=obj, attr=attr):
            return st.heap[hk] if hk in st.heap else app("attr_" + attr, obj)

        def hset(st, v, hk=hk):
            st.heap[hk] = v
        from .sym import Loc
        return Loc("heap:%s.%s" % hk, hget, hset)

    def summary(self, ex, e, c, selfv, args, kwargs, starkw, p):
        """modular call: the callee's summary functions, never its body (DESIGN 2.4)"""
        params = list(c.params)
        binding = {}
        if c.is_method and not c.ctor:
            binding["self"] = selfv
            params = params[1:]
        elif c.ctor:
            params = params[1:]
        if len(args) > len(params) or any(k not in params for k in kwargs) or any(k in params[:len(args)] for k in kwargs):
            # an argument that no parameter of the contract receives would not reach the callee's summary functions
            raise Unsupported("call of %s with unexpected argument (parameters: %s)" % (c.name, ", ".join(params)), e)
        for nm, v in zip(params, args):
            binding[nm] = v
        for k, v in kwargs.items():
            binding[k] = v
        defaults = c.d.get("defaults", {})
        for nm in params:
            if nm not in binding:
                if nm in defaults:
                    dv = defaults[nm]
                    binding[nm] = ClassRef(dv[6:]) if isinstance(dv, str) and dv.startswith("class:") else (Tup([], "tuple") if dv == "empty_tuple" else PyC(dv))
                elif starkw is not None:
                    binding[nm] = app("starkw_get", asV(starkw), asV(PyC(nm)))
                else:
                    raise Unsupported("call of %s: missing argument %s" % (c.name, nm), e)
        argv = [asV(binding[nm]) for nm in (["self"] if c.is_method and not c.ctor else []) + params]
        if starkw is not None:
            argv.append(asV(starkw))
        reads = [self.resolve_comp(ex, r, binding, p) for r in c.reads]
        rv = [asV(r.get(p)) for r in reads]
        allv = argv + rv
        nm = "%s" % c.name
        q = p.copy()
        ccode = code(nm, *allv)
        if c.raises != []:
            if c.raises != "any":
                q.conds.append(z3.Or(ccode == 0, T.code_in(ccode, c.raises)))
            q = ex.may_raise(q, ccode, app(nm + "!msg", *allv), getattr(e, "lineno", None))
            if q is None:
                return []
            q = q.copy()
        for m in c.modifies:
            l = self.resolve_comp(ex, m, binding, q)
            newv = app("%s!post!%s" % (nm, m), *allv)
            l.set(q, newv)
            q.conds.extend(self.type_facts(l.key, newv))
            ex.note_write(l.key)
            self.effect(ex, q, "callee-modifies:" + c.name, l.key, e)
        ret = app(nm + "!ret", *allv)
        if c.ctor:
            q = q.assume(z3.And(ret != NONE, truthy(ret)))
        return [(ret, q)]

    # ------------------------------------------------------------------------------------------------ while (contract-given invariant)
    def whileloop(self, ex, s, p):
        from .postcheck import whileloop
        return whileloop(self, ex, s, p)


def ex_env_names(ex):
    return ()
