"""Ownership / frame / order-independence obligations (DESIGN 2.5), generated from the real functions alone.

Regions are the *provenance of symbolic terms*: a term's region is read off its structure -- leaves are parameters
(`param.self`), module tables (`global._VAR`), loop elements (region of the iterated container + "[]") and fresh makers
(displays, deepcopy, results of callees whose contract says fresh); attribute reads extend the access path, item/element reads
go one level down ("[]"), in-place updates keep the identity of the container.

 * frame:     every write (item/attribute assignment, augmented assignment, del, mutating method) into a region that the
              function's `modifies` clause does not list is a failed obligation.
 * aliasing:  storing an object owned by a protected region into an output region (`independent_of`) is a failed obligation.
 * order:     a sequence whose order comes from iterating a set (free_symbols, mode sets, parameter sets) must not reach an
              order-sensitive consumer (zip, positional unpacking, join/format, indexing, a fold that rebinds a string/list,
              the function's result or state) unless it went through sorted()/set()/len()/dict or the contract documents the freedom.
Loop bodies are executed to a provenance fixpoint with the written locations havocked.
"""
import ast

import z3

from . import lib
from .sym import Exec, St, Outcome, Unsupported, LoopRecord, fresh, MUTATORS
from .terms import V, PyC, Tup, ClassRef, Closure, ExcVal, asV, app, pred, code, NONE, NIL_LIST, NIL_DICT, NIL_SET, EMPTY_TUPLE

FRESH_HEADS = {"DEEPCOPY", "FRESH", "py_sorted", "py_sorted_key", "py_sorted_key_reverse", "list_of", "set_of", "dict_of", "tuple_of", "py_slice",
               "np_array", "np_array_dtype", "np_insert", "np_astype", "FLAT_ROWMAJOR",
               "nt_asdict", "py_cleared"}
IMMUTABLE_HEADS = {"StrC", "IntV", "FloatC", "py_format", "py_join", "py_str", "py_repr", "py_int", "py_float", "py_len", "py_add", "py_sub", "py_mul",
                   "ADD", "MUL", "NEG", "POW", "SYMBOL", "LAMBDIFY", "PARAMSET", "PATH_JOIN", "PATH_DIRNAME", "re_sub", "re_escape", "py_replace",
                   "np_item", "ABS", "py_type", "CALLV1", "m_getText", "attr_shape", "attr_size", "attr_dtype", "attr_real", "attr_imag", "attr_line",
                   "attr_column", "attr_free_symbols", "sym_solve", "np_isclose", "np_all"}
SET_SOURCES = {"attr_free_symbols", "set_of", "attr__modes", "PARAMSET", "set_add", "nil_set"}
ORDER_SAFE = {"py_sorted", "py_sorted_key", "py_sorted_key_reverse", "set_of", "py_len", "dict_of"}


class FrameExec(Exec):
    def __init__(self, ctx, fname, spec):
        super().__init__(ctx, "real", fname)
        self.leaf = {}
        self.spec = spec                       # frame spec of the function (dict)
        self.findings = []                     # (kind, line, text, conds)
        self.unordered_consts = set()
        self.set_consts = set()                # constants standing for sets built in loops
        self.order_source = {}                 # tainted constant -> s-expression of the sequence whose iteration produced it
        self.order_free = set(spec.get("order_free", []))
        self.unknown_heads = set()

    def sub_exec(self, side):
        ex = FrameExec(self.ctx, self.fname, self.spec)
        ex.leaf = self.leaf
        ex.unordered_consts = self.unordered_consts
        ex.order_source = self.order_source
        ex.set_consts = self.set_consts
        ex.findings = []               # findings of dry runs are discarded
        ex.unknown_heads = self.unknown_heads
        return ex

    # ---------------------------------------------------------------------------------------------- provenance
    def prov(self, v):
        if isinstance(v, Tup):
            return {"fresh"}
        if isinstance(v, (PyC, ClassRef, Closure, ExcVal)) or not z3.is_expr(v) or z3.is_bool(v):
            return {"immutable"}
        if z3.is_const(v) and v.decl().kind() == z3.Z3_OP_UNINTERPRETED:
            n = v.decl().name()
            if n in ("nil_list", "nil_dict", "nil_set", "nil_tuple"):
                return {"fresh"}
            return set(self.leaf.get(n, {"immutable"}))
        n = v.decl().name()
        if n in ("list_app", "dict_set", "dict_del", "dict_discard", "list_cat", "dict_update", "set_add", "list_insert", "list_remove", "dict_setdefault",
                 "py_or"):
            return self.prov(v.arg(0))
        if n == "DEEPCOPY_MEMO":
            # sub-objects named by the memo are shared: the copy may alias whatever the original or the memo reaches
            out = {("~" + r.lstrip("~")) if r not in ("fresh", "immutable") else r for r in self.prov(v.arg(0))}
            out |= {(r + "[]") for r in self.prov(v.arg(1)) if r not in ("fresh", "immutable")}
            return out
        if n == "SHALLOWCOPY":
            # a new object whose fields alias the original's
            return {("~" + r.lstrip("~")) if r not in ("fresh", "immutable") else r for r in self.prov(v.arg(0))}
        if n.startswith("attr_"):
            if n in IMMUTABLE_HEADS:
                return {"immutable"}
            return {(r.lstrip("~") + "." + n[5:]) if r not in ("fresh", "immutable") else r for r in self.prov(v.arg(0))}
        if n in ("getitem", "dict_get", "dict_get_default") or n.startswith("m_"):
            if n in IMMUTABLE_HEADS:
                return {"immutable"}
            return {(r + "[]") if r not in ("fresh", "immutable") else r for r in self.prov(v.arg(0))}
        if n in ("py_enumerate", "dict_items", "dict_values", "dict_keys") or n.startswith("py_zip"):
            # views / tuples over existing containers: their components are the containers' own elements
            out = set()
            for a in v.children():
                out |= self.prov(a)
            return (out - {"immutable", "fresh"}) or {"fresh"}
        if n in FRESH_HEADS or n.startswith(("NEW_", "py_range", "np_reshape", "CALLV0", "nx_")):
            return {"fresh"}
        if n.endswith("!ret"):
            c = self.ctx.contracts.get(n[:-4])
            if c is not None and c.d.get("fresh_result", True):
                return {"fresh"}
            return {"fresh"}
        if n == "If":
            return self.prov(v.arg(1)) | self.prov(v.arg(2))
        if n in IMMUTABLE_HEADS or n.endswith(("!exc", "_msg")) or n.startswith(("py_format", "isinst_", "is_", "py_", "re_", "CALLV", "SYMBOL", "LAMBDIFY", "sym_",
                                                                              "PATH_", "np_is", "np_all", "np_item", "EXPR_TEXT", "json_", "str_", "ADD", "SUB",
                                                                              "MUL", "DIV", "NEG", "POW", "RECIP", "FN_", "ELEM", "COMP", "CFLAST", "int_of", "tag")):
            return {"immutable"}
        if "!post!" in n:
            # a component after a call under contract: the same object as before the call (updated in place or replaced by the callee's own)
            comp = n.split("!post!", 1)[1]
            if comp.startswith("self."):
                return {(r.lstrip("~") + comp[4:]) if r not in ("fresh", "immutable") else r for r in (self.prov(v.arg(0)) if v.num_args() else {"fresh"})}
            return {"global." + comp}
        if n.startswith("meth_"):
            return self.prov(v.arg(0))          # the receiver after a mutating method: the same object
        if n == "np_ndindex" or n.startswith("Command_"):
            return {"fresh"}
        # a head this engine does not know: its result may be (or contain) any of its arguments
        out = set()
        for a in v.children():
            if not z3.is_bool(a) and not z3.is_int(a):
                out |= self.prov(a)
        self.unknown_heads.add(n)
        return (out - {"immutable", "fresh"}) or {"immutable"}

    def nonlocal_regions(self, v):
        return {r for r in self.prov(v) if r not in ("fresh", "immutable")}

    def allowed(self, region):
        for m in self.spec.get("modifies", []):
            if region == m or region.startswith(m + ".") or region.startswith(m + "["):
                return True
        return False

    def record_write(self, base_value, p, what, node):
        for r in self.nonlocal_regions(base_value):
            if not self.allowed(r):
                self.findings.append(("frame", getattr(node, "lineno", None), "%s writes into %s" % (what, r), list(p.conds)))

    def record_store(self, container_value, stored, p, what, node):
        """aliasing: an object owned by a protected region stored into an output region"""
        outs = self.spec.get("outputs", [])
        prot = list(self.spec.get("independent_of", []))
        # "independent_of_mutable": the object itself may be handed on while it is immutable (numbers, strings, symbols); once a test on the
        # path says it is a list / array / dict / set, handing it on is aliasing
        mprot = [m for m in self.spec.get("independent_of_mutable", []) if self.known_mutable(stored, p)]
        prot += [m + "!" for m in mprot]
        if not prot:
            return
        dest = self.nonlocal_regions(container_value) if container_value is not None else {"return"}
        if not any(d == "return" or any(d == o or d.startswith(o + ".") or d.startswith(o + "[") for o in outs) for d in dest):
            return
        for r in self.stored_regions(stored):
            for pr in prot:
                exact = pr.endswith("!")
                prr = pr.rstrip("!")
                r = r.lstrip("~")
                if (r == prr) if exact else (r == prr or r.startswith(prr + ".") or r.startswith(prr + "[")):
                    self.findings.append(("alias", getattr(node, "lineno", None), "%s stores an object of %s into %s" % (what, r, "/".join(sorted(dest))),
                                          list(p.conds)))

    MUTABLE_KINDS = ("list", "ndarray", "np.ndarray", "dict", "set")

    def known_mutable(self, v, p):
        """the path says the object is a list / array / dict / set (an isinstance test that holds here)"""
        if isinstance(v, Tup) or not z3.is_expr(v):
            return False
        for c in p.conds:
            if z3.is_app(c) and c.num_args() == 1 and c.decl().name().startswith("isinst_") and c.decl().name()[7:] in self.MUTABLE_KINDS and c.arg(0).eq(v):
                return True
        return False

    def stored_regions(self, v):
        if isinstance(v, Tup):
            out = set()
            for it in v.items:
                out |= self.stored_regions(it)
            return out
        if not z3.is_expr(v) or z3.is_bool(v):
            return set()
        n = v.decl().name() if v.num_args() else ""
        if n in ("list_app", "dict_set", "list_cat", "dict_update", "set_add"):
            out = self.stored_regions(v.arg(0)) if self.prov(v.arg(0)) != {"fresh"} else set()
            for i in range(1, v.num_args()):
                out |= self.stored_regions(v.arg(i))
            out |= self.stored_regions(v.arg(0))
            return out
        return self.nonlocal_regions(v)

    # ---------------------------------------------------------------------------------------------- order taint
    def okind(self, v, depth=0):
        """'set'  : iterating this collection yields an arbitrary order (a set: free_symbols, mode / parameter sets, set algebra)
           'seq'  : an ORDERED value (list, tuple, string, dict) whose order was obtained by iterating a set
           None   : neither"""
        if isinstance(v, Tup) or not z3.is_expr(v) or z3.is_bool(v) or depth > 12:
            return None
        if z3.is_const(v):
            nm = v.decl().name()
            return "seq" if nm in self.unordered_consts else ("set" if nm in self.set_consts or nm == "nil_set" else None)
        n = v.decl().name()
        if n in SET_SOURCES:
            return "set"
        if n in ("py_sub", "py_or", "py_and") and any(self.okind(a, depth + 1) == "set" for a in v.children()):
            return "set"
        if n in ("py_len",) or n.startswith("py_sorted"):
            return None
        if n in ("list_of", "tuple_of", "py_enumerate", "list_app", "list_cat", "py_slice", "dict_items", "dict_keys", "dict_values", "dict_of",
                 "py_map", "py_filter", "py_reversed") or n.startswith("py_zip"):
            return "seq" if any(self.okind(a, depth + 1) for a in v.children()) else None
        return None

    def unordered(self, v, depth=0):
        return self.okind(v) is not None

    def order_sink(self, v, what, node, p, kinds=("seq",)):
        if self.okind(v) in kinds:
            name = getattr(node, "lineno", None)
            self.findings.append(("order", name, "%s consumes a sequence whose order comes from iterating a set: %s" % (what, str(v)[:160].replace("\n", " ")),
                                  list(p.conds)))

    def compare(self, e, p):
        if len(e.ops) == 1 and isinstance(e.ops[0], (ast.Eq, ast.NotEq, ast.Lt, ast.Gt, ast.LtE, ast.GtE)):
            try:
                for (l, r), p2 in self.evlist([e.left, e.comparators[0]], p):
                    for side in (l, r):
                        if z3.is_expr(side) and not z3.is_bool(side):
                            self.order_sink(side, "a comparison", e, p2)
            except Unsupported:
                pass
        return super().compare(e, p)

    # ---------------------------------------------------------------------------------------------- intercepted writes
    def assign(self, tgt, v, p):
        if isinstance(tgt, ast.Subscript):
            l = self.loc(tgt.value, p)
            if l is not None:
                base = l.get(p)
                if base is not None:
                    self.record_write(asV(base) if not isinstance(base, Tup) else base, p, "item assignment", tgt)
                    self.record_store(asV(base) if not isinstance(base, Tup) else base, v, p, "item assignment", tgt)
        elif isinstance(tgt, ast.Attribute):
            objs = self.ev(tgt.value, p)
            if objs:
                o = objs[0][0]
                field = self.ctx.field_of(tgt.attr)
                for r in self.nonlocal_regions(o):
                    if r.startswith("~"):
                        continue                       # attribute of a freshly made (shallow) copy: the object itself is new
                    rr = r + "." + field
                    if not self.allowed(rr):
                        self.findings.append(("frame", tgt.lineno, "attribute assignment writes %s" % rr, list(p.conds)))
                self.record_store(app("attr_" + field, asV(o)), v, p, "attribute assignment", tgt)
                if z3.is_expr(v) and not z3.is_bool(v) and tgt.attr not in self.order_free:
                    self.order_sink(v, "stored field ." + tgt.attr, tgt, p)
        return super().assign(tgt, v, p)

    def augassign(self, s, p):
        l = self.loc(s.target, p)
        if l is not None and not isinstance(s.target, ast.Name):
            base = l.get(p)
            if base is not None and not isinstance(base, (PyC, Tup)):
                self.record_write(asV(base), p, "augmented assignment", s)
        elif l is not None:
            base = l.get(p)
            if base is not None and not isinstance(base, (PyC, Tup)):
                self.record_write(asV(base), p, "augmented assignment", s)
        return super().augassign(s, p)

    def delete(self, tgt, p):
        if isinstance(tgt, ast.Subscript):
            l = self.loc(tgt.value, p)
            if l is not None and l.get(p) is not None:
                self.record_write(asV(l.get(p)), p, "del", tgt)
        return super().delete(tgt, p)

    def stmt(self, s, p):
        if isinstance(s, ast.Return) and s.value is not None:
            for v, p2 in self.ev(s.value, p):
                self.record_store(None, v, p2, "return", s)
                if self.spec.get("deterministic"):
                    for item in (v.items if isinstance(v, Tup) else [v]):
                        if z3.is_expr(item) and not z3.is_bool(item):
                            self.order_sink(item, "the returned value", s, p2)
        return super().stmt(s, p)

    # ---------------------------------------------------------------------------------------------- loops: provenance fixpoint
    def summarised_loop(self, s, xs, p):
        rec = LoopRecord(0)
        rec.node, rec.iter = s, xs
        written = self.dry_written(s, xs, p)
        provs = {}
        taints = {}
        for k in written:
            try:
                v = self.loc_by_key(k).get(p)
            except KeyError:
                v = None
            provs[k] = self.prov(v) if v is not None else set()
            taints[k] = bool(v is not None and z3.is_expr(v) and not z3.is_bool(v) and self.okind(v) == "seq")
        loop_unordered = self.unordered(xs)
        srcs = {}
        setlike = set()
        for k in written:
            try:
                v0 = self.loc_by_key(k).get(p)
            except KeyError:
                v0 = None
            if v0 is not None and z3.is_expr(v0) and not z3.is_bool(v0) and self.okind(v0) == "set":
                setlike.add(k)
        for rnd in range(4):
            q = p.copy()
            consts = self.havoc(q, written, "fcin")
            for k, c in consts.items():
                self.leaf[c.decl().name()] = provs[k] or {"immutable"}
                if taints[k]:
                    self.unordered_consts.add(c.decl().name())
                if k in setlike:
                    self.set_consts.add(c.decl().name())
            elem = fresh("felem")
            self.leaf[elem.decl().name()] = {(r + "[]") if r not in ("fresh", "immutable") else r for r in self.prov(xs)}
            n_find = len(self.findings)
            body = self.run_body(s, elem, q)
            new_p, new_t = dict(provs), dict(taints)
            for o in body:
                if o.kind != "next":
                    continue
                for k in written:
                    try:
                        v = self.loc_by_key(k).get(o.st)
                    except KeyError:
                        v = None
                    if v is None:
                        continue
                    new_p[k] = new_p[k] | self.prov(v)
                    if z3.is_expr(v) and not z3.is_bool(v):
                        # order taint: a fold over a set-ordered sequence that rebinds a carried list / string from its previous value
                        if self.okind(v) == "seq" or (loop_unordered and self.order_sensitive_update(v, consts.get(k))):
                            new_t[k] = True
                            srcs.setdefault(k, xs.sexpr())
            if new_p == provs and new_t == taints:
                break
            provs, taints = new_p, new_t
            del self.findings[n_find:]             # findings of a non-final round are re-derived in the next one
        q = p.copy()
        consts = self.havoc(q, written, "fcout")
        for k, c in consts.items():
            self.leaf[c.decl().name()] = provs[k] or {"immutable"}
            if k in setlike:
                self.set_consts.add(c.decl().name())
            if taints[k]:
                self.unordered_consts.add(c.decl().name())
                self.order_source[c.decl().name()] = srcs.get(k, "")
                if not k.startswith("local:"):
                    # program / table state whose content order comes from iterating a set
                    self.findings.append(("order", s.lineno, "state %s is built in the iteration order of a set" % k.split(":", 1)[1][-60:], list(p.conds)))
        for o in body:
            if o.kind == "ret":
                self.ret_sink.append(Outcome("ret", q, value=o.value))
        return [q]

    def order_sensitive_update(self, v, cin):
        """v: value of a carried location after one iteration; order matters if it is built from its previous value by a
        non-commutative constructor (list append/insert/concatenation, string replace/format/concatenation)"""
        if cin is None or not z3.is_expr(v):
            return False
        n = v.decl().name() if v.num_args() else ""
        if n in ("list_app", "list_cat", "list_insert", "py_replace", "py_add", "re_sub", "dict_set") or n.startswith("py_format"):
            return any(self.mentions(a, cin) for a in v.children())
        return False

    def mentions(self, t, c):
        if z3.is_const(t):
            return t.decl().name() == c.decl().name()
        return any(self.mentions(a, c) for a in t.children())


def tolerant_call(ctx_call):
    """unknown calls are treated as pure (recorded), so that frame analysis needs no functional contract"""
    def call(ex, e, p):
        if not isinstance(ex, FrameExec):
            return ctx_call(ex, e, p)
        f = e.func
        # order-sensitive consumers
        try:
            if isinstance(f, ast.Name) and f.id in ("zip",):
                for (args, kwargs, starkw), p2 in ex.ctx.evargs(ex, e, p):
                    srcs = [asV(a).sexpr() for a in args if ex.unordered(asV(a))]
                    if srcs and not (len(srcs) == len(args) and len(set(srcs)) == 1):
                        ex.order_sink(asV([a for a in args if ex.unordered(asV(a))][0]), "zip()", e, p2, kinds=("seq", "set"))
            if isinstance(f, ast.Attribute) and f.attr == "join":
                for (args, kwargs, starkw), p2 in ex.ctx.evargs(ex, e, p):
                    if args:
                        ex.order_sink(asV(args[0]), "str.join()", e, p2, kinds=("seq", "set"))
            if any(isinstance(a, ast.Starred) for a in e.args):
                callee = None
                if isinstance(f, ast.Name):
                    try:
                        callee = asV(ex.ev(f, p)[0][0])
                    except (Unsupported, TypeError, IndexError):
                        callee = None
                for a in e.args:
                    if isinstance(a, ast.Starred):
                        for v, p2 in ex.ev(a.value, p):
                            vv = asV(v)
                            # documented pairing: f = lambdify(L, e) called with values enumerated from the same L
                            if callee is not None and z3.is_app(callee) and callee.decl().name() == "LAMBDIFY" and z3.is_const(vv) and \
                               ex.order_source.get(vv.decl().name()) == callee.arg(0).sexpr():
                                continue
                            ex.order_sink(vv, "positional unpacking *args", e, p2, kinds=("seq", "set"))
        except Unsupported:
            pass
        # writes through mutating methods
        if isinstance(f, ast.Attribute) and f.attr in MUTATORS:
            try:
                l = ex.loc(f.value, p)
            except Unsupported:
                l = None
            if l is not None and l.get(p) is not None:
                base = l.get(p)
                if not isinstance(base, (PyC, ClassRef)):
                    bv = base if isinstance(base, Tup) else asV(base)
                    ex.record_write(bv, p, "method .%s()" % f.attr, e)
                    try:
                        for (args, kwargs, starkw), p2 in ex.ctx.evargs(ex, e, p):
                            for a in args:
                                if f.attr in ("update", "extend") and z3.is_expr(asV(a)):
                                    a = app("getitem", asV(a), fresh("anykey"))       # the elements are stored, not the container
                                ex.record_store(bv, a, p2, "method .%s()" % f.attr, e)
                    except Unsupported:
                        pass
        try:
            return ctx_call(ex, e, p)
        except Unsupported as u:
            ex.notes.append("line %s: call `%s` treated as pure and fresh (%s)" % (getattr(e, "lineno", "?"), ast.unparse(e.func)[:60], str(u)[:80]))
            res = []
            try:
                combos = ex.ctx.evargs(ex, e, p)
            except Unsupported:
                combos = [(([], {}, None), p)]
            for (args, kwargs, starkw), p2 in combos:
                res.append((app("FRESH", fresh("opaque")), p2))
            return res
    return call
