"""python3-vt -m pyvc.frames_run --prop C13 -> one JSON section: frame, aliasing and order-independence obligations."""
import argparse
import ast
import os
import sys
import time
import traceback

import z3

from vlib import common as C
from . import lib
from .context import Ctx
from .frames import FrameExec, tolerant_call
from .sym import St, Unsupported
from .terms import V


def load_frames():
    tree = ast.parse(open(os.path.join(C.VERIF, "contracts", "frames.py")).read())
    env = {}
    for n in tree.body:
        if isinstance(n, ast.Assign) and isinstance(n.targets[0], ast.Name):
            if n.targets[0].id == "P":
                env["P"] = ast.literal_eval(n.value)
            elif n.targets[0].id == "FRAMES":
                src = ast.unparse(n.value)
                return eval(src, {"__builtins__": {}}, {"P": env["P"]})      # literals and the string constant P only
    raise RuntimeError("FRAMES not found")


MUTABLE_CALLS = ("dict", "list", "set", "defaultdict", "OrderedDict", "deque", "bytearray")


def _is_mutable_expr(v):
    return isinstance(v, (ast.Dict, ast.List, ast.Set, ast.ListComp, ast.DictComp, ast.SetComp)) or \
        (isinstance(v, ast.Call) and isinstance(v.func, ast.Name) and v.func.id in MUTABLE_CALLS)


SCAN_PROPS = ["C%02d" % i for i in range(1, 20) if i != 14]       # shared hidden state can break any property about behaviour
PROCESS_STATE_CALLS = {"np.seterr", "np.seterrcall", "np.setbufsize", "np.set_printoptions", "np.random.seed", "random.seed", "os.chdir", "os.umask", "os.putenv",
                       "os.unsetenv", "sys.setrecursionlimit", "sys.setswitchinterval", "locale.setlocale", "warnings.simplefilter", "warnings.filterwarnings",
                       "warnings.resetwarnings", "sym.init_printing", "sympy.init_printing", "decimal.setcontext", "gc.disable", "gc.enable", "gc.set_threshold",
                       "os.environ.update", "os.environ.setdefault", "os.environ.pop", "sys.path.append", "sys.path.insert", "importlib.reload",
                       "np.seterrobj", "atexit.register", "signal.signal", "threading.setprofile", "sys.settrace", "sys.setprofile"}
PROCESS_STATE_TAILS = {"seterr", "seterrcall", "set_printoptions", "setrecursionlimit", "setlocale", "chdir"}
COPY_PROTOCOL = {"__deepcopy__", "__copy__", "__reduce__", "__reduce_ex__", "__getstate__", "__setstate__", "__getnewargs__", "__getnewargs_ex__"}


def closed_ownership_scan(section):
    """closed obligations (C12/C13): no mutable default argument and no class-level mutable attribute in the hand-written modules --
    either would be one object shared by every call / every instance / every load of the process"""
    for rel in ("auxiliary.py", "listener.py", "program.py", "utils.py", "error.py", "__init__.py"):
        path = os.path.join(C.PKG, rel)
        t1 = time.time()
        try:
            tree = ast.parse(open(path, newline=None).read())
        except (OSError, SyntaxError) as e:
            section["errors"].append("cannot parse %s: %s" % (path, e))
            continue
        sites = []
        for n in ast.walk(tree):
            if isinstance(n, (ast.FunctionDef, ast.Lambda)):
                args = n.args
                for d in list(args.defaults) + [d for d in args.kw_defaults if d is not None]:
                    if _is_mutable_expr(d):
                        sites.append("line %d: mutable default argument in %s()" % (d.lineno, getattr(n, "name", "lambda")))
            if isinstance(n, ast.ClassDef):
                for b in n.body:
                    if isinstance(b, ast.Assign) and _is_mutable_expr(b.value):
                        sites.append("line %d: class-level mutable attribute %s.%s" % (b.lineno, n.name, ", ".join(ast.unparse(t) for t in b.targets)))
        rec = {"name": "ownership/no-shared-mutable-defaults:%s" % rel, "status": C.DISCHARGED if not sites else C.FAILED, "backend": "closed-eval",
               "time_s": round(time.time() - t1, 4), "goal": "no mutable default argument and no class-level mutable attribute in blackbird/%s" % rel,
               "props": SCAN_PROPS, "witness_families": ["history", "readonly_ops"]}
        if sites:
            rec["detail"] = "; ".join(sites[:8])
            rec["counterexample"] = {"sites": sites[:20]}
        section["obligations"].append(rec)
        # process-wide state: a call that changes a setting of the interpreter / NumPy / the OS process outlives the load that made it
        psites = []
        for n in ast.walk(tree):
            if isinstance(n, ast.Call):
                nm = ast.unparse(n.func)
                if nm in PROCESS_STATE_CALLS or nm.split(".")[-1] in PROCESS_STATE_TAILS:
                    psites.append("line %d: %s(...) changes process-wide state" % (n.lineno, nm))
            if isinstance(n, (ast.Assign, ast.AugAssign, ast.Delete)):
                for t in (n.targets if isinstance(n, (ast.Assign, ast.Delete)) else [n.target]):
                    tt = ast.unparse(t)
                    if tt.startswith(("os.environ", "sys.path", "sys.modules", "sys.flags", "np.random", "random.")):
                        psites.append("line %d: assignment to %s changes process-wide state" % (n.lineno, tt))
            if isinstance(n, ast.With):
                pass
        rec = {"name": "ownership/no-process-state-writes:%s" % rel, "status": C.DISCHARGED if not psites else C.FAILED, "backend": "closed-eval", "time_s": 0,
               "goal": "blackbird/%s calls nothing that changes interpreter / NumPy / OS process settings (np.seterr, os.chdir, warnings filters, "
                       "random seeds, locale, recursion limit, os.environ, sys.path ...)" % rel, "props": SCAN_PROPS, "witness_families": ["history", "hashseed"]}
        if psites:
            rec["detail"] = "; ".join(psites[:8])
            rec["counterexample"] = {"sites": psites[:20]}
        section["obligations"].append(rec)
        # the copy protocol: PyVC and this engine read copy.deepcopy as "an equal structure sharing no mutable cell" (A-cpython); a class that
        # customises copying or pickling can make it share
        csites = []
        for n in ast.walk(tree):
            if isinstance(n, ast.ClassDef):
                for b in n.body:
                    if isinstance(b, ast.FunctionDef) and b.name in COPY_PROTOCOL:
                        csites.append("line %d: %s.%s customises copying" % (b.lineno, n.name, b.name))
                    if isinstance(b, ast.Assign) and any(isinstance(t, ast.Name) and t.id in COPY_PROTOCOL | {"__slots__"} for t in b.targets) \
                       and any(isinstance(t, ast.Name) and t.id in COPY_PROTOCOL for t in b.targets):
                        csites.append("line %d: %s.%s customises copying" % (b.lineno, n.name, ast.unparse(b.targets[0])))
            if isinstance(n, ast.Call) and ast.unparse(n.func) in ("copyreg.pickle", "copy._deepcopy_dispatch.__setitem__"):
                csites.append("line %d: %s registers a copy function" % (n.lineno, ast.unparse(n.func)))
            if isinstance(n, ast.Subscript) and isinstance(n.ctx, ast.Store) and ast.unparse(n.value) in ("copy._deepcopy_dispatch", "copy._copy_dispatch", "copyreg.dispatch_table"):
                csites.append("line %d: %s registers a copy function" % (n.lineno, ast.unparse(n.value)))
        rec = {"name": "ownership/default-copy-protocol:%s" % rel, "status": C.DISCHARGED if not csites else C.FAILED, "backend": "closed-eval", "time_s": 0,
               "goal": "no class of blackbird/%s defines __deepcopy__ / __copy__ / __reduce__ / __reduce_ex__ / __getstate__ / __setstate__ / __getnewargs__ and nothing registers a "
                       "copy function: copy.deepcopy copies every mutable cell" % rel, "props": ["C13", "C04", "C07", "C17", "C12"],
               "witness_families": ["readonly_ops", "template_subst"]}
        if csites:
            rec["detail"] = "; ".join(csites[:8])
            rec["counterexample"] = {"sites": csites[:20]}
        section["obligations"].append(rec)


def closed_coverage_scan(section, ctx):
    """closed obligation per hand-written module: every method of every class is under contract, or is reached from a function under contract as
    `self.m(..)` / `Class.m(..)` (then it is a helper whose body is part of that caller's obligations). A method that is neither is behaviour nobody
    decides: the library may call it by name (an overridden `doprint`, a new `enterX` / `exitX` callback of the parse-tree walker, a dunder method)
    and the library MODEL of that name would silently keep describing the base class. Reported as unreachable-by-verifier (the run is then
    undecided unless the bounded layer finds a failing input), never as a violation by itself."""
    by_mod = {}
    for c in ctx.contracts.values():
        by_mod.setdefault(os.path.basename(c.sidecar.module), set()).add(c.qual)
    for rel in ("auxiliary.py", "listener.py", "program.py", "utils.py", "error.py", "__init__.py"):
        try:
            tree = ast.parse(open(os.path.join(C.PKG, rel), newline=None).read())
        except (OSError, SyntaxError):
            continue                                   # reported by the ownership scan
        quals = by_mod.get(rel, set())
        funcs = {}                                      # qual -> FunctionDef
        dups = []
        for n in tree.body:
            if isinstance(n, ast.FunctionDef):
                funcs[n.name] = n
            elif isinstance(n, ast.ClassDef):
                for b in n.body:
                    if isinstance(b, ast.FunctionDef):
                        if n.name + "." + b.name in funcs:
                            dups.append("%s.%s (second definition at line %d: setter / overload)" % (n.name, b.name, b.lineno))
                        funcs[n.name + "." + b.name] = b
        covered = {q for q in funcs if q in quals}
        changed = True
        while changed:
            changed = False
            for q in list(covered):
                cls = q.split(".")[0] if "." in q else None
                for m in ast.walk(funcs[q]):
                    tgt = None
                    if isinstance(m, ast.Call) and isinstance(m.func, ast.Name) and m.func.id in funcs:
                        tgt = m.func.id
                    elif isinstance(m, ast.Attribute) and isinstance(m.value, ast.Name):
                        if m.value.id in ("self", "cls") and cls and (cls + "." + m.attr) in funcs:
                            tgt = cls + "." + m.attr
                        elif (m.value.id + "." + m.attr) in funcs:
                            tgt = m.value.id + "." + m.attr
                    elif isinstance(m, ast.Name) and m.id in funcs and isinstance(m.ctx, ast.Load):
                        tgt = m.id                      # a helper handed on as a value (key=..., node_match=...)
                    if tgt and tgt not in covered:
                        covered.add(tgt)
                        changed = True
        loose = sorted(q for q in funcs if "." in q and q not in covered) + dups
        rec = {"name": "coverage/every-method-decided:%s" % rel, "status": C.DISCHARGED if not loose else C.UNREACHABLE, "backend": "closed-eval", "time_s": 0,
               "goal": "every method of every class of blackbird/%s is under contract or is a helper reached from a function under contract "
                       "(%d functions and methods, %d under contract)" % (rel, len(funcs), len([q for q in funcs if q in quals])),
               "props": SCAN_PROPS, "witness_families": ["spec_conformance", "roundtrip", "load_denote"]}
        if loose:
            rec["detail"] = "no contract and not reached from a function under contract: %s -- the library can call a method by name (overrides, " \
                            "walker callbacks, dunder methods); nobody decides what it does" % ", ".join(loose[:8])
            rec["counterexample"] = {"methods": loose[:20]}
        section["obligations"].append(rec)


def main():
    ap = argparse.ArgumentParser()
    ap.add_argument("--prop", required=True)
    ap.add_argument("--tier", default="quick")
    ap.add_argument("--functions", default="")
    a = ap.parse_args()
    t0 = time.time()
    section = {"engine": "frames", "obligations": [], "bounded": [], "errors": [], "notes": [], "functions": [], "assumptions": [], "trusted": [], "extra": {}}
    try:
        ctx = Ctx(C.REPO, os.path.join(C.VERIF, "contracts"))
        frames = load_frames()
    except Exception:
        section["errors"].append("cannot load contracts: " + traceback.format_exc()[-2000:])
        C.emit_section(section)
        return 0
    ctx.call = tolerant_call(ctx.call)
    want = set(a.functions.split(",")) if a.functions else None
    for name, spec in sorted(frames.items()):
        if want is not None:
            if name not in want:
                continue
        elif a.prop != "ALL" and a.prop not in spec["props"]:
            continue
        t1 = time.time()
        fdef, path = ctx.extract(spec["module"], spec["qual"])
        clauses = ["frame"] + (["alias"] if spec.get("independent_of") or spec.get("independent_of_mutable") else []) + (["order"] if (spec.get("deterministic") or "C19" in spec["props"]) else [])
        if fdef is None:
            for cl in clauses:
                section["obligations"].append({"name": "%s/%s" % (name, cl), "status": C.UNREACHABLE, "backend": "none", "detail": "function %s not found in %s"
                                               % (spec["qual"], spec["module"]), "props": spec["props"], "witness_families": spec.get("families", [])})
            continue
        rp = [x.arg for x in fdef.args.args]
        if rp != spec["params"] and len(rp) == len(spec["params"]):
            from .run import rename_params
            fr = rename_params(fdef, rp, spec["params"])      # clauses name parameters: renamed parameters are read under the contract's names
            if fr is not None:
                fdef = fr
        section["functions"].append({"qualname": "%s:%s" % (spec["module"], spec["qual"]), "file": path, "sha256": C.sha256_file(path),
                                     "lines": [fdef.lineno, fdef.end_lineno], "dropped": ["docstrings", "annotations", "comments"], "contract_mode": "frame",
                                     "props": spec["props"], "clauses": {k: spec.get(k) for k in ("modifies", "outputs", "independent_of", "independent_of_mutable", "deterministic", "order_free")}})
        ctx.cur_globals = ["_VAR", "_PARAMS"] if "listener" in spec["module"] or "auxiliary" in spec["module"] else []
        ex = FrameExec(ctx, name, spec)
        st = St()
        args = {}
        for nm in [x.arg for x in fdef.args.args] + ([fdef.args.kwarg.arg] if fdef.args.kwarg else []):
            c = z3.Const("arg_" + nm, V)
            ex.leaf["arg_" + nm] = {"param." + nm}
            args[nm] = c
        for g in ctx.cur_globals:
            c = z3.Const(g + "!0", V)
            ex.leaf[g + "!0"] = {"global." + g}
            st.glob[g] = c
        for nm in spec.get("order_free_locals", []):
            pass
        try:
            outs = ex.run_function(fdef, args, st)
        except Unsupported as u:
            for cl in clauses:
                section["obligations"].append({"name": "%s/%s" % (name, cl), "status": C.UNREACHABLE, "backend": "none", "detail": "outside the supported subset: %s" % u,
                                               "props": spec["props"], "witness_families": spec.get("families", [])})
            continue
        except Exception:
            section["errors"].append("frame engine crashed on %s: %s" % (name, traceback.format_exc()[-2500:]))
            continue
        by = {cl: [] for cl in clauses}
        for kind, line, text, conds in ex.findings:
            if kind not in by:
                if kind == "order" and not (spec.get("deterministic") or "C19" in spec["props"]):
                    continue
                by.setdefault(kind, [])
            if ctx.feasible(conds):
                by[kind].append((line, text))
        for cl in clauses:
            fs = sorted(set(by.get(cl, [])), key=lambda x: (x[0] or 0, x[1]))
            goal = {"frame": "writes only into %s" % (spec.get("modifies") or "nothing"),
                    "alias": "no object of %s (nor, once known to be a list / array / dict / set, %s) is stored into %s"
                             % (spec.get("independent_of", []), spec.get("independent_of_mutable", []), spec.get("outputs", ["return"])),
                    "order": "no order-sensitive consumer is fed by the iteration order of a set (documented freedom: %s)" % spec.get("order_free", [])}[cl]
            rec = {"name": "%s/%s" % (name, cl), "status": C.DISCHARGED if not fs else C.FAILED, "backend": "provenance+z3", "time_s": round(time.time() - t1, 3),
                   "goal": goal, "props": spec["props"], "witness_families": spec.get("families", [])}
            if fs:
                rec["detail"] = "; ".join("line %s: %s" % f for f in fs[:6])
                rec["counterexample"] = {"sites": [{"line": f[0], "what": f[1]} for f in fs[:10]]}
            section["obligations"].append(rec)
        section["notes"].extend("%s: %s" % (name, n) for n in sorted(set(ex.notes))[:12])
        if ex.unknown_heads:
            section["notes"].append("%s: term heads without a provenance rule (result may alias any argument): %s" % (name, ", ".join(sorted(ex.unknown_heads))[:400]))
    if want is None:
        sec2 = {"obligations": [], "errors": section["errors"]}
        closed_ownership_scan(sec2)
        closed_coverage_scan(sec2, ctx)
        section["obligations"].extend(o for o in sec2["obligations"] if a.prop == "ALL" or a.prop in o["props"])
    section["trusted"].append("frame engine: provenance of symbolic terms; calls without a contract are treated as pure and fresh (listed in notes); "
                              "distinct access paths denote distinct objects")
    section["assumptions"].append("A-sympy/A-cpython: free_symbols and program mode/parameter sets are the only unordered collections in scope; sorted()/set()/len()/dict "
                                  "lookups and keyword calls do not depend on iteration order")
    section["extra"]["wall_s"] = round(time.time() - t0, 2)
    C.emit_section(section)
    return 0


if __name__ == "__main__":
    sys.exit(main())
