"""Assumed contracts of library entry points (NumPy, SymPy, CPython builtins, antlr4, os.path, copy): DESIGN 2.3.

Each handler turns a call into terms of the value universe and forks the failure outcomes the library really has.
Every handler used in a run is recorded (ctx.assumed) and listed in the evidence under trusted_base.
Handlers: f(ex, e, args, kwargs, p) -> list of (value, St)
"""
import z3

from .terms import (V, PyC, Tup, ClassRef, Closure, ExcVal, asV, tobool, app, pred, code, fn, NONE, TRUE, FALSE, NIL_LIST, NIL_DICT, NIL_SET,
                    IntV, StrV, EXC_CODE, truthy, I)
from .sym import Unsupported

FUNCS = {}
METHODS = {}
ASSUMED_TEXT = {}


def assumed(aid, text):
    ASSUMED_TEXT[aid] = text


def lib(name, aid=None):
    def deco(f):
        FUNCS[name] = (f, aid)
        return f
    return deco


def method(name, aid=None):
    def deco(f):
        METHODS[name] = (f, aid)
        return f
    return deco


def partial(ex, p, e, name, *args):
    """a partial primitive: forks the exceptional outcome `name!exc(args) != 0`, continues with == 0"""
    vs = [asV(a) for a in args]
    pk = ex.may_raise(p, code(name, *vs), app(name + "_msg", *vs), getattr(e, "lineno", None))
    if pk is not None:
        return [(app(name, *vs), pk)]
    return []


def total(name):
    def h(ex, e, args, kwargs, p):
        extra = [asV(v) for k, v in sorted(kwargs.items())]
        return [(app(name + ("".join("_" + k for k in sorted(kwargs))), *[asV(a) for a in args], *extra), p)]
    return h


def callname(e):
    import ast
    try:
        return ast.unparse(e.func)
    except Exception:
        return "call"


def only(e, args, kwargs, nmin, nmax=None, kw=()):
    """argument-shape guard of a handler: an argument the model would silently ignore makes two different calls one term (unsound),
    so every handler states the shapes it models -- between nmin and nmax positional arguments, keywords out of `kw` -- and anything
    else is Unsupported (never dropped)"""
    nmax = nmin if nmax is None else nmax
    bad = sorted(k for k in kwargs if k not in kw)
    if not (nmin <= len(args) <= nmax) or bad:
        raise Unsupported("%s with unexpected argument (%d positional%s; the model takes %s%s)"
                          % (callname(e), len(args), "".join(", %s=" % k for k in bad),
                             ("%d" % nmin) if nmin == nmax else ("%d..%d" % (nmin, nmax)), "".join(", %s=" % k for k in kw)), e)


def kwsfx(kwargs):
    """keywords folded into the function symbol: f(x, k=v) is the term f_k(x, v)"""
    return "".join("_" + k for k in sorted(kwargs))


def kwvals(kwargs):
    return [v for k, v in sorted(kwargs.items())]


# handlers that model a starred argument whose length is unknown (f(*seq)); for every other callee ctx.dispatch refuses that shape
STAR_OK_FUNCS = {"range"}
STAR_OK_METHODS = {"format"}


assumed("A-numpy-arith", "np.sum([x,y],axis=0)=ADD(x,y), np.prod([x,y],axis=0)=MUL(x,y) for scalars and SymPy operands; np.power(x,y)=POW(x,y) and raises "
                         "ValueError iff both operands are integer-kind and y<0; the 15 elementary ufuncs compute the named functions; results of +,-,*,** "
                         "on integer kinds are integer kinds")
assumed("A-numpy-array", "np.array(seq,dtype) casts element-wise (TypeError for complex->int/float, sequences of unequal length), reshape(r,-1) requires r|size, "
                         "flatten() is row-major, np.insert(a,i,x) inserts before index i of the flattened array, astype(object) keeps elements")
assumed("A-sympy", "Symbol(n) equality is by name; free_symbols is the set of symbols of an expression; lambdify(L,e)(**vals)=SUBST(e,vals) for any order of L; "
                   "positional call binds in the order of L; str(e) is deterministic")
assumed("A-cpython", "int()/float()/complex() on the token languages denote the literal's value (ValueError otherwise); str.format/str/repr per CPython; "
                     "dicts iterate in insertion order; copy.deepcopy returns an equal structure sharing no mutable cell; os.path.join/dirname POSIX semantics; "
                     "str(x), format(x, '') and '{}'.format(x) are one text (for NumPy scalars: with NumPy's default print options -- the bounded "
                     "family serialize_repr checks the serialiser under other options); xs.sort(..) leaves sorted(xs, ..) in xs; sys.exc_info() is total and "
                     "returns a 3-tuple whose components may each be None (a traceback has tb_lineno)")
assumed("A-class-hierarchy", "no object is an instance of two of str / list / tuple / dict / set / np.ndarray / RegRefTransform / sym.Expr, nor of one of them and a "
                            "number class; int, float, complex, np.integer, np.floating, np.complexfloating are pairwise disjoint except np.floating/float and "
                            "np.complexfloating/complex (NumPy scalars subclass the Python types); Symbol < Expr, np number classes < np.generic, bool < int")
assumed("A-antlr-walk", "ParseTreeWalker.walk(listener, tree) calls the listener's enter/exit handlers in depth-first order, enter before and exit after the "
                        "children, left to right; its effect on the listener and the module tables is the fold of the handler contracts (lean/Walk.lean)")
assumed("A-antlr-tree", "parse-tree accessors are pure observers of an immutable tree whose shape follows the grammar (getText, getChildren, typed child accessors, start/line/column)")


# ---------------------------------------------------------------------------------------------------------------------
# builtins

@lib("len", "A-cpython")
def _len(ex, e, args, kwargs, p):
    only(e, args, kwargs, 1)
    a = args[0]
    if isinstance(a, Tup):
        return [(PyC(len(a.items)), p)]
    if isinstance(a, PyC) and isinstance(a.v, str):
        return [(PyC(len(a.v)), p)]
    return [(app("py_len", asV(a)), p)]


@lib("str", "A-cpython")
def _str(ex, e, args, kwargs, p):
    from .terms import as_str_term
    only(e, args, kwargs, 1)                    # str(bytes, encoding, errors) decodes: not modelled
    a = args[0]
    if isinstance(a, PyC) and isinstance(a.v, str):
        return [(a, p)]
    return [(as_str_term(a), p)]


@lib("repr", "A-cpython")
def _repr(ex, e, args, kwargs, p):
    only(e, args, kwargs, 1)
    return [(app("py_repr", asV(args[0])), p)]


@lib("int", "A-cpython")
def _int(ex, e, args, kwargs, p):
    only(e, args, kwargs, 1, 2)
    if len(args) == 2:
        return partial(ex, p, e, "py_int_base", args[0], args[1])        # int(text, base): a different function of two arguments
    a = args[0]
    if z3.is_expr(a) and z3.is_app(a) and a.decl().kind() == z3.Z3_OP_ITE and a.arg(1).eq(TRUE) and a.arg(2).eq(FALSE):
        return [(IntV(z3.If(a.arg(0), 1, 0)), p)]                        # int(bool): 1 / 0, never raises
    if z3.is_expr(a) and z3.is_bool(a):
        return [(IntV(z3.If(a, 1, 0)), p)]
    return partial(ex, p, e, "py_int", a)


@lib("float", "A-cpython")
def _float(ex, e, args, kwargs, p):
    only(e, args, kwargs, 1)
    return partial(ex, p, e, "py_float", args[0])


@lib("complex", "A-cpython")
def _complex(ex, e, args, kwargs, p):
    only(e, args, kwargs, 1, 2)
    if len(args) == 2:
        return partial(ex, p, e, "py_complex_re_im", args[0], args[1])
    return partial(ex, p, e, "py_complex", args[0])


@lib("bool", "A-cpython")
def _bool(ex, e, args, kwargs, p):
    only(e, args, kwargs, 1)
    return [(tobool(args[0]), p)]


@lib("abs", "A-cpython")
def _abs(ex, e, args, kwargs, p):
    only(e, args, kwargs, 1)
    return [(app("ABS", asV(args[0])), p)]


@lib("set", "A-cpython")
def _set(ex, e, args, kwargs, p):
    only(e, args, kwargs, 0, 1)
    if not args:
        return [(NIL_SET, p)]
    return [(app("set_of", asV(args[0])), p)]


@lib("list", "A-cpython")
def _list(ex, e, args, kwargs, p):
    only(e, args, kwargs, 0, 1)
    if not args:
        return [(Tup([], "list"), p)]
    a = args[0]
    if isinstance(a, Tup):
        return [(Tup(a.items, "list"), p)]
    return [(app("list_of", asV(a)), p)]


@lib("tuple", "A-cpython")
def _tuple(ex, e, args, kwargs, p):
    only(e, args, kwargs, 0, 1)
    if not args:
        return [(Tup([], "tuple"), p)]
    a = args[0]
    if isinstance(a, Tup):
        return [(Tup(a.items, "tuple"), p)]
    return [(app("tuple_of", app("list_of", asV(a))), p)]


@lib("dict", "A-cpython")
def _dict(ex, e, args, kwargs, p):
    if not args and not kwargs:
        return [(NIL_DICT, p)]
    if len(args) == 1 and not kwargs:
        return [(app("dict_of", asV(args[0])), p)]
    if not args and kwargs and "__star__" not in kwargs:
        # dict(a=x, b=y): the display {"a": x, "b": y} (keywords keep their written order)
        t = NIL_DICT
        for k, v in kwargs.items():
            t = app("dict_set", t, StrV(k), asV(v))
        return [(t, p)]
    raise Unsupported("dict(...) form", e)


@lib("sorted", "A-cpython")
def _sorted(ex, e, args, kwargs, p):
    only(e, args, kwargs, 1, kw=("key", "reverse"))       # both keywords are part of the term
    extra = [asV(v) for k, v in sorted(kwargs.items())]
    return [(app("py_sorted" + "".join("_" + k for k in sorted(kwargs)), asV(args[0]), *extra), p)]


@lib("enumerate", "A-cpython")
def _enumerate(ex, e, args, kwargs, p):
    only(e, args, kwargs, 1)                    # enumerate(xs, start): not modelled (the frame engine knows py_enumerate as a view of xs)
    return [(app("py_enumerate", asV(args[0])), p)]


@lib("zip", "A-cpython")
def _zip(ex, e, args, kwargs, p):
    only(e, args, kwargs, 0, 99, kw=("strict",))
    return [(app("py_zip%d" % len(args) + kwsfx(kwargs), *[asV(a) for a in args], *[asV(v) for v in kwvals(kwargs)]), p)]


@lib("range", "A-cpython")
def _range(ex, e, args, kwargs, p):
    star = kwargs.pop("__star__", None)         # positions of starred arguments of unknown length (ctx.evargs)
    only(e, args, kwargs, 1, 3)
    if star is not None and not (len(args) == 1 and len(e.args) == 1):
        raise Unsupported("range with a starred argument next to others", e)
    if len(args) == 1 and not isinstance(args[0], (PyC, Tup)) and getattr(e, "args", None) and isinstance(e.args[0], ast_Starred()):
        # range(*seq): arity and element types decide failure
        return partial(ex, p, e, "py_range_star", args[0])
    return [(app("py_range%d" % len(args), *[asV(a) for a in args]), p)]


def ast_Starred():
    import ast
    return ast.Starred


@lib("any", "A-cpython")
def _any(ex, e, args, kwargs, p):
    only(e, args, kwargs, 1)
    q = ex.exists_over(asV(args[0]), False) if hasattr(ex, "exists_over") else None
    return [(q if q is not None else truthy(app("py_any", asV(args[0]))), p)]


@lib("all", "A-cpython")
def _all(ex, e, args, kwargs, p):
    only(e, args, kwargs, 1)
    q = ex.exists_over(asV(args[0]), True) if hasattr(ex, "exists_over") else None
    return [(z3.Not(q) if q is not None else truthy(app("py_all", asV(args[0]))), p)]


@lib("type", "A-cpython")
def _type(ex, e, args, kwargs, p):
    only(e, args, kwargs, 1)                    # type(name, bases, dict) creates a class: not modelled
    return [(app("py_type", asV(args[0])), p)]


@lib("map", "A-cpython")
def _map(ex, e, args, kwargs, p):
    only(e, args, kwargs, 2, 99)
    return [(app("py_map", *[asV(a) for a in args]), p)]


@lib("filter", "A-cpython")
def _filter(ex, e, args, kwargs, p):
    only(e, args, kwargs, 2)
    return [(app("py_filter", *[asV(a) for a in args]), p)]


@lib("reversed", "A-cpython")
def _reversed(ex, e, args, kwargs, p):
    only(e, args, kwargs, 1)
    return [(app("py_reversed", asV(args[0])), p)]


@lib("sum", "A-cpython")
def _sum(ex, e, args, kwargs, p):
    only(e, args, kwargs, 1, 1 if kwargs else 2, kw=("start",))
    args = list(args) + kwvals(kwargs)          # sum(xs, start=s) is sum(xs, s)
    return [(app("py_sum", *[asV(a) for a in args]), p)]


@lib("round", "A-cpython")
def _round(ex, e, args, kwargs, p):
    only(e, args, kwargs, 1, 1 if kwargs else 2, kw=("ndigits",))
    args = list(args) + kwvals(kwargs)          # round(x, ndigits=n) is round(x, n)
    return [(app("py_round", *[asV(a) for a in args]), p)]


@lib("id", "A-cpython")
def _id(ex, e, args, kwargs, p):
    only(e, args, kwargs, 1)
    return [(app("py_id", asV(args[0])), p)]


@lib("hash", "A-cpython")
def _hash(ex, e, args, kwargs, p):
    only(e, args, kwargs, 1)
    return [(app("py_hash", asV(args[0])), p)]


@lib("json.dumps", "A-cpython")
def _jsondumps(ex, e, args, kwargs, p):
    only(e, args, kwargs, 1, kw=tuple(kwargs))  # indent=, sort_keys=, ... change the text: folded into the term
    return [(app("json_dumps" + kwsfx(kwargs), asV(args[0]), *[asV(v) for v in kwvals(kwargs)]), p)]


for _n in ("round", "around", "any", "iscomplex", "isreal", "real", "imag", "iscomplexobj", "isrealobj", "isfinite", "isnan", "floor", "ceil", "trunc",
           "float64", "int64", "complex128", "asarray", "squeeze", "ravel", "transpose", "zeros", "ones", "shape", "size", "conj", "angle", "sign",
           "multiply", "divide", "add", "subtract", "negative", "reciprocal", "true_divide", "float_power", "square", "unique", "sort", "argsort"):
    FUNCS["np." + _n] = ((lambda name: (lambda ex, e, args, kwargs, p: partial(ex, p, e, "np_" + name + "".join("_" + k for k in sorted(kwargs)),
                                                                             *args, *[v for k, v in sorted(kwargs.items())])))(_n), "A-numpy-arith")


@lib("min", "A-cpython")
def _min(ex, e, args, kwargs, p):
    only(e, args, kwargs, 1, 99, kw=("key", "default"))
    return [(app("py_min" + kwsfx(kwargs), *[asV(a) for a in args], *[asV(v) for v in kwvals(kwargs)]), p)]


@lib("max", "A-cpython")
def _max(ex, e, args, kwargs, p):
    only(e, args, kwargs, 1, 99, kw=("key", "default"))
    return [(app("py_max" + kwsfx(kwargs), *[asV(a) for a in args], *[asV(v) for v in kwvals(kwargs)]), p)]


# ---------------------------------------------------------------------------------------------------------------------
# numpy

@lib("np.sum", "A-numpy-arith")
def _npsum(ex, e, args, kwargs, p):
    a = args[0] if len(args) == 1 and set(kwargs) == {"axis"} else None       # dtype=, keepdims=, out=, initial=, where=: not modelled
    if isinstance(a, Tup) and len(a.items) == 2 and isinstance(kwargs.get("axis"), PyC) and kwargs["axis"].v == 0:
        return [(app("ADD", asV(a.items[0]), asV(a.items[1])), p)]
    raise Unsupported("np.sum form", e)


@lib("np.prod", "A-numpy-arith")
def _npprod(ex, e, args, kwargs, p):
    a = args[0] if len(args) == 1 and set(kwargs) == {"axis"} else None
    if isinstance(a, Tup) and len(a.items) == 2 and isinstance(kwargs.get("axis"), PyC) and kwargs["axis"].v == 0:
        return [(app("MUL", asV(a.items[0]), asV(a.items[1])), p)]
    raise Unsupported("np.prod form", e)


@lib("np.power", "A-numpy-arith")
def _nppower(ex, e, args, kwargs, p):
    only(e, args, kwargs, 2)                    # out=, where=, dtype=: not modelled
    return partial(ex, p, e, "POW", args[0], args[1])


for _f in ("exp", "log", "sin", "cos", "tan", "arcsin", "arccos", "arctan", "sinh", "cosh", "tanh", "arcsinh", "arccosh", "arctanh", "sqrt"):
    FUNCS["np." + _f] = ((lambda name: (lambda ex, e, args, kwargs, p: only(e, args, kwargs, 1) or partial(ex, p, e, "FN_" + name, args[0])))(_f),
                         "A-numpy-arith")


@lib("np.array", "A-numpy-array")
def _nparray(ex, e, args, kwargs, p):
    only(e, args, kwargs, 1, 1 if kwargs else 2, kw=("dtype",))        # copy=, order=, subok=, ndmin=, like=: not modelled
    if len(args) == 2:
        return partial(ex, p, e, "np_array_dtype", args[0], args[1])      # np.array(x, t) is np.array(x, dtype=t)
    if "dtype" in kwargs:
        return partial(ex, p, e, "np_array_dtype", args[0], kwargs["dtype"])
    return partial(ex, p, e, "np_array", args[0])


@lib("np.insert", "A-numpy-array")
def _npinsert(ex, e, args, kwargs, p):
    only(e, args, kwargs, 3, 3 if kwargs else 4, kw=("axis",))
    return partial(ex, p, e, "np_insert", *args, *kwvals(kwargs))         # np.insert(a, i, x, axis=k) is np.insert(a, i, x, k)


@lib("np.ndim", "A-numpy-array")
def _npndim(ex, e, args, kwargs, p):
    only(e, args, kwargs, 1)
    return [(app("np_ndim", asV(args[0])), p)]


@lib("np.ndindex", "A-numpy-array")
def _npndindex(ex, e, args, kwargs, p):
    only(e, args, kwargs, 0, 99)
    return [(app("np_ndindex", *[asV(a) for a in args]), p)]


@lib("np.abs", "A-numpy-arith")
def _npabs(ex, e, args, kwargs, p):
    only(e, args, kwargs, 1)
    return [(app("ABS", asV(args[0])), p)]


@lib("np.signbit", "A-numpy-arith")
def _npsignbit(ex, e, args, kwargs, p):
    only(e, args, kwargs, 1)
    return [(pred("np_signbit", asV(args[0])), p)]


@lib("np.all", "A-numpy-array")
def _npall(ex, e, args, kwargs, p):
    only(e, args, kwargs, 1)                    # axis=, keepdims=, where=: not modelled
    return [(truthy(app("np_all", asV(args[0]))), p)]


@lib("np.isclose", "A-numpy-arith")
def _npisclose(ex, e, args, kwargs, p):
    only(e, args, kwargs, 2, 5, kw=("rtol", "atol", "equal_nan"))
    # tolerances are part of the function: np.isclose(a, b, rtol=r) is the term np_isclose_rtol(a, b, r)
    return partial(ex, p, e, "np_isclose" + ("%d" % len(args) if len(args) > 2 else "") + kwsfx(kwargs), *args, *kwvals(kwargs))


@lib("np.issubdtype", "A-numpy-array")
def _npissubdtype(ex, e, args, kwargs, p):
    only(e, args, kwargs, 2)
    return [(pred("np_issubdtype", asV(args[0]), asV(args[1])), p)]


@lib("np.dtype", "A-numpy-array")
def _npdtype(ex, e, args, kwargs, p):
    only(e, args, kwargs, 1)
    return [(app("np_dtype", asV(args[0])), p)]


# ---------------------------------------------------------------------------------------------------------------------
# sympy

@lib("Symbol", "A-sympy")
def _symbol(ex, e, args, kwargs, p):
    only(e, args, kwargs, 1, kw=tuple(kwargs))  # Symbol("x", real=True) != Symbol("x"): assumptions are part of the term
    return [(app("SYMBOL" + kwsfx(kwargs), asV(args[0]), *[asV(v) for v in kwvals(kwargs)]), p)]


FUNCS["sym.Symbol"] = FUNCS["Symbol"]


@lib("sym.lambdify", "A-sympy")
def _lambdify(ex, e, args, kwargs, p):
    only(e, args, kwargs, 2, kw=tuple(kwargs))  # modules=, printer=, cse=, ...: a different function (no SUBST axiom applies to it)
    return [(app("LAMBDIFY" + kwsfx(kwargs), asV(args[0]), asV(args[1]), *[asV(v) for v in kwvals(kwargs)]), p)]


@lib("solve", "A-sympy")
def _solve(ex, e, args, kwargs, p):
    only(e, args, kwargs, 2, kw=tuple(kwargs))  # flags (dict=, set=, ...) change the shape of the result: folded into the term
    return partial(ex, p, e, "sym_solve" + kwsfx(kwargs), args[0], args[1], *kwvals(kwargs))


# ---------------------------------------------------------------------------------------------------------------------
# os / copy / warnings / antlr4

@lib("os.path.join", "A-cpython")
def _join(ex, e, args, kwargs, p):
    only(e, args, kwargs, 2, 99)
    t = asV(args[0])
    for a in args[1:]:                          # posixpath.join is a left fold: join(a, b, c) == join(join(a, b), c)
        t = app("PATH_JOIN", t, asV(a))
    return [(t, p)]


@lib("os.path.dirname", "A-cpython")
def _dirname(ex, e, args, kwargs, p):
    only(e, args, kwargs, 1)
    return [(app("PATH_DIRNAME", asV(args[0])), p)]


@lib("os.getcwd", "A-cpython")
def _getcwd(ex, e, args, kwargs, p):
    only(e, args, kwargs, 0)
    ex.ctx.effect(ex, p, "read-process-cwd", "process:cwd", e)
    return [(app("PROCESS_CWD"), p)]


@lib("sys.exc_info", "A-cpython")
def _excinfo(ex, e, args, kwargs, p):
    # (type, value, traceback) of the exception being handled, or (None, None, None): total, reads interpreter state, writes nothing.
    # The three components are unconstrained (each may be None); a traceback object has the attribute tb_lineno.
    only(e, args, kwargs, 0)
    ex.ctx.effect(ex, p, "read-process-exc-state", "process:exc_info", e)
    return [(Tup([app("SYS_EXC_TYPE"), app("SYS_EXC_VALUE"), app("SYS_EXC_TB")]), p)]


@lib("copy.deepcopy", "A-cpython")
def _deepcopy(ex, e, args, kwargs, p):
    # value semantics: an equal structure (axiom DEEPCOPY(x) == x); a fresh object for the frame engine
    only(e, args, kwargs, 1, 1 if kwargs else 2, kw=("memo",))
    if len(args) > 1 or kwargs:
        # a caller-supplied memo decides which sub-objects are shared instead of copied: equal in value, but NOT fresh
        memo = asV(args[1]) if len(args) > 1 else asV(kwargs.get("memo", PyC(None)))
        return [(app("DEEPCOPY_MEMO", asV(args[0]), memo), p)]
    return [(app("DEEPCOPY", asV(args[0])), p)]


@lib("copy.copy", "A-cpython")
def _copy(ex, e, args, kwargs, p):
    only(e, args, kwargs, 1)
    return [(app("SHALLOWCOPY", asV(args[0])), p)]


@lib("warnings.warn", "A-cpython")
def _warn(ex, e, args, kwargs, p):
    # a warning is an effect outside the properties: message, category and stacklevel are deliberately not part of any term
    only(e, args, kwargs, 1, 4, kw=("category", "stacklevel", "source", "skip_file_prefixes"))
    ex.ctx.effect(ex, p, "warn", "process:warnings", e)
    return [(PyC(None), p)]


for _n in ("match", "fullmatch", "search", "findall", "compile", "split", "finditer"):
    FUNCS["re." + _n] = ((lambda name: (lambda ex, e, args, kwargs, p: [(app("re_" + name + kwsfx(kwargs), *[asV(a) for a in args],
                                                                             *[asV(v) for v in kwvals(kwargs)]), p)]))(_n), "A-cpython")


@lib("re.escape", "A-cpython")
def _reescape(ex, e, args, kwargs, p):
    only(e, args, kwargs, 1)
    return [(app("re_escape", asV(args[0])), p)]


@lib("re.sub", "A-cpython")
def _resub(ex, e, args, kwargs, p):
    only(e, args, kwargs, 3, 5, kw=("count", "flags"))
    return [(app("re_sub" + kwsfx(kwargs), *[asV(a) for a in args], *[asV(v) for v in kwvals(kwargs)]), p)]


for _n in ("antlr4.FileStream", "antlr4.InputStream", "antlr4.CommonTokenStream", "blackbirdLexer", "blackbirdParser", "antlr4.ParseTreeWalker",
           "BlackbirdErrorListener"):
    def _mk(name):
        def h(ex, e, args, kwargs, p):
            obj = app("NEW_" + name.replace(".", "_") + kwsfx(kwargs), *[asV(a) for a in args], *[asV(v) for v in kwvals(kwargs)])
            return [(obj, p.assume(z3.And(obj != NONE, truthy(obj))))]       # a constructor never returns None
        return h
    FUNCS[_n] = (_mk(_n), "A-antlr-tree")


# ---------------------------------------------------------------------------------------------------------------------
# methods (receiver value first)

@method("format", "A-cpython")
def _format(ex, e, obj, args, kwargs, p):
    from .terms import format_term
    star = kwargs.pop("__star__", None)         # positions of starred arguments of unknown length (ctx.evargs)
    if isinstance(obj, PyC) and isinstance(obj.v, str) and not kwargs and star is None:
        return [(format_term(obj.v, list(args)), p)]
    # keyword fields and the positions of starred sequences are part of the function symbol
    sfx = kwsfx(kwargs) + ("" if star is None else "_star" + "_".join(str(i) for i in star.v))
    return [(app("py_format%d" % len(args) + sfx, asV(obj), *[asV(a) for a in args], *[asV(v) for v in kwvals(kwargs)]), p)]


@method("join", "A-cpython")
def _strjoin(ex, e, obj, args, kwargs, p):
    from .terms import strcat, as_str_term
    only(e, args, kwargs, 1)
    if isinstance(obj, PyC) and isinstance(obj.v, str) and isinstance(args[0], Tup):
        parts = []
        for i, it in enumerate(args[0].items):
            if i:
                parts.append(obj.v)
            parts.append(it if isinstance(it, PyC) and isinstance(it.v, str) else asV(it))
        return [(strcat(parts), p)]
    return [(app("py_join", asV(obj), asV(args[0])), p)]


@method("replace", "A-cpython")
def _replace(ex, e, obj, args, kwargs, p):
    only(e, args, kwargs, 2, 3)
    if len(args) == 3:
        return [(app("py_replace_count", asV(obj), *[asV(a) for a in args]), p)]
    return [(app("py_replace", asV(obj), asV(args[0]), asV(args[1])), p)]


@method("split", "A-cpython")
def _split(ex, e, obj, args, kwargs, p):
    only(e, args, kwargs, 0, 2, kw=("sep", "maxsplit"))
    return [(app("py_split" + kwsfx(kwargs), asV(obj), *[asV(a) for a in args], *[asV(v) for v in kwvals(kwargs)]), p)]


@method("isdigit", "A-cpython")
def _isdigit(ex, e, obj, args, kwargs, p):
    only(e, args, kwargs, 0)
    return [(pred("py_isdigit", asV(obj)), p)]


@method("lower", "A-cpython")
def _lower(ex, e, obj, args, kwargs, p):
    only(e, args, kwargs, 0)
    return [(app("py_lower", asV(obj)), p)]


@method("upper", "A-cpython")
def _upper(ex, e, obj, args, kwargs, p):
    only(e, args, kwargs, 0)
    return [(app("py_upper", asV(obj)), p)]


@method("startswith", "A-cpython")
def _startswith(ex, e, obj, args, kwargs, p):
    only(e, args, kwargs, 1, 3)                 # startswith(prefix, start, end): the bounds are arguments of a different predicate
    return [(pred("py_startswith" + ("%d" % len(args) if len(args) > 1 else ""), asV(obj), *[asV(a) for a in args]), p)]


@method("items", "A-cpython")
def _items(ex, e, obj, args, kwargs, p):
    only(e, args, kwargs, 0)
    return [(app("dict_items", asV(obj)), p)]


@method("keys", "A-cpython")
def _keys(ex, e, obj, args, kwargs, p):
    only(e, args, kwargs, 0)
    return [(app("dict_keys", asV(obj)), p)]


@method("values", "A-cpython")
def _values(ex, e, obj, args, kwargs, p):
    only(e, args, kwargs, 0)
    return [(app("dict_values", asV(obj)), p)]


@method("get", "A-cpython")
def _get(ex, e, obj, args, kwargs, p):
    only(e, args, kwargs, 1, 2)
    d = args[1] if len(args) > 1 else PyC(None)
    return [(app("dict_get_default", asV(obj), asV(args[0]), asV(d)), p)]


@method("copy", "A-cpython")
def _mcopy(ex, e, obj, args, kwargs, p):
    only(e, args, kwargs, 0)                    # ndarray.copy(order): not modelled
    return [(obj, p)]


@method("flatten", "A-numpy-array")
def _flatten(ex, e, obj, args, kwargs, p):
    only(e, args, kwargs, 0, 0 if kwargs else 1, kw=("order",))
    if not args and not kwargs:
        return [(app("FLAT_ROWMAJOR", asV(obj)), p)]          # ndarray.flatten() is row-major ('C') by default (A-numpy-array)
    return [(app("np_flatten" + str(len(args)), asV(obj), *[asV(a) for a in args], *[asV(v) for k, v in sorted(kwargs.items())]), p)]


@method("reshape", "A-numpy-array")
def _reshape(ex, e, obj, args, kwargs, p):
    only(e, args, kwargs, 1, 99, kw=("order", "copy"))
    return partial(ex, p, e, "np_reshape%d" % len(args) + kwsfx(kwargs), obj, *args, *kwvals(kwargs))


@method("astype", "A-numpy-array")
def _astype(ex, e, obj, args, kwargs, p):
    only(e, args, kwargs, 1)                    # order=, casting=, copy=: not modelled (copy=False may return the receiver itself)
    return partial(ex, p, e, "np_astype", obj, args[0])


@method("item", "A-numpy-array")
def _item(ex, e, obj, args, kwargs, p):
    only(e, args, kwargs, 0, 99)
    return [(app("np_item" + ("%d" % len(args) if args else ""), asV(obj), *[asV(a) for a in args]), p)]       # a.item(i, j): the index is an argument


@method("tolist", "A-numpy-array")
def _tolist(ex, e, obj, args, kwargs, p):
    only(e, args, kwargs, 0)
    return [(app("np_tolist", asV(obj)), p)]


@method("_asdict", "A-cpython")
def _asdict(ex, e, obj, args, kwargs, p):
    only(e, args, kwargs, 0)
    return [(app("nt_asdict", asV(obj)), p)]


@lib("_BlackbirdExprPrinter", "A-sympy")
def _printer(ex, e, args, kwargs, p):
    only(e, args, kwargs, 0)                    # printer settings would change doprint: not modelled
    return [(app("NEW_BlackbirdExprPrinter"), p)]


@method("doprint", "A-sympy")
def _doprint(ex, e, obj, args, kwargs, p):
    # StrPrinter.doprint with the two overrides of program._BlackbirdExprPrinter: trusted (cross-checked by the roundtrip witnesses)
    only(e, args, kwargs, 1)
    return [(app("EXPR_TEXT", asV(args[0])), p)]


@lib("super", "A-cpython")
def _super(ex, e, args, kwargs, p):
    only(e, args, kwargs, 0)                    # the zero-argument form inside a method: the next class after the method's own in type(self)'s MRO
    if "self" not in p.env:
        raise Unsupported("super() outside a method", e)
    return [(app("SUPER", asV(p.env["self"])), p)]


@lib("getattr", "A-cpython")
def _getattr(ex, e, args, kwargs, p):
    only(e, args, kwargs, 2, 3)
    if isinstance(args[1], PyC) and isinstance(args[1].v, str):
        if len(args) == 2:
            # getattr(o, "n") raises AttributeError where getattr(o, "n", None) yields None: not the same call
            return partial(ex, p, e, "py_getattr2_" + args[1].v, args[0])
        return [(app("py_getattr_" + args[1].v, asV(args[0]), asV(args[2])), p)]
    raise Unsupported("getattr with a computed name", e)


@lib("Command", "A-cpython")
def _command(ex, e, args, kwargs, p):
    return [(app("Command" + "".join("_" + k for k in sorted(kwargs)), *[asV(a) for a in args], *[asV(v) for k, v in sorted(kwargs.items())]), p)]


@lib("nx.DiGraph", "A-networkx")
def _nxdigraph(ex, e, args, kwargs, p):
    only(e, args, kwargs, 0, 1, kw=tuple(kwargs))        # DiGraph(data, **graph_attributes): attributes are part of the term
    return [(app("NEW_nx_DiGraph" + kwsfx(kwargs), *[asV(a) for a in args], *[asV(v) for v in kwvals(kwargs)]), p)]


@lib("isomorphism.DiGraphMatcher", "A-networkx")
def _matcher(ex, e, args, kwargs, p):
    only(e, args, kwargs, 2, 4, kw=("node_match", "edge_match"))
    return [(app("NEW_DiGraphMatcher" + kwsfx(kwargs), *[asV(a) for a in args], *[asV(v) for v in kwvals(kwargs)]), p)]


@method("is_isomorphic", "A-networkx")
def _isiso(ex, e, obj, args, kwargs, p):
    only(e, args, kwargs, 0)
    return [(pred("nx_is_isomorphic", asV(obj)), p)]


@method("nodes", "A-networkx")
def _nodes(ex, e, obj, args, kwargs, p):
    only(e, args, kwargs, 0, 2, kw=("data", "default"))  # G.nodes(data=True) yields pairs, G.nodes() names
    sfx = ("%d" % len(args) if args else "") + kwsfx(kwargs)
    return [(app("nx_nodes" + sfx, asV(obj), *[asV(a) for a in args], *[asV(v) for v in kwvals(kwargs)]), p)]


@method("data", "A-networkx")
def _data(ex, e, obj, args, kwargs, p):
    only(e, args, kwargs, 0, 2, kw=("data", "default"))  # NodeView.data("attr") yields one attribute, .data() the whole dict
    sfx = ("%d" % len(args) if args else "") + kwsfx(kwargs)
    return [(app("nx_data" + sfx, asV(obj), *[asV(a) for a in args], *[asV(v) for v in kwvals(kwargs)]), p)]


assumed("A-networkx", "DiGraph is a set of nodes/edges with attribute dicts; add_node/add_edge insert; DiGraphMatcher(G1,G2,nm).is_isomorphic() iff a node "
                      "bijection preserving edges and nm exists, GM.mapping is one")


def axioms():
    """axioms about the library-level function symbols (beyond terms.base_axioms); explicit triggers throughout"""
    from .terms import FA
    x, y = z3.Consts("x y", V)
    ax = []
    A = ax.append
    intk = lambda t: pred("is_intkind", t)
    # the field identities the proofs need (DESIGN 2.3): subtraction and division are *defined*, not axiomatised further
    A(FA([x, y], app("SUB", x, y) == app("ADD", x, app("NEG", y)), app("SUB", x, y)))
    A(FA([x, y], app("DIV", x, y) == app("MUL", x, app("RECIP", y)), app("DIV", x, y)))
    # numeric kinds: integer kind = Python int (incl. bool) or NumPy integer
    A(FA([x], intk(x) == z3.Or(pred("isinst_int", x), pred("isinst_np.integer", x)), intk(x), pred("isinst_int", x), pred("isinst_np.integer", x)))
    A(FA([x], z3.Implies(intk(x), pred("is_negative", x) == pred("py_lt", x, IntV(0))), pred("is_negative", x), pred("py_lt", x, IntV(0))))
    A(FA([x], pred("is_complexkind", x) == z3.Or(pred("isinst_complex", x), pred("isinst_np.complexfloating", x)),
         pred("is_complexkind", x), pred("isinst_complex", x), pred("isinst_np.complexfloating", x)))
    # np.power: integer-kind base with a negative integer-kind exponent raises ValueError; otherwise no exception (A-numpy-arith)
    pc = code("POW", x, y)
    A(FA([x, y], z3.And((pc != 0) == z3.And(intk(x), intk(y), pred("is_negative", y)), z3.Or(pc == 0, pc == EXC_CODE["ValueError"])), pc))
    A(pred("is_negative", IntV(-1)))
    A(intk(IntV(-1)))
    A(FA([x], z3.Implies(z3.Not(intk(x)), app("POW", x, IntV(-1)) == app("RECIP", x)), app("POW", x, IntV(-1))))
    # float(b) for an integer-kind b: never raises, is not integer-kind, has the same reciprocal (numerically equal value)
    pf = app("py_float", x)
    A(FA([x], z3.Implies(intk(x), code("py_float", x) == 0), code("py_float", x)))
    A(FA([x], z3.Not(intk(pf)), pf))
    A(FA([x], z3.Implies(intk(x), app("RECIP", pf) == app("RECIP", x)), app("RECIP", pf)))
    A(FA([x], app("DEEPCOPY", x) == x, app("DEEPCOPY", x)))
    A(FA([x], app("SHALLOWCOPY", x) == x, app("SHALLOWCOPY", x)))
    # x ** y for integer kinds with y < 0, computed in floats, is the property-level value POWF(x, y)
    A(FA([x, y], z3.Implies(z3.And(intk(x), intk(y), pred("is_negative", y)), app("POW", pf, y) == app("POWF", x, y)), app("POW", pf, y)))
    # class hierarchy of the value kinds (A-class-hierarchy; sampled against the real classes by replay/fam_axioms "class-hierarchy"):
    # groups of classes no object of which belongs to two, and the subclass facts the code relies on
    for a, b in DISJOINT_CLASSES:
        pa, pb = pred("isinst_" + a, x), pred("isinst_" + b, x)
        A(FA([x], z3.Not(z3.And(pa, pb)), [pa, pb]))
    # dtype kinds: no dtype is a sub-dtype of two of integer / floating / complexfloating (sampled: "class-hierarchy")
    kinds = ["np.integer", "np.floating", "np.complexfloating"]
    for i, a in enumerate(kinds):
        for b in kinds[i + 1:]:
            pa, pb = pred("np_issubdtype", x, asV(ClassRef(a))), pred("np_issubdtype", x, asV(ClassRef(b)))
            A(FA([x], z3.Not(z3.And(pa, pb)), [pa, pb]))
    for sub, sup in SUBCLASSES:
        A(FA([x], z3.Implies(pred("isinst_" + sub, x), pred("isinst_" + sup, x)), pred("isinst_" + sub, x)))
    return ax


_CONTAINERS = ["str", "list", "tuple", "dict", "set", "np.ndarray", "RegRefTransform", "sym.Expr"]
_NUMBERS = ["int", "float", "complex", "np.integer", "np.floating", "np.complexfloating"]
# np.float64 IS a float and np.complex128 IS a complex (NumPy subclasses the Python types); bool is an int; np.str_ is a str and an np.generic
_NUMBER_OVERLAPS = {("float", "np.floating"), ("complex", "np.complexfloating")}
DISJOINT_CLASSES = [(a, b) for i, a in enumerate(_CONTAINERS) for b in _CONTAINERS[i + 1:]] + \
                   [(a, b) for a in _CONTAINERS for b in _NUMBERS] + \
                   [(a, b) for i, a in enumerate(_NUMBERS) for b in _NUMBERS[i + 1:] if (a, b) not in _NUMBER_OVERLAPS] + \
                   [(a, "np.generic") for a in ("list", "tuple", "dict", "set", "np.ndarray", "RegRefTransform", "sym.Expr", "int")]
SUBCLASSES = [("sym.Symbol", "sym.Expr"), ("np.integer", "np.generic"), ("np.floating", "np.generic"), ("np.complexfloating", "np.generic"), ("bool", "int")]
