"""Relational verification of one real function against its spec function (contract mode `equiv`), plus frame obligations.

For every real path (outcome) the spec function is executed under the real path's conditions; loops are paired dynamically
(the n-th loop met on the spec path with the n-th loop record of the real path): the two bodies are compared for one
arbitrary iteration from a common arbitrary state, after which both sides continue with the same fresh constants.
Induction over the iterations is the fold-congruence lemma (lean/Walk.lean: fold_congr_mem).
"""
import ast
import time

import z3

from .sym import Exec, St, Outcome, Unsupported, LoopRecord, fresh, fresh_int
from .terms import V, PyC, Tup, ClassRef, Closure, ExcVal, asV, app, pred, code, NONE, EXC_CODE, IntV
from . import terms as T


class Obligation:
    def __init__(self, name, hyps, goal, info, families=None, raw=None):
        self.name, self.hyps, self.goal, self.info, self.families = name, list(hyps), goal, info, families or []
        self.raw = raw


class LoopMismatch(Exception):
    pass


def messages_agree(cls, a, b):
    """goal for exception messages. The properties constrain messages only for BlackbirdSyntaxError (C10/C11: the identifier, its line
    and column are named): there the *arguments* of the format call must agree position by position (the wording is free). Messages of
    other exception classes are not compared."""
    if not (z3.is_int_value(cls) and cls.as_long() == EXC_CODE["BlackbirdSyntaxError"]):
        return z3.BoolVal(True)
    try:
        av, bv = asV(a), asV(b)
    except TypeError:
        return z3.BoolVal(True)
    # the non-literal parts of the two messages (identifier, line, column ...) must agree in order; the wording is free
    pa = [x for x in T.str_parts(av) if not isinstance(x, str)]
    pb = [x for x in T.str_parts(bv) if not isinstance(x, str)]
    if len(pa) != len(pb):
        return z3.BoolVal(False)
    return z3.And(*[x == y for x, y in zip(pa, pb)]) if pa else z3.BoolVal(True)


def values_equal(a, b):
    """goal: two meta-level values denote the same Python value"""
    if isinstance(a, Tup) and isinstance(b, Tup):
        if len(a.items) != len(b.items) or a.kind != b.kind:
            return z3.BoolVal(False)
        return z3.And(*[values_equal(x, y) for x, y in zip(a.items, b.items)]) if a.items else z3.BoolVal(True)
    if isinstance(a, PyC) and isinstance(b, PyC):
        return z3.BoolVal(type(a.v) is type(b.v) and a.v == b.v)
    if a is None or b is None:
        return z3.BoolVal(a is None and b is None)
    return asV(a) == asV(b)


class Lockstep:
    def __init__(self, ctx, contract):
        self.ctx, self.c = ctx, contract
        self.obs = []
        self.notes = []
        self.seen = set()
        self._p0 = {}
        self.loop_memo = {}
        self.stats = {"real_paths": 0, "spec_paths": 0, "loops": 0}

    def ob(self, name, hyps, goal, info, families=None):
        raw = str(goal)[:400] if z3.is_expr(goal) else str(bool(goal))
        goal = z3.simplify(goal) if z3.is_expr(goal) else z3.BoolVal(bool(goal))
        key = (name, goal.sexpr(), tuple(sorted(h.sexpr() for h in hyps)))
        if key in self.seen:
            return
        self.seen.add(key)
        self.obs.append(Obligation(name, hyps, goal, info, families or self.c.d.get("families", []), raw))

    # ------------------------------------------------------------------------------------------------
    def initial_state(self, fdef):
        st = St()
        args = {}
        names = [a.arg for a in fdef.args.args]
        for nm in names:
            args[nm] = z3.Const("arg_" + nm, V)
        if fdef.args.kwarg:
            args[fdef.args.kwarg.arg] = z3.Const("arg_" + fdef.args.kwarg.arg, V)
        for g in self.ctx.cur_globals:
            st.glob[g] = z3.Const(g + "!0", V)
            st.conds.extend(self.ctx.type_facts("global:" + g, st.glob[g]))
        return args, st

    def run(self, real_def, spec_def):
        c = self.c
        fname = c.name
        args, st0 = self.initial_state(real_def)
        self.real_def = real_def
        self.dead_real, self.dead_spec = dead_locals(real_def), dead_locals(spec_def)
        pre = self.preconditions(args, st0)
        st0.conds.extend(pre)
        ex = Exec(self.ctx, "real", fname)
        real_outs = ex.run_function(real_def, args, st0)
        self.notes += ex.notes
        real_outs = [o for o in real_outs if self.ctx.feasible(o.st.conds)]
        self.stats["real_paths"] = len(real_outs)
        spec_params = [a.arg for a in spec_def.args.args]
        sargs = {}
        for nm_s, nm_r in zip(spec_params, [a.arg for a in real_def.args.args]):
            sargs[nm_s] = args[nm_r]
        if real_def.args.kwarg and spec_def.args.kwarg:
            sargs[spec_def.args.kwarg.arg] = args[real_def.args.kwarg.arg]
        self.presolved = []
        chunks = self.fork_chunks(real_outs)
        if chunks is not None:
            # many real paths: the spec runs and the solving for disjoint groups of real paths are done in forked children
            self.presolved = self.run_forked(chunks, fname, spec_def, sargs, st0)
            return
        self.compare_paths(real_outs, fname, spec_def, sargs, st0)

    def fork_chunks(self, real_outs):
        import os
        n = len(real_outs)
        k = min(int(os.environ.get("VERIF_FORK", "6")), n // 16)
        if k < 2:
            return None
        return [real_outs[i::k] for i in range(k)]

    def run_forked(self, chunks, fname, spec_def, sargs, st0):
        import json
        import os
        import tempfile
        kids = []
        for ch in chunks:
            fd, path = tempfile.mkstemp(prefix="pyvc_chunk_")
            os.close(fd)
            pid = os.fork()
            if pid == 0:
                code = 0
                try:
                    self.obs = []
                    self.compare_paths(ch, fname, spec_def, sargs, st0)
                    out = []
                    for ob in self.obs:
                        st, backend, detail, dt = solve(self.ctx, ob)
                        out.append({"name": ob.name, "st": st, "backend": backend, "detail": detail, "dt": dt, "info": ob.info, "families": ob.families,
                                    "goal": (ob.raw or str(ob.goal))[:300] if ob.goal is not None else None,
                                    "hyps": [str(h)[:200] for h in ob.hyps[-12:]] if st not in ("discharged", "infeasible") else []})
                    with open(path, "w") as f:
                        json.dump({"obs": out, "stats": self.stats, "notes": self.notes}, f)
                except BaseException as e:      # noqa
                    import traceback
                    with open(path, "w") as f:
                        json.dump({"error": traceback.format_exc()[-2000:]}, f)
                    code = 1
                os._exit(code)
            kids.append((pid, path))
        res = []
        for pid, path in kids:
            os.waitpid(pid, 0)
            try:
                doc = json.load(open(path))
            except ValueError:
                doc = {"error": "child wrote no result"}
            os.remove(path)
            if "error" in doc:
                raise RuntimeError("forked lockstep worker failed: " + doc["error"])
            res.extend(doc["obs"])
            for k2, v in doc["stats"].items():
                if k2 != "real_paths":
                    self.stats[k2] = self.stats.get(k2, 0) + v
        return res

    def compare_paths(self, real_outs, fname, spec_def, sargs, st0):
        for ro in real_outs:
            sx = Exec(self.ctx, "spec", fname)
            sx.loop_hook = self.make_hook(ro.st.loops, fname)
            s0 = St(glob=dict(st0.glob), conds=list(ro.st.conds))
            try:
                spec_outs = sx.run_function(spec_def, sargs, s0)
            except LoopMismatch as lm:
                self.obs.append(Obligation("%s/structure" % fname, [], None, "loop structure of real and spec paths differs: %s" % lm))
                continue
            spec_outs = [o for o in spec_outs if self.ctx.feasible(o.st.conds)]
            self.stats["spec_paths"] += len(spec_outs)
            if not spec_outs:
                self.ob("%s/post" % fname, ro.st.conds, z3.BoolVal(False), "real %s but the spec has no feasible outcome on this path" % ro.describe())
            for so in spec_outs:
                self.compare_final(fname, ro, so, st0)
            self.frame(fname, ro, st0)

    def preconditions(self, args, st0):
        """well-formedness of the parse-tree arguments (pyvc/wf.py): ground facts generated from blackbird.g4 for every parameter whose
        context class is known -- from the annotation `ctx: blackbirdParser.XContext` of the real function or the contract's `ctx_params`"""
        from . import wf
        known = dict(self.c.d.get("ctx_params", {}))
        rd = getattr(self, "real_def", None)
        if rd is not None:
            for a in rd.args.args:
                if a.annotation is not None:
                    t = ast.unparse(a.annotation).split(".")[-1]
                    if t.endswith("Context") and t in self.ctx.ctx_classes:
                        known.setdefault(a.arg, t)
        out = []
        if known:
            gram = self.ctx.grammar()
            if gram is None:
                return []
            self.ctx.assumed.add("A-antlr-tree")
            for nm, cn in sorted(known.items()):
                if nm in args and z3.is_expr(args[nm]):
                    out.extend(wf.facts(self.ctx, gram, args[nm], cn))
            self.stats["wf_facts"] = len(out)
        return out

    # ------------------------------------------------------------------------------------------------
    def relate_events(self, name, hyps, rev, sev, info):
        """the partial operations passed on the real path and on the spec path must be the same, in the same order: then both
        raise the same exception at the same point or neither does. Operations that provably cannot fail here are dropped."""
        def live(events):
            out = []
            for (c, msg, line) in events:
                key = (c.sexpr(), tuple(h.sexpr() for h in hyps[-40:]))
                r = self._p0.get(key)
                if r is None:
                    s = self.ctx._solver()
                    s.push()
                    try:
                        s.add(*hyps)
                        s.add(c != 0)
                        r = s.check() == z3.unsat
                    finally:
                        s.pop()
                    self._p0[key] = r
                if not r:
                    out.append((c, msg, line))
            return out
        # compared as SETS: evaluating a pure partial operation earlier, later or twice changes at most which of two library errors
        # surfaces first on an input that fails anyway (explicit raises are outcomes, not events, and keep their order)
        rl, sl = live(rev), live(sev)
        rs, ss = {c.sexpr(): (c, l) for c, m, l in rl}, {c.sexpr(): (c, l) for c, m, l in sl}
        only_r = [rs[k] for k in sorted(set(rs) - set(ss))]
        only_s = [ss[k] for k in sorted(set(ss) - set(rs))]
        if not only_r and not only_s:
            return
        # a leftover operation on one side must be matched by a provably equal one on the other, or be impossible to fail
        for side, left, other in (("real", only_r, only_s), ("spec", only_s, only_r)):
            for c, line in left:
                alts = [c == c2 for c2, _ in other]
                goal = z3.Or(c == 0, *alts) if alts else (c == 0)
                self.ob(name + "/may-raise", hyps, goal,
                        info + "; the %s path passes a partial operation the other does not (line %s): %s" % (side, line, str(c)[:160]))

    def compare_final(self, fname, ro, so, st0):
        hyps = so.st.conds
        info = "real %s (line %s) vs spec %s" % (ro.describe(), ro.line, so.describe())
        self.relate_events("%s/post" % fname, hyps, ro.st.events, so.st.events, info)
        if ro.kind != so.kind:
            self.ob("%s/post/outcome" % fname, hyps, z3.BoolVal(False), info)
            return
        if ro.kind == "raise":
            self.ob("%s/post/exception-type" % fname, hyps, ro.cls == so.cls, info)
            if ro.msg is not None and so.msg is not None:
                self.ob("%s/post/exception-message" % fname, hyps, messages_agree(ro.cls, ro.msg, so.msg), info)
            return
        self.ob("%s/post/result" % fname, hyps, values_equal(ro.value, so.value), info)
        for g in sorted(set(ro.st.glob) | set(so.st.glob)):
            a, b = ro.st.glob.get(g, st0.glob.get(g)), so.st.glob.get(g, st0.glob.get(g))
            if a is not b:
                self.ob("%s/post/state:%s" % (fname, g), hyps, values_equal(a, b), info)
        for hk in sorted(set(ro.st.heap) | set(so.st.heap)):
            a, b = ro.st.heap.get(hk), so.st.heap.get(hk)
            if a is None or b is None:
                obj_attr = "%s.%s" % hk
                self.ob("%s/post/heap:%s" % (fname, hk[1]), hyps, z3.BoolVal(False), info + " (field %s written on one side only)" % obj_attr)
            elif a is not b:
                self.ob("%s/post/heap:%s" % (fname, hk[1]), hyps, values_equal(a, b), info)

    def frame(self, fname, ro, st0):
        """everything the function writes must be listed in `modifies` (callers havoc only that)"""
        allowed = set()
        for m in self.c.modifies:
            allowed.add(m.split(".")[-1] if "." in m else m)
        if self.c.ctor:
            allowed |= set(self.c.d.get("fields", []))
        for g, v in ro.st.glob.items():
            if g not in allowed and v is not st0.glob.get(g):
                self.ob("%s/frame:%s" % (fname, g), ro.st.conds, values_equal(v, st0.glob.get(g)), "global %s written but not in modifies" % g)
        for hk, v in ro.st.heap.items():
            if "DEEPCOPY" in hk[0] or "!ret" in hk[0] or "NEW_" in hk[0]:
                continue                      # a field of an object created in this activation
            if hk[1] not in allowed:
                self.ob("%s/frame:%s" % (fname, hk[1]), ro.st.conds, z3.BoolVal(False), "field %s.%s written but not in modifies" % hk)

    # ------------------------------------------------------------------------------------------------ loops
    def make_hook(self, real_records, fname):
        ls = self

        def hook(ex, s, xs, p):
            idx = len(p.loops)
            if idx >= len(real_records):
                raise LoopMismatch("spec loop at line %d has no counterpart on the real path" % s.lineno)
            rec = real_records[idx]
            ls.stats["loops"] += 1
            lname = "%s/loop@%d" % (fname, rec.node.lineno)
            ls.ob(lname + "/iter", p.conds, xs == rec.iter, "real and spec iterate over the same sequence")
            rename = ls.c.rename
            ckey = (rec.uid, id(s), ex.state_sig(xs, p, ex.syntactic_writes(s) - {"self"}))
            hit = ls.loop_memo.get(ckey)
            if hit is not None:
                # the same comparison (same real record, same spec state, same relevant conditions) was already discharged syntactically
                written_s, kmap = hit
                ex_rec = LoopRecord(rec.uid)
                ex_rec.node, ex_rec.iter, ex_rec.body = s, xs, rec.body
                ex_rec.written = written_s
                ex_rec.cout = {ks: (rec.cout[kmap[ks]] if kmap[ks] in rec.cout else fresh("specout_" + ks.split(":", 1)[1][-20:])) for ks in written_s}
                ex_rec.exit, ex_rec.retv, ex_rec.msg = rec.exit, rec.retv, rec.msg
                ex_rec.n_events = rec.n_events
                ls.stats["loop_memo_hits"] = ls.stats.get("loop_memo_hits", 0) + 1
                return ex.after_loop(ex_rec, p)
            n_obs_before = len(ls.obs)
            written_s = ex.dry_written(s, xs, p)
            kmap = {}
            for ks in written_s:
                kind, rest = ks.split(":", 1)
                kr = kind + ":" + rename.get(rest, rest) if kind == "local" else ks
                kmap[ks] = kr
            # locals that are named differently on the two sides are paired by their (syntactically equal) value at loop entry
            taken = set(kmap.values())
            for ks in written_s:
                if kmap[ks] in rec.cin or not ks.startswith("local:"):
                    continue
                vs = ex.loc_by_key(ks).get(p)
                if vs is None:
                    continue
                cands = []
                for kr in rec.written:
                    if kr.startswith("local:") and kr not in taken and rec.entry_vals.get(kr) is not None:
                        try:
                            if asV(rec.entry_vals[kr]).sexpr() == asV(vs).sexpr():
                                cands.append(kr)
                        except TypeError:
                            pass
                if len(cands) == 1:
                    kmap[ks] = cands[0]
                    taken.add(cands[0])
            for ro in rec.body:
                q = p.copy()
                q.conds = list(p.conds) + [c for c in ro.st.conds if not any(c is d for d in p.conds)]
                consts_in = {}
                for ks in written_s:
                    consts_in[ks] = rec.cin[kmap[ks]] if kmap[ks] in rec.cin else fresh("specin_" + ks.split(":", 1)[1][-20:])
                ex.havoc(q, written_s, "x", consts=consts_in)
                q.loops = list(p.loops)          # inner loops of the spec body pair with the inner records of this real body path
                sub = Exec(ex.ctx, "spec", fname)
                sub.fn_locals = ex.fn_locals
                sub.try_depth = ex.try_depth
                inner_real = ro.st.loops
                sub.loop_hook = ls.make_hook(inner_real, fname)
                sub.ret_sink = []
                sub.exc_sinks = [[]]
                try:
                    souts = sub.run_body(s, rec.elem, q)
                except LoopMismatch as lm:
                    ls.obs.append(Obligation(lname + "/structure", [], None, str(lm)))
                    continue
                souts = [o for o in souts if ex.ctx.feasible(o.st.conds)]
                if not souts:
                    ls.ob(lname + "/step", q.conds, z3.BoolVal(False), "real body %s but the spec body has no feasible outcome" % ro.describe())
                for so in souts:
                    info = "one iteration: real %s (line %s) vs spec %s" % (ro.describe(), ro.line, so.describe())
                    hyps = so.st.conds
                    ls.relate_events(lname + "/step", hyps, ro.st.events[rec.n_events:], so.st.events[len(p.events):], info)
                    if ro.kind != so.kind:
                        ls.ob(lname + "/step/outcome", hyps, z3.BoolVal(False), info)
                        continue
                    if ro.kind == "raise":
                        ls.ob(lname + "/step/exception-type", hyps, ro.cls == so.cls, info)
                        if ro.msg is not None and so.msg is not None:
                            ls.ob(lname + "/step/exception-message", hyps, messages_agree(ro.cls, ro.msg, so.msg), info)
                        continue
                    if ro.kind == "ret":
                        ls.ob(lname + "/step/return", hyps, values_equal(ro.value, so.value), info)
                        continue
                    # kinds "next" and "brk": the carried values must agree (same kind was checked above)
                    matched = set()
                    for ks in written_s:
                        kr = kmap[ks]
                        vs = ex.loc_by_key(ks).get(so.st)
                        if kr in rec.cin:
                            matched.add(kr)
                            if ks.startswith("local:") and ks[6:] in ls.dead_spec and kr.startswith("local:") and kr[6:] in ls.dead_real:
                                continue         # iteration variables that are never read outside the loops binding them: no observer
                            vr = ex.loc_by_key(kr).get(ro.st)
                            ls.ob(lname + "/step/carried:" + kr.split(":", 1)[1][-30:], hyps, values_equal(vr, vs), info)
                        elif not ks.startswith("local:"):
                            ls.ob(lname + "/step/carried:" + ks.split(":", 1)[1][-30:], hyps, values_equal(vs, consts_in[ks]),
                                  info + " (state written by the spec body only)")
                    for kr in rec.written:
                        if kr not in matched and not kr.startswith("local:"):
                            vr = ex.loc_by_key(kr).get(ro.st)
                            ls.ob(lname + "/step/carried:" + kr.split(":", 1)[1][-30:], hyps, values_equal(vr, rec.cin[kr]),
                                  info + " (state written by the real body only)")
            # continue after the loop with the shared constants
            ex_rec = LoopRecord(rec.uid)
            ex_rec.node, ex_rec.iter, ex_rec.body = s, xs, rec.body
            ex_rec.written = written_s
            if not rec.cout:
                raise LoopMismatch("real record without exit constants")
            ex_rec.cout = {ks: (rec.cout[kmap[ks]] if kmap[ks] in rec.cout else fresh("specout_" + ks.split(":", 1)[1][-20:])) for ks in written_s}
            ex_rec.exit, ex_rec.retv, ex_rec.msg = rec.exit, rec.retv, rec.msg
            ex_rec.n_events = rec.n_events
            if all(o.goal is not None and z3.is_true(o.goal) for o in ls.obs[n_obs_before:]):
                ls.loop_memo[ckey] = (written_s, dict(kmap))
            return ex.after_loop(ex_rec, p)
        return hook


# ---------------------------------------------------------------------------------------------------------------------
_shared = {}


def dead_locals(fdef):
    """locals every read of which sits in the body of a `for` (or in a comprehension) that binds them as its target: whatever value they
    hold between iterations or after the loop is never observed"""
    if fdef is None:
        return set()
    loads, covered = {}, {}
    for n in ast.walk(fdef):
        if isinstance(n, ast.Name) and isinstance(n.ctx, ast.Load):
            loads[n.id] = loads.get(n.id, 0) + 1

    def binders(t):
        return {m.id for m in ast.walk(t) if isinstance(m, ast.Name)}
    def count(region, names):
        for m in ast.walk(region):
            if isinstance(m, ast.Name) and isinstance(m.ctx, ast.Load) and m.id in names:
                covered.setdefault(m.id, set()).add(id(m))
    for n in ast.walk(fdef):
        if isinstance(n, ast.For):
            for b in n.body:
                count(b, binders(n.target))
        elif isinstance(n, (ast.ListComp, ast.SetComp, ast.GeneratorExp, ast.DictComp)):
            names = set()
            for k, g in enumerate(n.generators):
                names |= binders(g.target)
                for c in g.ifs:
                    count(c, names)
                for g2 in n.generators[k + 1:]:
                    count(g2.iter, names)
            for part in ([n.key, n.value] if isinstance(n, ast.DictComp) else [n.elt]):
                count(part, names)
    params = {a.arg for a in fdef.args.args}
    return {nm for nm, c in loads.items() if nm not in params and len(covered.get(nm, ())) == c} | \
           {m.id for n in ast.walk(fdef) if isinstance(n, ast.For) for m in ast.walk(n.target) if isinstance(m, ast.Name) and m.id not in loads and m.id not in params}


def solve(ctx, ob, timeout_ms=10000):
    """returns (status, backend, detail, time). One shared solver (axioms asserted once), push/pop per obligation."""
    t0 = time.time()
    if ob.goal is None:
        return "undecided", "none", ob.info, 0.0
    if z3.is_true(ob.goal):
        return "discharged", "syntactic", "", 0.0
    s = _shared.get(id(ctx))
    if s is None:
        s = z3.Solver()
        s.set("timeout", timeout_ms)
        s.add(*ctx.axioms)
        s.add(*ctx.extra_axioms)
        _shared[id(ctx)] = s
    s.push()
    try:
        s.add(*ob.hyps)
        s.add(z3.Not(ob.goal))
        r = s.check()
        why = s.reason_unknown() if r == z3.unknown else ""
        if r != z3.unsat:
            # is the path itself feasible? (an infeasible pair of outcomes is no obligation)
            s.pop()
            s.push()
            s.add(*ob.hyps)
            if s.check() == z3.unsat:
                return "infeasible", "z3", "", time.time() - t0
    finally:
        s.pop()
    dt = time.time() - t0
    if r == z3.unsat:
        return "discharged", "z3", "", dt
    if r == z3.sat:
        return "failed", "z3", ob.info + " [counter-model]", dt
    if "incomplete" in why:
        # E-matching saturated without refuting the negated goal: a candidate counter-model exists (see terms.py)
        return "failed", "z3", ob.info + " [candidate counter-model; quantifier instantiation saturated]", dt
    return "undecided", "z3", "solver answered unknown (%s): %s" % (why, ob.info), dt
