"""Behaviour-preserving AST normalisations applied to the real and the spec function before symbolic execution.

inline_aliases   `a = d["k"]` (a local bound ONCE to a part of another object) followed by uses of `a`  ==>  the uses read `d["k"]`.
                 The executor's state is functional (no object identities), so a change made through `a` would otherwise not be seen as a
                 change of `d["k"]`. Side conditions (all syntactic, checked on the statements after the binding, in its own block):
                   - `a` is bound exactly once in the function and only used after the binding, inside that block;
                   - the expression is built from names, attributes and subscripts with constant / name indices;
                   - none of the names in it is rebound, the slot itself (`d["k"] = ...`, `del d["k"]`) is not rebound, and no call in scope
                     gets the container (`d`) or a prefix of the expression as an argument or receiver of a mutating method
                     (it could rebind the slot);  passing `a` / `d["k"]` itself is fine: the callee cannot rebind its caller's slot.
                 Re-evaluating the lookup repeats its (already successful) KeyError / AttributeError check: events are compared as sets.
"""
import ast
import copy

MUTATING = {"append", "extend", "add", "remove", "insert", "clear", "update", "setdefault", "pop", "popitem", "sort", "reverse", "discard"}


def _simple_lvalue(e):
    if isinstance(e, ast.Name):
        return True
    if isinstance(e, ast.Attribute):
        return _simple_lvalue(e.value)
    if isinstance(e, ast.Subscript):
        sl = e.slice
        ok = isinstance(sl, ast.Constant) or isinstance(sl, ast.Name) or \
            (isinstance(sl, ast.UnaryOp) and isinstance(sl.op, ast.USub) and isinstance(sl.operand, ast.Constant))
        return ok and _simple_lvalue(e.value)
    return False


def _plain_path(e):
    """attributes on the path are plain fields (`_name`, or any attribute of `self`), not properties that may build a new object per read"""
    n = e
    while isinstance(n, (ast.Attribute, ast.Subscript)):
        if isinstance(n, ast.Attribute) and not n.attr.startswith("_") and not (isinstance(n.value, ast.Name) and n.value.id == "self"):
            return False
        n = n.value
    return isinstance(n, ast.Name)


def _written_through(scope, a):
    for n in ast.walk(scope):
        if isinstance(n, (ast.Subscript, ast.Attribute)) and isinstance(n.ctx, (ast.Store, ast.Del)):
            m = n.value
            while isinstance(m, (ast.Subscript, ast.Attribute)):
                m = m.value
            if isinstance(m, ast.Name) and m.id == a:
                return True
        if isinstance(n, ast.Call) and isinstance(n.func, ast.Attribute) and n.func.attr in MUTATING:
            m = n.func.value
            while isinstance(m, (ast.Subscript, ast.Attribute)):
                m = m.value
            if isinstance(m, ast.Name) and m.id == a:
                return True
        if isinstance(n, ast.AugAssign):
            m = n.target
            while isinstance(m, (ast.Subscript, ast.Attribute)):
                m = m.value
            if isinstance(m, ast.Name) and m.id == a and not isinstance(n.target, ast.Name):
                return True
    return False


def _prefixes(e):
    """texts of the proper prefixes of an lvalue expression: d["k"].x -> d["k"], d"""
    out = []
    n = e
    while isinstance(n, (ast.Attribute, ast.Subscript)):
        n = n.value
        out.append(ast.unparse(n))
    return out


def _blocks(node):
    for f in ("body", "orelse", "finalbody"):
        b = getattr(node, f, None)
        if isinstance(b, list) and b and isinstance(b[0], ast.stmt):
            yield b
    for h in getattr(node, "handlers", []) or []:
        yield h.body


def _pure_default(e):
    return isinstance(e, ast.Constant) or (isinstance(e, (ast.List, ast.Tuple, ast.Set)) and all(_pure_default(x) for x in e.elts)) or \
        (isinstance(e, ast.Dict) and not e.keys) or (isinstance(e, ast.Call) and isinstance(e.func, ast.Name) and e.func.id in ("list", "dict", "set") and not e.args and not e.keywords)


def split_setdefault(f, notes):
    """`X.setdefault(K, D).m(...)`  (statement)  ==>  `if K not in X: X[K] = D` ; `X[K].m(...)`   for a simple container expression X, a
    name / constant key K and a default D that is an empty or constant display (evaluating it has no effect)"""
    class T(ast.NodeTransformer):
        def visit_Expr(self, node):
            c = node.value
            if isinstance(c, ast.Call) and isinstance(c.func, ast.Attribute) and isinstance(c.func.value, ast.Call):
                inner = c.func.value
                if isinstance(inner.func, ast.Attribute) and inner.func.attr == "setdefault" and len(inner.args) == 2 and not inner.keywords \
                   and _simple_lvalue(inner.func.value) and isinstance(inner.args[0], (ast.Name, ast.Constant)) and _pure_default(inner.args[1]):
                    X, K, D = inner.func.value, inner.args[0], inner.args[1]
                    slot = lambda ctx: ast.Subscript(value=copy.deepcopy(X), slice=copy.deepcopy(K), ctx=ctx)
                    test = ast.Compare(left=copy.deepcopy(K), ops=[ast.NotIn()], comparators=[copy.deepcopy(X)])
                    init = ast.If(test=test, body=[ast.Assign(targets=[slot(ast.Store())], value=copy.deepcopy(D))], orelse=[])
                    call = ast.Expr(value=ast.Call(func=ast.Attribute(value=slot(ast.Load()), attr=c.func.attr, ctx=ast.Load()), args=c.args, keywords=c.keywords))
                    for n in (init, call):
                        ast.copy_location(n, node)
                        for m in ast.walk(n):
                            if not hasattr(m, "lineno"):
                                ast.copy_location(m, node)
                    notes.append("line %s: `%s.setdefault(..).%s(..)` read as test + item assignment + method call" % (node.lineno, ast.unparse(X), c.func.attr))
                    return [init, call]
            return node
    T().visit(f)


def inline_aliases(fdef):
    """returns (new FunctionDef, [notes]); the input is not modified"""
    f = copy.deepcopy(fdef)
    notes = []
    split_setdefault(f, notes)
    for _ in range(8):
        if not _inline_one(f, notes):
            break
    ast.fix_missing_locations(f)
    return f, notes


def _inline_one(f, notes):
    params = {a.arg for a in f.args.args + f.args.kwonlyargs} | ({f.args.vararg.arg} if f.args.vararg else set()) | ({f.args.kwarg.arg} if f.args.kwarg else set())
    stores = {}
    for n in ast.walk(f):
        if isinstance(n, ast.Name) and isinstance(n.ctx, (ast.Store, ast.Del)):
            stores[n.id] = stores.get(n.id, 0) + 1
        if isinstance(n, (ast.Global, ast.Nonlocal)):
            return False
    todo = [f]
    while todo:
        node = todo.pop()
        for block in _blocks(node):
            for k, st in enumerate(block):
                todo.append(st)
                if not (isinstance(st, ast.Assign) and len(st.targets) == 1 and isinstance(st.targets[0], ast.Name)):
                    continue
                a, E = st.targets[0].id, st.value
                if a in params or stores.get(a, 0) != 1 or not isinstance(E, (ast.Subscript, ast.Attribute)) or not _simple_lvalue(E):
                    continue
                if not _plain_path(E):
                    continue
                etext = ast.unparse(E)
                names = {n.id for n in ast.walk(E) if isinstance(n, ast.Name)}
                if a in names:
                    continue
                scope = ast.Module(body=block[k + 1:], type_ignores=[])
                uses_in = [n for n in ast.walk(scope) if isinstance(n, ast.Name) and n.id == a]
                uses_all = [n for n in ast.walk(f) if isinstance(n, ast.Name) and n.id == a and isinstance(n.ctx, ast.Load)]
                if not uses_in or len(uses_in) != len(uses_all):
                    continue
                if not _written_through(scope, a):
                    continue                          # a read-only alias needs no redirection
                pref = set(_prefixes(E))
                bad = False
                for n in ast.walk(scope):
                    if isinstance(n, ast.Name) and n.id in names and isinstance(n.ctx, (ast.Store, ast.Del)):
                        bad = True
                    elif isinstance(n, (ast.Subscript, ast.Attribute)) and isinstance(n.ctx, (ast.Store, ast.Del)) and ast.unparse(n) == etext:
                        bad = True
                    elif isinstance(n, (ast.Subscript, ast.Attribute)) and isinstance(n.ctx, (ast.Store, ast.Del)) and ast.unparse(n) in pref:
                        bad = True
                    elif isinstance(n, ast.Call):
                        args = list(n.args) + [kw.value for kw in n.keywords]
                        if any(ast.unparse(x.value if isinstance(x, ast.Starred) else x) in pref for x in args):
                            bad = True
                        if isinstance(n.func, ast.Attribute) and n.func.attr in MUTATING and ast.unparse(n.func.value) in pref:
                            bad = True
                    elif isinstance(n, (ast.FunctionDef, ast.Lambda, ast.ListComp, ast.SetComp, ast.DictComp, ast.GeneratorExp)):
                        if any(isinstance(m, ast.Name) and m.id in names | {a} and isinstance(m.ctx, ast.Store) for m in ast.walk(n)):
                            bad = True
                    if bad:
                        break
                if bad:
                    continue

                class Rep(ast.NodeTransformer):
                    def visit_Name(self, n):
                        if n.id == a and isinstance(n.ctx, ast.Load):
                            return ast.copy_location(copy.deepcopy(E), n)
                        return n
                for i in range(k + 1, len(block)):
                    block[i] = Rep().visit(block[i])
                # the binding stays (its evaluation, with its possible exception, happens where it did): only the later reads are redirected
                notes.append("line %s: local `%s` is an alias of `%s`: later uses read the original" % (getattr(st, "lineno", "?"), a, etext))
                stores[a] = -1
                return True
    return False


# ------------------------------------------------------------------------------------------------------------------ generator helpers
def _own_loop_jumps(body):
    """break / continue statements that belong to the loop whose body this is (not to a nested loop)"""
    found = []

    def walk(stmts):
        for s in stmts:
            if isinstance(s, (ast.Break, ast.Continue)):
                found.append(s)
            elif isinstance(s, (ast.For, ast.While, ast.FunctionDef, ast.AsyncFunctionDef, ast.ClassDef)):
                if isinstance(s, (ast.For, ast.While)):
                    walk(s.orelse)
            else:
                for fld in ("body", "orelse", "finalbody"):
                    walk(getattr(s, fld, []) or [])
                for h in getattr(s, "handlers", []) or []:
                    walk(h.body)
    walk(body)
    return found


def is_generator(fdef):
    for n in ast.walk(fdef):
        if isinstance(n, (ast.Yield, ast.YieldFrom)):
            return True
    return False


class _Rename(ast.NodeTransformer):
    def __init__(self, m):
        self.m = m

    def visit_Name(self, node):
        if node.id in self.m:
            return ast.copy_location(ast.Name(id=self.m[node.id], ctx=node.ctx), node)
        return node


def inline_generators(fdef, lookup, notes=None):
    """`for T in G(a1, ..): B` where G is a helper of the same module WITHOUT a contract whose body yields  ==>  G's body with its locals renamed
    apart, `yield e` replaced by `T = e; B` and `yield from it` by `for T in it: B` (the consumer's body runs where the generator is suspended,
    which is exactly the interleaving of a lazily consumed generator). Side conditions, all syntactic; anything else is left alone (and is then
    outside the subset, as before):
      - G has plain positional parameters (defaults allowed), no *args / **kwargs, no nested def / lambda / class, no `return`, no `global` /
        `nonlocal`, and every yield is a statement of its own (`yield e` / `yield from e`; the value of the yield expression is not used);
      - the call passes positional / keyword arguments only; the loop has no `else`, its body has no `break` / `continue` of its own
        (abandoning or re-entering the suspended generator is not modelled) and does not mention a name G uses as a local;
      - a generator abandoned by a `return` or an exception in B is simply not resumed: the same in the inlined text.
    lookup(call_func_node) -> (FunctionDef, binds_self) or None."""
    fdef = copy.deepcopy(fdef)
    counter = [0]

    class T(ast.NodeTransformer):
        def visit_For(self, node):
            self.generic_visit(node)
            it = node.iter
            if not isinstance(it, ast.Call) or node.orelse:
                return node
            hit = lookup(it.func)
            if hit is None:
                return node
            g, binds_self = hit
            if not is_generator(g):
                return node
            a = g.args
            if a.vararg or a.kwarg or a.kwonlyargs or getattr(a, "posonlyargs", None):
                return node
            if any(isinstance(n, (ast.FunctionDef, ast.Lambda, ast.ClassDef, ast.Return, ast.Global, ast.Nonlocal, ast.AsyncFunctionDef)) for s in g.body for n in ast.walk(s)):
                return node
            yields = [n for s in g.body for n in ast.walk(s) if isinstance(n, (ast.Yield, ast.YieldFrom))]
            stmts = [n for s in g.body for n in ast.walk(s) if isinstance(n, ast.Expr) and isinstance(n.value, (ast.Yield, ast.YieldFrom))]
            if len(yields) != len(stmts) or any(isinstance(y, ast.Yield) and y.value is None for y in yields):
                return node
            if any(isinstance(x, ast.Starred) for x in it.args) or any(k.arg is None for k in it.keywords):
                return node
            if _own_loop_jumps(node.body):
                return node
            params = [x.arg for x in a.args]
            actual = list(it.args)
            if binds_self:
                if not isinstance(it.func, ast.Attribute):
                    return node
                actual = [it.func.value] + actual
            if len(actual) > len(params):
                return node
            bound = dict(zip(params, actual))
            for k in it.keywords:
                if k.arg not in params or k.arg in bound:
                    return node
                bound[k.arg] = k.value
            for nm, d in zip(params[len(params) - len(a.defaults):], a.defaults):
                bound.setdefault(nm, d)
            if any(p not in bound for p in params):
                return node
            counter[0] += 1
            glocals = set(params) | {n.id for s in g.body for n in ast.walk(s) if isinstance(n, ast.Name) and isinstance(n.ctx, (ast.Store, ast.Del))}
            ren = {n: "_gen%d_%s" % (counter[0], n) for n in glocals}
            used_in_consumer = {n.id for s in node.body + [node.target] for n in ast.walk(s) if isinstance(n, ast.Name)}
            if used_in_consumer & set(ren.values()):
                return node
            out = []
            # arguments are evaluated once, left to right, when the generator object is created; the body starts at the first next()
            for p_ in params:
                if p_ in [x for x in bound]:
                    out.append(ast.Assign(targets=[ast.Name(id=ren[p_], ctx=ast.Store())], value=copy.deepcopy(bound[p_]), lineno=node.lineno, col_offset=node.col_offset))
            body = [_Rename(ren).visit(copy.deepcopy(s)) for s in g.body
                    if not (isinstance(s, ast.Expr) and isinstance(s.value, ast.Constant) and isinstance(s.value.value, str))]

            class Y(ast.NodeTransformer):
                def visit_Expr(self, e):
                    if isinstance(e.value, ast.Yield):
                        asg = ast.Assign(targets=[copy.deepcopy(node.target)], value=e.value.value, lineno=e.lineno, col_offset=e.col_offset)
                        return [asg] + copy.deepcopy(node.body)
                    if isinstance(e.value, ast.YieldFrom):
                        return ast.For(target=copy.deepcopy(node.target), iter=e.value.value, body=copy.deepcopy(node.body), orelse=[],
                                       lineno=e.lineno, col_offset=e.col_offset)
                    return e
            for s in body:
                r = Y().visit(s)
                out.extend(r if isinstance(r, list) else [r])
            if notes is not None:
                notes.append("generator helper %s() consumed by the loop at line %d: inlined (its body runs interleaved with the loop body)" % (g.name, node.lineno))
            for s in out:
                ast.fix_missing_locations(s)
            return out
    new = T().visit(fdef)
    ast.fix_missing_locations(new)
    return new


# ------------------------------------------------------------------------------------------------------------------ row builders
def _mentions(node, name):
    return any(isinstance(n, ast.Name) and n.id == name for n in ast.walk(node))


def _is_last_append(call, L):
    """`L[-1].append(x)`"""
    if not (isinstance(call, ast.Call) and isinstance(call.func, ast.Attribute) and call.func.attr == "append" and len(call.args) == 1 and not call.keywords):
        return False
    r = call.func.value
    if not (isinstance(r, ast.Subscript) and isinstance(r.value, ast.Name) and r.value.id == L):
        return False
    sl = r.slice
    return isinstance(sl, ast.UnaryOp) and isinstance(sl.op, ast.USub) and isinstance(sl.operand, ast.Constant) and sl.operand.value == 1


def row_builders(fdef, notes=None):
    """`L.append([]); for ..: .. L[-1].append(e) ..`  ==>  `_rowN = []; for ..: .. _rowN.append(e) ..; L.append(_rowN)`
    (a row that is appended empty and then filled in place through `L[-1]` is the row built first and appended afterwards). Side conditions:
    L is a plain local name (not a parameter, not global / nonlocal, bound to a list display or comprehension somewhere in the function); the two
    statements are adjacent in one block; inside the loop L occurs ONLY as the receiver `L[-1]` of `.append(..)` statements; the loop has no
    `else`, no `break` of its own is needed to be excluded (a `break` leaves the partial row appended in both readings); the statements are not
    inside a `try` of this function (after an exception the partially filled row would be visible in L in one reading only) and L is not
    captured by a nested function."""
    fdef = copy.deepcopy(fdef)
    params = {a.arg for a in fdef.args.args}
    declared = {n_ for n in ast.walk(fdef) if isinstance(n, (ast.Global, ast.Nonlocal)) for n_ in n.names}
    list_locals = set()
    for n in ast.walk(fdef):
        if isinstance(n, ast.Assign) and len(n.targets) == 1 and isinstance(n.targets[0], ast.Name) and isinstance(n.value, (ast.List, ast.ListComp)):
            list_locals.add(n.targets[0].id)
    nested = [n for n in ast.walk(fdef) if isinstance(n, (ast.FunctionDef, ast.Lambda)) and n is not fdef]
    counter = [0]

    def ok_loop(loop, L):
        if loop.orelse or _mentions(loop.iter, L) or _mentions(loop.target, L):
            return False
        uses = 0
        for n in ast.walk(ast.Module(body=loop.body, type_ignores=[])):
            if isinstance(n, ast.Name) and n.id == L:
                uses += 1
        good = 0
        for n in ast.walk(ast.Module(body=loop.body, type_ignores=[])):
            if isinstance(n, ast.Expr) and _is_last_append(n.value, L) and not _mentions(n.value.args[0], L):
                good += 1
        return uses == good and good > 0

    def rewrite_block(stmts, in_try):
        out = []
        i = 0
        while i < len(stmts):
            s = stmts[i]
            nxt = stmts[i + 1] if i + 1 < len(stmts) else None
            hit = None
            if (not in_try and isinstance(s, ast.Expr) and isinstance(s.value, ast.Call) and isinstance(s.value.func, ast.Attribute)
                    and s.value.func.attr == "append" and isinstance(s.value.func.value, ast.Name) and len(s.value.args) == 1 and not s.value.keywords
                    and isinstance(s.value.args[0], ast.List) and not s.value.args[0].elts and isinstance(nxt, ast.For)):
                L = s.value.func.value.id
                if L in list_locals and L not in params and L not in declared and not any(_mentions(f, L) for f in nested) and ok_loop(nxt, L):
                    hit = L
            if hit:
                counter[0] += 1
                row = "_row%d" % counter[0]

                class R(ast.NodeTransformer):
                    def visit_Subscript(self, n):
                        if isinstance(n.value, ast.Name) and n.value.id == hit:
                            return ast.copy_location(ast.Name(id=row, ctx=ast.Load()), n)
                        return self.generic_visit(n)
                loop = R().visit(copy.deepcopy(nxt))
                loop.body = rewrite_block(loop.body, in_try)
                out.append(ast.copy_location(ast.Assign(targets=[ast.Name(id=row, ctx=ast.Store())], value=ast.List(elts=[], ctx=ast.Load())), s))
                out.append(loop)
                app_ = copy.deepcopy(s)
                app_.value.args[0] = ast.Name(id=row, ctx=ast.Load())
                out.append(ast.copy_location(app_, nxt))
                if notes is not None:
                    notes.append("row appended empty at line %d and filled through %s[-1]: read as built first, appended afterwards" % (s.lineno, hit))
                i += 2
                continue
            for fld in ("body", "orelse", "finalbody"):
                if isinstance(getattr(s, fld, None), list) and not isinstance(s, (ast.FunctionDef, ast.Lambda, ast.ClassDef)):
                    setattr(s, fld, rewrite_block(getattr(s, fld), in_try or isinstance(s, ast.Try)))
            for h in getattr(s, "handlers", []) or []:
                h.body = rewrite_block(h.body, True)
            out.append(s)
            i += 1
        return out
    fdef.body = rewrite_block(fdef.body, False)
    ast.fix_missing_locations(fdef)
    return fdef
