"""Contract mode `post`: unary postconditions on every outcome of the real function (used for error.py's total-raise contract, C10)."""
import ast

import z3

from . import terms as T
from .lockstep import Obligation
from .sym import Exec, St, Unsupported
from .terms import V, PyC, Tup, asV, app, pred, NONE, EXC_CODE, IntV, truthy, FA


def wf_partial_tree(ctx):
    """PARTIAL_WF facts as axioms over the accessor functions (see contracts/c_error.py; justified by ATNK group `dominance`)"""
    x = z3.Const("x", V)
    cls = T.fn("class_of", V, z3.IntSort())
    ids = ctx.ctx_ids
    ax = []
    is_ctx = lambda t: z3.And(cls(t) >= 1, cls(t) <= len(ids))
    ax.append(FA([x], pred("is_ctx", x) == is_ctx(x), pred("is_ctx", x)))
    ax.append(FA([x], z3.Implies(is_ctx(x), z3.And(truthy(x), x != NONE)), cls(x)))
    ax.append(cls(NONE) == 0)
    par = app("attr_parentCtx", x)
    ax.append(FA([x], z3.Or(par == NONE, is_ctx(par)), par))
    for cname in ("ExpressionvarContext", "ArrayvarContext"):
        ax.append(FA([x], z3.Implies(cls(x) == ids[cname], z3.And(app("m_name", x) != NONE, app("m_vartype", x) != NONE)), cls(x)))
    op = app("m_operation", x)
    me = app("m_measure", x)
    ax.append(FA([x], z3.Implies(op != NONE, app("m_NAME", op) != NONE), op))
    ax.append(FA([x], z3.Implies(me != NONE, app("m_MEASURE", me) != NONE), me))
    return ax


WF = {"partial_tree": wf_partial_tree}


class PostCheck:
    def __init__(self, ctx, contract):
        self.ctx, self.c = ctx, contract
        self.obs = []
        self.notes = []
        self.stats = {"real_paths": 0, "spec_paths": 0, "loops": 0}
        self.wf_axioms = []

    def ob(self, name, hyps, goal, info):
        raw = str(goal)[:400] if z3.is_expr(goal) else str(bool(goal))
        goal = z3.simplify(goal) if z3.is_expr(goal) else z3.BoolVal(bool(goal))
        self.obs.append(Obligation(name, list(self.wf_axioms) + list(hyps), goal, info, self.c.d.get("families", []), raw))

    def eval_pred(self, fname, args, st):
        """a sidecar predicate (Python subset) evaluated symbolically to a z3 Bool (disjunction over its paths)"""
        fdef = self.ctx.specs[fname]
        ex = Exec(self.ctx, "spec", self.c.name)
        names = [a.arg for a in fdef.args.args]
        outs = ex.run_function(fdef, dict(zip(names, args)), St(glob=dict(st.glob), heap=dict(st.heap)))
        alts = []
        for o in outs:
            if o.kind == "ret":
                alts.append(z3.And(*(o.st.conds + [T.tobool(o.value)])))
        return z3.simplify(z3.Or(*alts)) if alts else z3.BoolVal(False)

    def run(self, real_def, spec_def=None):
        c = self.c
        fname = c.name
        ctx = self.ctx
        saved_axioms = list(ctx.extra_axioms)
        self.wf_axioms = WF[c.d["wf"]](ctx) if c.d.get("wf") else []
        ctx.extra_axioms = saved_axioms + self.wf_axioms
        ctx.reset_solver()
        ctx.none_mode = bool(c.d.get("none_safety"))
        ctx.post_invariants = {int(k): v for k, v in c.d.get("invariants", {}).items()}
        ctx.post_checker = self
        ctx.while_ordinals = {(n.lineno, n.col_offset): i + 1 for i, n in enumerate(sorted((n for n in ast.walk(real_def) if isinstance(n, ast.While)),
                                                                                         key=lambda n: (n.lineno, n.col_offset)))}
        try:
            args = {a.arg: z3.Const("arg_" + a.arg, V) for a in real_def.args.args}
            st0 = St()
            if c.d.get("requires"):
                st0.conds.append(self.eval_pred(c.d["requires"], [args[a.arg] for a in real_def.args.args], st0))
            # vacuity guard: the precondition must be satisfiable
            if not ctx.feasible(st0.conds):
                self.obs.append(Obligation("%s/requires-cover" % fname, [], None, "the precondition is unsatisfiable (vacuous contract)"))
                return
            ex = Exec(ctx, "real", fname)
            ex.ordinal_while = 0
            post = c.d["post"]
            if post.get("returns_none"):
                ex.writes = set()
            outs = ex.run_function(real_def, args, st0)
            self.notes += ex.notes
            outs = [o for o in outs if ctx.feasible(o.st.conds)]
            self.stats["real_paths"] = len(outs)
            if post.get("returns_none"):
                # total-return contract (exception constructors): every path returns None, nothing can escape, nothing but locals is written
                for o in outs:
                    info = "path ending at line %s %s" % (o.line, o.describe())
                    if o.kind != "ret":
                        self.ob("%s/post/never-raises" % fname, o.st.conds, z3.BoolVal(False), info + ": an exception escapes")
                        continue
                    v = o.value
                    isnone = (isinstance(v, PyC) and v.v is None) or v is None
                    self.ob("%s/post/returns-none" % fname, o.st.conds, z3.BoolVal(True) if isnone else (asV(v) == NONE if not isinstance(v, (Tup,)) else z3.BoolVal(False)), info)
                    for (cd, msg, line) in o.st.events:
                        self.ob("%s/post/no-other-exception" % fname, o.st.conds, cd == 0, "partial operation at line %s may fail: %s" % (line, str(cd)[:100]))
                bad = sorted(k for k in (ex.writes or ()) if not k.startswith("local:") and k not in c.d.get("modifies", []))
                self.ob("%s/frame" % fname, [], z3.BoolVal(not bad), "writes outside the declared frame %s: %s" % (c.d.get("modifies", []), bad))
                return
            want = EXC_CODE[post["always_raises"]]
            for o in outs:
                info = "path ending at line %s %s" % (o.line, o.describe())
                if o.kind != "raise":
                    self.ob("%s/post/never-returns" % fname, o.st.conds, z3.BoolVal(False), info + ": the function returns instead of raising")
                    continue
                self.ob("%s/post/raises-only-%s" % (fname, post["always_raises"]), o.st.conds, o.cls == want, info + ((": " + str(o.msg.v)) if isinstance(o.msg, PyC) else ""))
                if z3.is_int_value(o.cls) and o.cls.as_long() == want:
                    self.ob("%s/post/message-prefix" % fname, o.st.conds, self.message_goal(o, args, post), info)
                for (cd, msg, line) in o.st.events:
                    self.ob("%s/post/no-other-exception" % fname, o.st.conds, cd == 0, "partial operation at line %s may fail: %s" % (line, str(cd)[:100]))
        finally:
            ctx.extra_axioms = saved_axioms
            ctx.reset_solver()
            ctx.none_mode = False
            ctx.post_invariants = {}
            ctx.post_checker = None

    def message_goal(self, o, args, post):
        m = o.msg
        if m is None or isinstance(m, PyC) or not z3.is_expr(m):
            return z3.BoolVal(False)
        # the message must be the concatenation  prefix-literal-up-to-first-field + str(arg1) + literal + str(arg2) + ...  of the contract
        import string
        exp_parts = []
        fields = list(string.Formatter().parse(post["message_prefix"]))
        srcs = list(post["message_args"])
        for lit, name, spec, conv in fields:
            if lit:
                exp_parts.append(lit)
            if name is not None:
                e = ast.parse(srcs.pop(0), mode="eval").body
                ex = Exec(self.ctx, "spec", self.c.name)
                st = St(env=dict(args))
                ex.exc_sinks = [[]]
                exp_parts.append(T.as_str_term(ex.ev(e, st)[0][0]))
        got = T.str_parts(m)
        want = T.str_parts(T.strcat(exp_parts))
        if len(got) < len(want):
            return z3.BoolVal(False)
        goals = []
        for i, w in enumerate(want):
            g = got[i]
            if isinstance(w, str):
                last = (i == len(want) - 1)
                if not isinstance(g, str) or not (g.startswith(w) if last else g == w):
                    return z3.BoolVal(False)
            else:
                if isinstance(g, str):
                    return z3.BoolVal(False)
                goals.append(g == w)
        return z3.And(*goals) if goals else z3.BoolVal(True)


def whileloop(ctx, ex, s, p):
    """while with a contract-given invariant (post mode): base case, preservation, and continuation with inv and not cond"""
    pc = getattr(ctx, "post_checker", None)
    if pc is None:
        raise Unsupported("while loop", s)
    k = ctx.while_ordinals.get((s.lineno, s.col_offset))
    invname = ctx.post_invariants.get(k)
    if invname is None and k is None and len(ctx.post_invariants) == 1:
        # the loop sits in a helper that was inlined (moved out of the function under contract): the contract's only invariant applies if
        # the names it speaks about exist here; its base case and preservation are checked as everywhere
        cand = list(ctx.post_invariants.values())[0]
        if all(a.arg in p.env for a in ctx.specs[cand].args.args):
            invname = cand
    if invname is None:
        raise Unsupported("while loop %s has no invariant in the contract" % k, s)
    invdef = ctx.specs[invname]
    pnames = [a.arg for a in invdef.args.args]
    lname = "%s/while@%d" % (pc.c.name, s.lineno)

    def inv_of(st):
        return pc.eval_pred(invname, [st.env[n] if n in st.env else PyC(None) for n in pnames], st)
    pc.ob(lname + "/invariant-holds-on-entry", p.conds, inv_of(p), "invariant %s" % invname)
    # written locations: syntactic (names stored in the body)
    written = sorted("local:" + n for n in ex.syntactic_writes(s))
    q = p.copy()
    ex.havoc(q, written, "wcin")
    q.conds.append(inv_of(q))
    res = []
    for v, q2 in ex.ev(s.test, q):
        b = T.tobool(v)
        qt, qf = q2.assume(b), q2.assume(z3.Not(b))
        if ex.feasible(qt):
            conts = []
            ex.loop_sinks.append(conts)
            try:
                live = ex.block(s.body, [qt])
            finally:
                ex.loop_sinks.pop()
            for q3 in live + conts:
                pc.ob(lname + "/invariant-preserved", q3.conds, inv_of(q3), "invariant %s after one iteration" % invname)
        if ex.feasible(qf):
            res.append(qf)
    return res
