"""python3-vt -m pyvc.run --prop C03 [--tier quick] [--functions a,b]  -> one JSON section (vlib/ENGINE_INTERFACE.md)

For every function under contract that serves the property: re-read the real source from the repository working tree,
generate the obligations against the sidecar contract, discharge them with z3 (cvc5 on unknowns), report.
"""
import argparse
import ast
import os
import sys
import time
import traceback

import z3

from vlib import common as C
from . import lib
from .context import Ctx
from .lockstep import Lockstep, solve
from .sym import Unsupported


def dropped(fdef):
    out = []
    if ast.get_docstring(fdef) is not None:
        out.append("docstring")
    n_ann = sum(1 for a in fdef.args.args if a.annotation is not None)
    if n_ann:
        out.append("%d parameter annotations" % n_ann)
    n_str = sum(1 for n in ast.walk(fdef) if isinstance(n, ast.Expr) and isinstance(n.value, ast.Constant) and isinstance(n.value.value, str))
    if n_str > (1 if ast.get_docstring(fdef) is not None else 0):
        out.append("%d bare string statements (attribute docstrings)" % (n_str - (1 if ast.get_docstring(fdef) is not None else 0)))
    if fdef.decorator_list:
        out.append("decorators: " + ", ".join(ast.unparse(d) for d in fdef.decorator_list))
    out.append("comments")
    return out


_MODSTATE = {}


def module_mutable_names(ctx, sc):
    """module-level names bound to mutable containers (dict/list/set displays or constructor calls) in the repository module"""
    if sc.module in _MODSTATE:
        return _MODSTATE[sc.module]
    out = set()
    try:
        tree = ast.parse(open(os.path.join(ctx.repo, sc.module), newline=None).read())
    except (OSError, SyntaxError):
        tree = ast.Module(body=[], type_ignores=[])
    imported = set()
    for n in tree.body:
        if isinstance(n, ast.Assign):
            v = n.value
            callee = None
            if isinstance(v, ast.Call):
                callee = v.func.id if isinstance(v.func, ast.Name) else (v.func.attr if isinstance(v.func, ast.Attribute) else "?")
            # any object built by a call at import time may be mutable state (caches, registries, weak dictionaries ...) unless known immutable
            mutable = isinstance(v, (ast.Dict, ast.List, ast.Set, ast.ListComp, ast.DictComp, ast.SetComp)) or \
                (callee is not None and callee not in ("namedtuple", "compile", "frozenset", "tuple", "int", "float", "str", "complex", "bool", "TypeVar",
                                                       "getLogger", "NewType", "Symbol", "symbols"))
            if mutable:
                for t in n.targets:
                    if isinstance(t, ast.Name):
                        out.add(t.id)
        elif isinstance(n, ast.ImportFrom) and n.module and n.level >= 1:
            # names imported from sibling modules: mutable if they are mutable there
            sib = os.path.join(os.path.dirname(os.path.join(ctx.repo, sc.module)), n.module.split(".")[-1] + ".py")
            try:
                st = ast.parse(open(sib, newline=None).read())
            except (OSError, SyntaxError):
                continue
            sibmut = set()
            for m in st.body:
                if isinstance(m, ast.Assign) and isinstance(m.value, (ast.Dict, ast.List, ast.Set)) or \
                   (isinstance(m, ast.Assign) and isinstance(m.value, ast.Call) and isinstance(m.value.func, ast.Name) and m.value.func.id in ("dict", "list", "set")):
                    for t in m.targets:
                        if isinstance(t, ast.Name):
                            sibmut.add(t.id)
            for al in n.names:
                if al.name in sibmut:
                    out.add(al.asname or al.name)
    _MODSTATE[sc.module] = out
    return out


def undeclared_module_state(ctx, sc, fdef):
    declared = set(sc.globals) | set(sc.consts) | set(ctx.module_consts)
    mm = module_mutable_names(ctx, sc) - declared
    local = {n.id for n in ast.walk(fdef) if isinstance(n, ast.Name) and isinstance(n.ctx, ast.Store)} | {a.arg for a in fdef.args.args}
    found = {}
    for n in ast.walk(fdef):
        if isinstance(n, ast.Name) and n.id in mm and n.id not in local and n.id not in found:
            found[n.id] = n.lineno
    return sorted(found.items())


class _Canary(ast.NodeTransformer):
    """a deliberately wrong variant of a spec function: every returned value and every value stored into state becomes an unrelated term"""

    def __init__(self):
        self.n = 0

    def wrong(self, node):
        self.n += 1
        new = ast.Call(func=ast.Name(id="CANARY_WRONG_VALUE", ctx=ast.Load()), args=[ast.Constant(value=self.n)], keywords=[])
        return ast.copy_location(new, node)

    def visit_Return(self, node):
        if node.value is not None:
            node.value = self.wrong(node.value)
        return node

    def visit_Assign(self, node):
        self.generic_visit(node)
        if any(isinstance(t, (ast.Attribute, ast.Subscript)) for t in node.targets):
            node.value = self.wrong(node.value)
        return node

    def visit_Call(self, node):
        self.generic_visit(node)
        if isinstance(node.func, ast.Attribute) and node.func.attr in ("append", "extend", "update", "add") and node.args:
            node.args = [self.wrong(node.args[0])] + node.args[1:]
        return node


def canary(ctx, c, real, spec):
    """vacuity guard (thorough tier): the engine must REJECT a wrong spec. Returns None if it does, else a description."""
    import copy as _copy
    bad = _copy.deepcopy(spec)
    tr = _Canary()
    bad = tr.visit(bad)
    if tr.n == 0:
        body = [x for x in bad.body if not (isinstance(x, ast.Expr) and isinstance(x.value, ast.Constant))]
        if len(body) < 1:
            return None
        bad.body = body[1:] or [ast.Pass()]
    ast.fix_missing_locations(bad)
    ls = Lockstep(ctx, c)
    try:
        ls.run(real, bad)
    except Unsupported:
        return None
    for r in getattr(ls, "presolved", []) or []:              # heavy functions: compared in forked children, results arrive solved
        if r["st"] in ("failed", "undecided"):
            return None
    for ob in ls.obs:
        st, _, _, _ = solve(ctx, ob)
        if st in ("failed", "undecided"):
            return None
    n = len(ls.obs) + len(getattr(ls, "presolved", []) or [])
    return "canary: all %d obligations of %s discharge against a deliberately wrong spec (every result / stored value replaced)" % (n, c.qual)


def rename_params(fdef, old, new):
    """the function with its parameters renamed (positions kept); None if a new name is already used for something else in the body"""
    import copy as _copy
    m = {o: n for o, n in zip(old, new) if o != n}
    used = {x.id for x in ast.walk(fdef) if isinstance(x, ast.Name)} | {a.arg for a in fdef.args.kwonlyargs} | \
        ({fdef.args.vararg.arg} if fdef.args.vararg else set()) | ({fdef.args.kwarg.arg} if fdef.args.kwarg else set())
    if any(n in used and n not in m for n in m.values()) or any(isinstance(x, (ast.Lambda, ast.FunctionDef)) and x is not fdef for x in ast.walk(fdef)):
        return None
    f = _copy.deepcopy(fdef)
    for a in f.args.args:
        a.arg = m.get(a.arg, a.arg)
    for x in ast.walk(f):
        if isinstance(x, ast.Name) and x.id in m:
            x.id = m[x.id]
        if isinstance(x, ast.keyword) and False:
            pass
    return f


def verify_function(ctx, c, section, only_prop):
    sc = c.sidecar
    ctx.cur_globals = sc.globals
    ctx.cur_module = sc.module
    ctx.cur_class = c.qual.split(".")[0] if "." in c.qual else None
    real, path = ctx.extract(sc.module, c.qual)
    if real is None:
        section["errors"].append("function %s not found in %s (named by a contract)" % (c.qual, sc.module))
        return
    rparams = [a.arg for a in real.args.args]
    if rparams != c.params:
        renamed = rename_params(real, rparams, c.params) if len(rparams) == len(c.params) else None
        if renamed is None:
            # a changed signature (a parameter added, removed or reordered) is outside what the contract speaks about: nobody decides this function
            section["functions"].append({"qualname": "%s:%s" % (sc.module, c.qual), "file": path, "sha256": C.sha256_file(path),
                                         "lines": [real.lineno, real.end_lineno], "dropped": dropped(real), "contract_mode": c.mode, "props": c.props})
            section["obligations"].append({"name": "%s/*" % c.name, "status": C.UNREACHABLE, "backend": "none", "time_s": 0,
                                           "detail": "signature differs from the contract: parameters are %s, the contract says %s" % (rparams, c.params),
                                           "props": c.props, "witness_families": c.d.get("families", [])})
            return
        section["notes"].append("%s: parameters renamed %s -> verified under the contract's names %s (callers passing them by keyword would notice)"
                                % (c.name, rparams, c.params))
        real = renamed
    section["functions"].append({"qualname": "%s:%s" % (sc.module, c.qual), "file": path, "sha256": C.sha256_file(path),
                                 "lines": [real.lineno, real.end_lineno], "dropped": dropped(real), "contract_mode": c.mode, "props": c.props})
    # modular reasoning assumes the function depends on the declared state only: module-level mutable objects it touches must be declared
    undeclared = undeclared_module_state(ctx, sc, real)
    for nm, line in undeclared:
        section["obligations"].append({"name": "%s/frame/undeclared-module-state:%s" % (c.name, nm), "status": C.FAILED, "backend": "closed-eval", "time_s": 0,
                                       "goal": "%s reads and writes only the module state its contract declares (%s)" % (c.qual, ", ".join(sc.globals) or "none"),
                                       "detail": "line %d: uses the module-level mutable object `%s`, which the contract does not list: results may depend on "
                                                 "earlier calls (hidden state)" % (line, nm), "props": c.props, "witness_families": c.d.get("families", []),
                                       "counterexample": {"name": nm, "line": line}})
    # the contract speaks about the function's own body; callers get whatever the decorators return
    for d_ in real.decorator_list:
        dn = ast.unparse(d_)
        base = dn.split("(")[0].split(".")[-1]
        if base in ("property", "staticmethod", "classmethod", "setter", "getter", "deleter", "abstractmethod", "wraps", "override", "final"):
            continue
        memo = any(w in dn.lower() for w in ("cache", "memo", "lru"))
        section["obligations"].append({"name": "%s/frame/decorator:%s" % (c.name, base), "status": C.FAILED if memo else C.UNREACHABLE, "backend": "closed-eval", "time_s": 0,
                                       "goal": "%s is called as written (no wrapper between the callers and the body under contract)" % c.qual,
                                       "detail": "line %d: decorated with @%s: %s" % (d_.lineno, dn[:80], "results are kept across calls (hidden state, shared objects)" if memo
                                                 else "the wrapper is not under contract"),
                                       "props": c.props, "witness_families": c.d.get("families", []), "counterexample": {"decorator": dn[:120]}})
    if c.mode == "trusted":
        section["trusted"].append("contract of %s assumed, body not verified: %s" % (c.qual, c.d.get("why", "")))
        return
    t0 = time.time()
    spec = ctx.specs.get(c.spec) if c.spec else None
    if spec is None and c.mode != "post":
        section["errors"].append("spec function %s of %s missing in the sidecar" % (c.spec, c.qual))
        return
    from .normalise import inline_aliases, inline_generators

    def _helper(fn):
        """a helper of the module under verification that has no contract of its own (module function, or method of the current class)"""
        if isinstance(fn, ast.Name) and fn.id not in ctx.contracts:
            g, _ = ctx.extract(sc.module, fn.id)
            return (g, False) if isinstance(g, ast.FunctionDef) else None
        if isinstance(fn, ast.Attribute) and isinstance(fn.value, ast.Name) and ctx.cur_class and fn.attr not in ctx.contracts \
                and fn.value.id in ("self", ctx.cur_class):
            g, _ = ctx.extract(sc.module, ctx.cur_class + "." + fn.attr)
            if isinstance(g, ast.FunctionDef):
                decos = [ast.unparse(d) for d in g.decorator_list]
                if all(d == "staticmethod" for d in decos):
                    return (g, not decos and fn.value.id == "self")
        return None
    gnotes = []
    real = inline_generators(real, _helper, gnotes)
    section["notes"].extend("%s: %s" % (c.name, n) for n in gnotes)
    from .normalise import row_builders
    rnotes = []
    real = row_builders(real, rnotes)
    section["notes"].extend("%s: %s" % (c.name, n) for n in rnotes)
    real, anotes = inline_aliases(real)
    if spec is not None:
        spec = row_builders(spec)
        spec, _ = inline_aliases(spec)
    section["notes"].extend("%s: %s" % (c.name, n) for n in anotes)
    keys = ("obligations", "errors", "notes")
    mark = {k: len(section[k]) for k in keys}
    ctx.no_closed_form = True
    _attempt(ctx, c, section, real, spec, t0)
    bad = [o for o in section["obligations"][mark["obligations"]:] if o["status"] in (C.FAILED, C.UNDECIDED, C.UNREACHABLE)]
    if bad and c.mode == "equiv" and len(section["errors"]) == mark["errors"]:
        # second attempt: loops that only build a collection are replaced by a closed form on both sides, so that a loop rewritten as a
        # comprehension (or split / fused) needs no pairing. Either attempt is a complete proof attempt; the first one's failures are
        # reported unless the second discharges everything.
        first = {k: section[k][mark[k]:] for k in keys}
        pf = section["extra"]["per_function"].get(c.name)
        for k in keys:
            del section[k][mark[k]:]
        ctx.no_closed_form = False
        try:
            _attempt(ctx, c, section, real, spec, t0)
        finally:
            ctx.no_closed_form = True
        again = section["obligations"][mark["obligations"]:]
        if again and all(o["status"] == C.DISCHARGED for o in again) and len(section["errors"]) == mark["errors"]:
            section["notes"].append("%s: discharged on the second attempt (collection-building loops in closed form); the pairing attempt left %d open"
                                    % (c.name, len(bad)))
        else:
            if os.environ.get("VERIF_CF_DEBUG"):
                for o in again:
                    if o["status"] != C.DISCHARGED:
                        print("CF-ATTEMPT", o["name"], o["status"], (o.get("goal") or "")[:300], (o.get("detail") or "")[:300], file=sys.stderr)
            for k in keys:
                del section[k][mark[k]:]
                section[k].extend(first[k])
            if pf is not None:
                section["extra"]["per_function"][c.name] = pf


def _attempt(ctx, c, section, real, spec, t0):
    ctx.hidden_state = []
    if c.mode == "post":
        from .postcheck import PostCheck
        ls = PostCheck(ctx, c)
    else:
        ls = Lockstep(ctx, c)
    try:
        ls.run(real, spec)
    except Unsupported as u:
        section["obligations"].append({"name": "%s/*" % c.name, "status": C.UNREACHABLE, "backend": "none", "time_s": 0,
                                       "detail": "outside the supported subset: %s" % u, "props": c.props, "witness_families": c.d.get("families", [])})
        return
    except Exception:
        section["errors"].append("PyVC crashed on %s: %s" % (c.qual, traceback.format_exc()[-2500:]))
        return
    for hname, hline, deco in sorted(set(ctx.hidden_state)):
        section["obligations"].append({"name": "%s/frame/undeclared-module-state:%s" % (c.name, hname), "status": C.FAILED, "backend": "closed-eval", "time_s": 0,
                                       "goal": "%s depends on the declared state only" % c.qual,
                                       "detail": "line %d: calls %s(), which is memoised by @%s: results are kept across calls and loads (keyed by == and hash)"
                                                 % (hline, hname, deco), "props": c.props, "witness_families": c.d.get("families", []),
                                       "counterexample": {"helper": hname, "decorator": deco}})
    n_real = 0
    agg = {}
    for r in getattr(ls, "presolved", []) or []:
        if r["st"] == "infeasible":
            agg["infeasible"] = agg.get("infeasible", 0) + 1
            continue
        n_real += 1
        rec = {"name": r["name"], "status": {"discharged": C.DISCHARGED, "failed": C.FAILED, "undecided": C.UNDECIDED}[r["st"]], "backend": r["backend"],
               "time_s": round(r["dt"], 4), "goal": r["goal"], "info": (r["info"] or "")[:160], "props": c.props, "witness_families": r["families"]}
        if r["st"] != "discharged":
            rec["detail"] = r["detail"]
            rec["counterexample"] = {"path_conditions": r["hyps"]}
        section["obligations"].append(rec)
    for ob in ls.obs:
        st, backend, detail, dt = solve(ctx, ob)
        if st == "infeasible":
            agg.setdefault("infeasible", 0)
            agg["infeasible"] += 1
            continue
        n_real += 1
        rec = {"name": ob.name, "status": {"discharged": C.DISCHARGED, "failed": C.FAILED, "undecided": C.UNDECIDED}[st], "backend": backend,
               "time_s": round(dt, 4), "goal": (ob.raw or str(ob.goal))[:300] if ob.goal is not None else None, "info": (ob.info or "")[:160], "props": c.props,
               "witness_families": ob.families}
        if st != "discharged":
            rec["detail"] = detail
            rec["counterexample"] = {"path_conditions": [str(h)[:200] for h in ob.hyps[-12:]]}
        section["obligations"].append(rec)
    if n_real == 0:
        section["errors"].append("zero feasible obligations for %s (vacuity guard)" % c.qual)
    if os.environ.get("VERIF_CANARY") == "1" and c.mode == "equiv" and spec is not None:
        t1 = time.time()
        why = canary(ctx, c, real, spec)
        section["obligations"].append({"name": "%s/canary" % c.name, "status": C.DISCHARGED if why is None else C.ERROR, "backend": "z3", "time_s": round(time.time() - t1, 3),
                                       "goal": "a deliberately wrong spec of %s is rejected (the engine does not prove everything)" % c.qual, "detail": why, "props": c.props})
    section["extra"]["per_function"][c.name] = {"obligations": n_real, "infeasible_pairs": agg.get("infeasible", 0), "wall_s": round(time.time() - t0, 2),
                                                 **ls.stats}
    section["notes"].extend("%s: %s" % (c.name, n) for n in ls.notes[:10])


_CTX = None


def _one(name):
    """verify one function in a fresh section (worker process)"""
    global _CTX
    if _CTX is None:
        _CTX = Ctx(C.REPO, os.path.join(C.VERIF, "contracts"))
    ctx = _CTX
    ctx.assumed = set()
    part = {"obligations": [], "errors": [], "notes": [], "functions": [], "trusted": [], "extra": {"per_function": {}}}
    try:
        verify_function(ctx, ctx.contracts[name], part, None)
    except Exception:
        part["errors"].append("PyVC worker crashed on %s: %s" % (name, traceback.format_exc()[-2000:]))
    print("  %-28s %s" % (name, part["extra"]["per_function"].get(name, "")), file=sys.stderr)
    return part, sorted(x for x in ctx.assumed if x)


def main():
    ap = argparse.ArgumentParser()
    ap.add_argument("--prop", required=True)
    ap.add_argument("--tier", default="quick")
    ap.add_argument("--functions", default="")
    ap.add_argument("--jobs", type=int, default=min(12, os.cpu_count() or 4))
    a = ap.parse_args()
    t0 = time.time()
    section = {"engine": "pyvc", "obligations": [], "bounded": [], "errors": [], "notes": [], "functions": [], "assumptions": [], "trusted": [],
               "extra": {"per_function": {}}}
    try:
        ctx = Ctx(C.REPO, os.path.join(C.VERIF, "contracts"))
    except Exception:
        section["errors"].append("cannot load contracts: " + traceback.format_exc()[-2000:])
        C.emit_section(section)
        return 0
    want = set(a.functions.split(",")) if a.functions else None
    todo = []
    for name, c in sorted(ctx.contracts.items()):
        if want is not None:
            if name not in want:
                continue
        elif a.prop != "ALL" and a.prop not in c.props:
            continue
        todo.append(name)
    # one process per function (a z3 context each), the expensive ones first
    cost = {"serialize": 100, "exitArrayvar": 60, "exitStatement": 25, "exitForloop": 5, "match_template": 5, "exitExpressionvar": 3}
    todo.sort(key=lambda n: -cost.get(n, 1))
    if len(todo) > 1 and a.jobs > 1:
        import multiprocessing
        with multiprocessing.Pool(min(a.jobs, len(todo))) as pool:
            parts = pool.map(_one, todo, chunksize=1)
    else:
        parts = [_one(n) for n in todo]
    for part, assumed in parts:
        for k in ("obligations", "errors", "notes", "functions", "trusted"):
            section[k].extend(part[k])
        section["extra"]["per_function"].update(part["extra"]["per_function"])
        ctx.assumed |= set(assumed)
    for aid in sorted(x for x in ctx.assumed if x):
        section["trusted"].append("%s: %s" % (aid, lib.ASSUMED_TEXT.get(aid, "")))
    section["trusted"].append("PyVC's semantics of the Python subset (evaluation order, short-circuit, exception propagation, truthiness) -- cross-checked by the "
                              "witness layer and the mutation self-test, not proved; z3 %s" % z3.get_version_string())
    section["assumptions"].append("A-float: machine floats read as mathematical reals; arithmetic operators are uninterpreted symbols with the field identities of lib.axioms()")
    section["assumptions"].append("distinct access paths from parameters denote distinct heap objects (functional obligations only; aliasing is checked by the frame engine)")
    section["extra"]["wall_s"] = round(time.time() - t0, 2)
    section["extra"]["feasibility_queries"] = ctx.n_feas
    C.emit_section(section)
    return 0


if __name__ == "__main__":
    sys.exit(main())
