"""PyVC symbolic executor: path-splitting execution of the supported Python subset over the value universe of terms.py.

One function at a time; callees under contract are replaced by their summaries; exceptions are first-class outcomes;
loops are executed once for an arbitrary iteration (LoopRecord) and summarised by shared constants, so that the
real function and its spec function can be compared relationally (lockstep.py).
"""
import ast
import itertools
import os
import sys

import z3

from .terms import (V, PyC, Tup, ClassRef, Closure, ExcVal, asV, tobool, app, pred, code, fn, NONE, TRUE, FALSE, NIL_LIST, NIL_DICT, NIL_SET,
                    IntV, StrV, EXC_CODE, subclasses, code_in, truthy, I, B)


def T_is_string(v):
    from .terms import is_string_term
    return is_string_term(v)


def T_strcat(parts):
    from .terms import strcat
    return strcat(parts)


class Unsupported(Exception):
    """construct outside the supported subset (DESIGN 2.1): obligations of the function become unreachable-by-verifier"""

    def __init__(self, msg, node=None):
        loc = " (line %s)" % getattr(node, "lineno", "?") if node is not None else ""
        super().__init__(msg + loc)


class St:
    """symbolic state of one path (copy-on-write by explicit copy())"""
    __slots__ = ("env", "glob", "heap", "conds", "loops", "events", "alias")

    def __init__(self, env=None, glob=None, heap=None, conds=None, loops=None, events=None, alias=None):
        self.alias = alias if alias is not None else {}       # local name -> (lvalue expression it was bound to, value then): `a = d["k"]`
        self.env = env if env is not None else {}
        self.glob = glob if glob is not None else {}
        self.heap = heap if heap is not None else {}
        self.conds = conds if conds is not None else []
        self.loops = loops if loops is not None else []
        self.events = events if events is not None else []     # (exception code term, message, line) of partial operations passed

    def copy(self):
        return St(dict(self.env), dict(self.glob), dict(self.heap), list(self.conds), list(self.loops), list(self.events), dict(self.alias))

    def assume(self, c):
        s = self.copy()
        s.conds.append(c)
        return s


class Outcome:
    __slots__ = ("kind", "value", "cls", "msg", "st", "line")

    def __init__(self, kind, st, value=None, cls=None, msg=None, line=None):
        self.kind, self.st, self.value, self.cls, self.msg, self.line = kind, st, value, cls, msg, line

    def describe(self):
        if self.kind == "ret":
            return "returns"
        if self.kind == "raise":
            if z3.is_int_value(self.cls):
                n = self.cls.as_long()
                names = [k for k, v in EXC_CODE.items() if v == n]
                return "raises %s" % (names[0] if names else n)
            return "raises <%s>" % self.cls
        return self.kind


def dicts_of_lists(fdef):
    """local names bound only to empty dict displays whose every stored value is a list by construction: `d[k] = [..]`, `d[k] = [.. for ..]`,
    `d.setdefault(k, [..])`, and that are never handed to anything that could store something else (no call gets the dict itself, no method
    other than items / values / keys / get / setdefault / pop is called on it)"""
    cand = {}
    for n in ast.walk(fdef):
        if isinstance(n, ast.Assign) and len(n.targets) == 1 and isinstance(n.targets[0], ast.Name):
            v = n.value
            empty = (isinstance(v, ast.Dict) and not v.keys) or (isinstance(v, ast.Call) and isinstance(v.func, ast.Name) and v.func.id == "dict" and not v.args and not v.keywords)
            nm = n.targets[0].id
            cand[nm] = cand.get(nm, True) and empty
    names = {k for k, ok in cand.items() if ok}
    if not names:
        return set()
    listy = lambda v: isinstance(v, (ast.List, ast.ListComp)) or (isinstance(v, ast.Call) and isinstance(v.func, ast.Name) and v.func.id == "list")
    bad = set()
    parents = {}
    for n in ast.walk(fdef):
        for c in ast.iter_child_nodes(n):
            parents[id(c)] = n
    for n in ast.walk(fdef):
        if not (isinstance(n, ast.Name) and n.id in names):
            continue
        par = parents.get(id(n))
        if isinstance(n.ctx, ast.Store):
            if not (isinstance(par, ast.Assign) and par.targets[0] is n):
                bad.add(n.id)                                    # bound by a loop / with / tuple assignment
            continue
        if isinstance(n.ctx, ast.Del):
            bad.add(n.id)
            continue
        if isinstance(par, ast.Subscript) and par.value is n:
            gp = parents.get(id(par))
            if isinstance(par.ctx, ast.Store):
                if isinstance(gp, ast.Assign) and listy(gp.value):
                    continue
                if isinstance(gp, ast.AugAssign) and isinstance(gp.op, ast.Add):
                    continue
                bad.add(n.id)
            continue                                             # d[k] read (also d[k].append(..), d[k][i] = ..) or del d[k]
        if isinstance(par, ast.Attribute) and par.value is n:
            gp = parents.get(id(par))
            if isinstance(gp, ast.Call) and gp.func is par:
                if par.attr in ("items", "values", "keys", "get", "pop", "clear", "copy"):
                    continue
                if par.attr == "setdefault" and len(gp.args) == 2 and listy(gp.args[1]) and not gp.keywords:
                    continue
            bad.add(n.id)
            continue
        if isinstance(par, ast.Compare) and n in par.comparators and all(isinstance(o, (ast.In, ast.NotIn)) for o in par.ops):
            continue                                             # k in d
        if isinstance(par, ast.Call) and isinstance(par.func, ast.Name) and par.func.id in ("len", "sorted", "list", "iter", "bool") and par.args == [n]:
            continue
        if isinstance(par, (ast.For, ast.comprehension)) and par.iter is n:
            continue
        bad.add(n.id)                                            # handed to a call, returned, stored somewhere, ...
    return names - bad


class LoopRecord:
    def __init__(self, uid):
        self.uid = uid
        self.iter = None
        self.written = []          # location keys written by the body
        self.cin = {}              # key -> const (arbitrary state at the start of an iteration)
        self.cout = {}             # key -> const (state after the loop)
        self.elem = None
        self.entry_conds = []
        self.n_events = 0          # number of events on the path at loop entry
        self.entry_vals = {}       # key -> value at loop entry (used to pair renamed locals of real and spec)
        self.body = []             # Outcomes of one iteration: kind next|ret|raise
        self.exit = None           # Int const: 0 completed, -1 returned from inside, >0 exception code
        self.retv = None
        self.msg = None
        self.node = None
        self.list_keys = set()     # locals that are lists at loop entry and are only changed by list methods in the body: lists throughout
        self.str_keys = set()      # locals that are strings at loop entry and are only ever bound to string-valued expressions in the body


_uid = itertools.count(1)


def _compound_subterms(t, out=None, depth=0):
    """s-expressions of the applications (with arguments) inside a term, outermost first, a few levels deep"""
    if out is None:
        out = []
    if depth > 6 or len(out) > 60:
        return out
    if z3.is_app(t) and t.num_args() > 0:
        k = t.decl().kind()
        if k == z3.Z3_OP_UNINTERPRETED:
            out.append(t.sexpr())
        for a in t.children():
            _compound_subterms(a, out, depth + 1)
    return out


def fresh(base):
    return z3.Const("%s!%d" % (base, next(_uid)), V)


def fresh_int(base):
    return z3.Const("%s!%d" % (base, next(_uid)), I)


class Loc:
    """an assignable location: get() -> value, set(v) (both on a given St)"""

    def __init__(self, key, get, set_):
        self.key, self.get, self.set = key, get, set_


MUTATORS = {"append", "extend", "insert", "remove", "pop", "clear", "update", "add", "setdefault", "sort", "reverse", "discard", "popitem"}


class Exec:
    def __init__(self, ctx, side, fname):
        """ctx: run-wide context (contracts, library, solver, module info); side: 'real'|'spec'|'dry'"""
        self.ctx, self.side, self.fname = ctx, side, fname
        self.exc_sinks = []        # stack of lists collecting ('raise') outcomes
        self.ret_sink = None
        self.loop_sinks = []       # stack of lists collecting 'next' (continue) paths for the innermost loop body
        self.break_sinks = []      # likewise for `break`
        self.loop_hook = None      # lockstep installs a hook that pairs loops with the other side's records
        self.notes = []
        self.writes = None         # when not None: set collecting written location keys (dry run)
        self.depth = 0
        self.fn_locals = set()
        self.mutated = set()       # location keys mutated in place (method call / item assignment)
        self.rebound = set()       # local names re-bound by plain assignment
        self.pure = 0              # >0 while computing a location: receivers are evaluated without recording exceptional behaviour
        self.try_depth = 0

    # ------------------------------------------------------------------------------------------------ running
    def run_function(self, fdef, args, st):
        """args: dict param -> value. returns list of Outcome (ret / raise)"""
        st = st.copy()
        st.env = dict(args)
        self.fn_locals = {n.id for n in ast.walk(fdef) if isinstance(n, ast.Name) and isinstance(n.ctx, ast.Store)} - set(self.ctx.cur_globals)
        self.ctx.dict_of_lists = dicts_of_lists(fdef) - set(args)
        outs = []
        self.ret_sink = outs
        self.exc_sinks.append(outs)
        try:
            for p in self.block(fdef.body, [st]):
                outs.append(Outcome("ret", p, value=PyC(None)))
        finally:
            self.exc_sinks.pop()
        return outs

    def may_raise(self, p, c, msg=None, line=None):
        """a partial primitive with exception code `c` (0 = normal) was executed on path p; returns the continuing path or None.
        Inside a try block the exceptional outcome is forked (a handler may catch it); elsewhere the path only records the event:
        real and spec must pass the same events (lockstep.relate_events), which avoids one fork per library call."""
        if self.pure:
            return p
        if self.try_depth > 0:
            pe = p.assume(c != 0)
            if self.feasible(pe):
                self.raise_(pe, c, msg, line)
            pk = p.assume(c == 0)
            return pk if self.feasible(pk) else None
        q = p.copy()
        q.events.append((c, msg, line))
        return q

    def raise_(self, st, cls, msg=None, line=None):
        if self.pure:
            return
        if isinstance(cls, str):
            cls = z3.IntVal(EXC_CODE[cls])
        self.exc_sinks[-1].append(Outcome("raise", st, cls=cls, msg=msg, line=line))

    def feasible(self, st):
        return self.ctx.feasible(st.conds)

    def block(self, stmts, paths):
        for s in stmts:
            nxt = []
            for p in paths:
                nxt.extend(self.stmt(s, p))
            paths = nxt
            if not paths:
                break
        return paths

    # ------------------------------------------------------------------------------------------------ statements
    def stmt(self, s, p):
        if isinstance(s, ast.Expr):
            if isinstance(s.value, ast.Constant):
                return [p]
            return [p2 for _, p2 in self.ev(s.value, p)]
        if isinstance(s, ast.Return):
            if s.value is None:
                self.ret_sink.append(Outcome("ret", p, value=PyC(None)))
            else:
                for v, p2 in self.ev(s.value, p):
                    self.ret_sink.append(Outcome("ret", p2, value=v))
            return []
        if isinstance(s, ast.Raise):
            return self.do_raise(s, p)
        if isinstance(s, ast.Assign):
            res = []
            for v, p2 in self.ev(s.value, p):
                p3 = p2.copy()
                ok = [p3]
                for tgt in s.targets:
                    ok = [q for q0 in ok for q in self.assign(tgt, v, q0)]
                if len(s.targets) == 1 and isinstance(s.targets[0], ast.Name) and isinstance(s.value, (ast.Subscript, ast.Attribute)) \
                   and z3.is_expr(v) and not z3.is_bool(v) and not isinstance(getattr(s.value, "slice", None), ast.Slice):
                    # a local bound to a part of another object: later changes through the local are changes of that object (while both
                    # still denote the same value)
                    for q in ok:
                        q.alias[s.targets[0].id] = (s.value, asV(v).sexpr())
                res.extend(ok)
            return res
        if isinstance(s, ast.AugAssign):
            return self.augassign(s, p)
        if isinstance(s, ast.If):
            res = []
            for v, p2 in self.ev(s.test, p):
                b = tobool(v)
                pt, pf = p2.assume(b), p2.assume(z3.Not(b))
                if self.feasible(pt):
                    res.extend(self.block(s.body, [pt]))
                if self.feasible(pf):
                    res.extend(self.block(s.orelse, [pf]))
            return res
        if isinstance(s, ast.For):
            return self.forloop(s, p)
        if isinstance(s, ast.While):
            return self.whileloop(s, p)
        if isinstance(s, ast.Try):
            return self.trystmt(s, p)
        if isinstance(s, ast.Delete):
            res = [p]
            for tgt in s.targets:
                res = [q for q0 in res for q in self.delete(tgt, q0)]
            return res
        if isinstance(s, ast.Pass):
            return [p]
        if isinstance(s, ast.Continue):
            if not self.loop_sinks:
                raise Unsupported("continue outside loop", s)
            self.loop_sinks[-1].append(p)
            return []
        if isinstance(s, ast.Break):
            if not self.break_sinks:
                raise Unsupported("break outside a summarised loop", s)
            self.break_sinks[-1].append(p)
            return []
        if isinstance(s, (ast.Import, ast.ImportFrom)):
            self.notes.append("local import ignored at line %d" % s.lineno)
            return [p]
        if isinstance(s, ast.FunctionDef):
            p2 = p.copy()
            p2.env[s.name] = Closure(s, None)
            return [p2]
        if isinstance(s, ast.Assert):
            return [p]
        if isinstance(s, (ast.Global, ast.Nonlocal)):
            return [p]
        raise Unsupported("statement %s" % type(s).__name__, s)

    def do_raise(self, s, p):
        exc = s.exc
        if exc is None:
            raise Unsupported("bare raise", s)
        for v, p2 in self.ev(exc, p):
            if isinstance(v, ExcVal):
                self.raise_(p2, v.cls, v.msg, s.lineno)
            elif isinstance(v, ClassRef):
                self.raise_(p2, v.name, None, s.lineno)
            else:
                raise Unsupported("raise of a computed value", s)
        return []

    def trystmt(self, s, p):
        if s.finalbody:
            raise Unsupported("try/finally", s)
        caught = []
        self.exc_sinks.append(caught)
        self.try_depth += 1
        try:
            live = self.block(s.body, [p])
        finally:
            self.try_depth -= 1
            self.exc_sinks.pop()
        if s.orelse:
            live = self.block(s.orelse, live)           # runs only when the body raised nothing; its exceptions are not caught here
        for o in caught:
            if o.kind != "raise":
                self.exc_sinks[-1].append(o)
                continue
            remaining = o.st
            handled_all = False
            for h in s.handlers:
                if h.type is None:
                    names = None
                else:
                    tnodes = h.type.elts if isinstance(h.type, ast.Tuple) else [h.type]
                    names = []
                    for t in tnodes:
                        names.extend(subclasses(t.id if isinstance(t, ast.Name) else t.attr))
                if names is None:
                    cond = z3.BoolVal(True)
                else:
                    cond = z3.simplify(code_in(o.cls, names))
                if z3.is_false(cond):
                    continue
                ph = remaining.assume(cond)
                if self.feasible(ph):
                    if h.name:
                        ph = ph.copy()
                        ph.env[h.name] = app("exc_value", IntV(o.cls), asV(o.msg) if o.msg is not None else NONE)
                    live.extend(self.block(h.body, [ph]))
                if z3.is_true(cond):
                    handled_all = True
                    break
                remaining = remaining.assume(z3.Not(cond))
            if not handled_all and self.feasible(remaining):
                self.exc_sinks[-1].append(Outcome("raise", remaining, cls=o.cls, msg=o.msg, line=o.line))
        return live

    # ------------------------------------------------------------------------------------------------ locations
    def loc(self, e, p):
        """Location for an lvalue / receiver expression, or None. Receiver sub-expressions are evaluated in pure mode: exceptions
        raised while *computing the location* are not modelled (stated in the evidence)."""
        self.pure += 1
        try:
            return self._loc(e, p)
        finally:
            self.pure -= 1

    def _loc(self, e, p):
        if isinstance(e, ast.Name):
            name = e.id
            if name not in p.env and name not in self.ctx.globals_of(self.fname) and name not in self.fn_locals and not isinstance(e.ctx, ast.Store):
                return None          # a module-level name (constant table, class, function): not a location
            if name in p.env or name not in self.ctx.globals_of(self.fname):
                def get(st, name=name):
                    if name in st.env:
                        return st.env[name]
                    raise Unsupported("read of unbound local %s" % name, e)

                def set_(st, v, name=name):
                    st.env[name] = v
                other = self._aliased(name, p) if not isinstance(e.ctx, ast.Store) else None
                if other is not None:
                    def set2(st, v, name=name, other=other):
                        st.env[name] = v
                        other.set(st, v)
                        self.note_write("local:" + name)
                        st.alias[name] = (st.alias[name][0], asV(v).sexpr()) if name in st.alias else None
                        if st.alias.get(name) is None:
                            st.alias.pop(name, None)
                    return Loc(other.key, get, set2)
                return Loc("local:" + name, get, set_)

            def gget(st, name=name):
                return st.glob[name]

            def gset(st, v, name=name):
                st.glob[name] = v
            return Loc("global:" + name, gget, gset)
        if isinstance(e, ast.Attribute):
            objs = self.ev(e.value, p)
            if len(objs) != 1:
                return None
            if isinstance(objs[0][0], (ClassRef, PyC, Tup)):
                return None
            obj = asV(objs[0][0])
            attr_name = self.ctx.field_of(e.attr)
            hk = (obj.sexpr(), attr_name)
            self.ctx.heap_terms[hk[0]] = obj

            def hget(st, hk=hk, obj=obj, attr=attr_name):
                if hk in st.heap:
                    return st.heap[hk]
                return app("attr_" + attr, obj)

            def hset(st, v, hk=hk):
                st.heap[hk] = v
            return Loc("heap:%s.%s" % hk, hget, hset)
        if isinstance(e, ast.Subscript):
            base = self._loc(e.value, p)
            if base is None:
                return None
            ks = self.ev(e.slice, p)
            if len(ks) != 1:
                return None
            k = ks[0][0]

            def sget(st, base=base, k=k):
                return self.getitem_pure(base.get(st), k)

            def sset(st, v, base=base, k=k):
                base.set(st, self.setitem(base.get(st), k, v))
            return Loc(base.key, sget, sset)       # a write to an element is a write to the container's location
        return None

    def _aliased(self, name, p):
        """the location a local was bound to (`a = d["k"]`), if both still hold the value they had then"""
        al = p.alias.get(name)
        if al is None or name not in p.env or getattr(self, "_in_alias", False):
            return None
        expr, sx = al
        self._in_alias = True
        try:
            other = self._loc(expr, p)
            if other is None:
                return None
            cur, oth = p.env[name], other.get(p)
            if oth is None or isinstance(cur, (PyC, ClassRef, Closure)) or isinstance(oth, (PyC, ClassRef, Closure)):
                return None
            if asV(cur).sexpr() != sx or asV(oth).sexpr() != sx:
                return None
            return other
        except Unsupported:
            return None
        finally:
            self._in_alias = False

    def note_write(self, key):
        if self.writes is not None:
            self.writes.add(key)

    def assign(self, tgt, v, p):
        """assign in place on p (already a private copy); returns list of continuing paths"""
        if isinstance(tgt, ast.Name):
            p.alias.pop(tgt.id, None)
            l = self.loc(tgt, p)
            l.set(p, v)
            self.note_write(l.key)
            self.rebound.add(l.key)
            return [p]
        if isinstance(tgt, (ast.Tuple, ast.List)):
            n = len(tgt.elts)
            if isinstance(v, Tup):
                if len(v.items) != n:
                    self.raise_(p, "ValueError", None, tgt.lineno)
                    return []
                items = v.items
                paths = [p]
            else:
                vv = asV(v)
                # (a wrong arity would raise ValueError: not modelled -- `a, b = x` and `a = x[0]; b = x[1]` are the same to the verifier)
                items = [app("getitem", vv, IntV(i)) for i in range(n)]
                paths = [p]
            for el, it in zip(tgt.elts, items):
                paths = [q for q0 in paths for q in self.assign(el, it, q0)]
            return paths
        if isinstance(tgt, ast.Attribute):
            l = self.loc(tgt, p)
            if l is None:
                raise Unsupported("attribute assignment target", tgt)
            l.set(p, v)
            self.note_write(l.key)
            self.ctx.effect(self, p, "attr-assign", l.key, tgt)
            return [p]
        if isinstance(tgt, ast.Subscript):
            l = self.loc(tgt, p)
            if l is None:
                raise Unsupported("subscript assignment target without location", tgt)
            l.set(p, v)
            self.note_write(l.key)
            self.mutated.add(l.key)
            self.ctx.effect(self, p, "item-assign", l.key, tgt)
            return [p]
        raise Unsupported("assignment target %s" % type(tgt).__name__, tgt)

    def augassign(self, s, p):
        l = self.loc(s.target, p)
        if l is None:
            raise Unsupported("augmented assignment target", s)
        res = []
        for v, p2 in self.ev(s.value, p):
            p3 = p2.copy()
            cur = l.get(p3)
            opn = type(s.op).__name__
            if isinstance(cur, PyC) and isinstance(v, PyC) and opn in ("Add", "Sub", "Mult"):
                new = PyC({"Add": lambda a, b: a + b, "Sub": lambda a, b: a - b, "Mult": lambda a, b: a * b}[opn](cur.v, v.v))
            elif opn == "Add" and isinstance(cur, Tup) and isinstance(v, Tup):
                new = Tup(cur.items + v.items, cur.kind)
            elif opn == "Add" and isinstance(v, Tup) and v.kind == "list" and self.listy(cur, p3):
                # L += [a, b] on a list: L.extend([a, b]), i.e. the elements appended in order
                new = asV(cur)
                for it in v.items:
                    new = app("list_app", new, asV(it))
            elif opn == "Add" and self.listy(cur, p3) and self.listy(v, p3):
                new = app("list_cat", asV(cur), asV(v))
            elif opn == "Add" and (T_is_string(cur) or T_is_string(v)):
                from .terms import as_str_term
                new = T_strcat([cur if T_is_string(cur) else as_str_term(cur), v if T_is_string(v) else as_str_term(v)])
            else:
                new = app({"Add": "py_add", "Sub": "py_sub", "Mult": "py_mul", "BitOr": "py_or", "BitAnd": "py_and"}.get(opn, "py_" + opn), asV(cur), asV(v))
            l.set(p3, new)
            self.note_write(l.key)
            self.ctx.effect(self, p3, "aug-assign", l.key, s)
            res.append(p3)
        return res

    def delete(self, tgt, p):
        if isinstance(tgt, ast.Name) and tgt.id in p.env:
            q = p.copy()
            del q.env[tgt.id]
            return [q]
        if not isinstance(tgt, ast.Subscript):
            raise Unsupported("del of non-subscript", tgt)
        base = self.loc(tgt.value, p)
        if base is None:
            raise Unsupported("del target", tgt)
        res = []
        for k, p2 in self.ev(tgt.slice, p):
            d = asV(base.get(p2))
            kk = asV(k)
            p3 = self.may_raise(p2, code("dict_del", d, kk), None, tgt.lineno)
            if p3 is not None:
                p3 = p3.copy()
                base.set(p3, app("dict_del", d, kk))
                self.note_write(base.key)
                self.ctx.effect(self, p3, "del-item", base.key, tgt)
                res.append(p3)
        return res

    def getitem_pure(self, b, k):
        if isinstance(b, Tup) and isinstance(k, PyC) and isinstance(k.v, int) and -len(b.items) <= k.v < len(b.items):
            return b.items[k.v]
        return app("getitem", asV(b), asV(k))

    def setitem(self, b, k, v):
        if isinstance(b, Tup) and b.kind == "list" and isinstance(k, PyC) and isinstance(k.v, int) and -len(b.items) <= k.v < len(b.items):
            items = list(b.items)
            items[k.v] = v
            return Tup(items, "list")
        return app("dict_set", asV(b), asV(k), asV(v))     # dict_set doubles as list element update (read-over-write axioms are the same)

    # ------------------------------------------------------------------------------------------------ expressions
    def ev(self, e, p):
        """returns list of (value, St); exceptional outcomes go to the current sink"""
        if isinstance(e, ast.Constant):
            return [(PyC(e.value), p)]
        if isinstance(e, ast.Name):
            if e.id not in p.env and e.id in self.fn_locals and e.id not in p.glob:
                # a local that is not bound on this path: Python raises UnboundLocalError (a NameError)
                self.raise_(p, "NameError", PyC("local variable '%s' referenced before assignment" % e.id), e.lineno)
                return []
            return [(self.name(e, p), p)]
        if isinstance(e, ast.NamedExpr):
            # (n := value): binds the local and is the value
            res = []
            for v, p2 in self.ev(e.value, p):
                q = p2.copy()
                for q2 in self.assign(e.target, v, q):
                    res.append((v, q2))
            return res
        if isinstance(e, (ast.Tuple, ast.List)):
            kind = "tuple" if isinstance(e, ast.Tuple) else "list"
            if any(isinstance(x, ast.Starred) for x in e.elts):
                # [*xs] is list(xs), (*xs,) is tuple(xs); with further items the pieces are concatenated in order
                from . import lib as _lib
                res = []
                for vs, p2 in self.evlist([x.value if isinstance(x, ast.Starred) else x for x in e.elts], p):
                    acc, run = None, []

                    def flush(acc, run):
                        if not run:
                            return acc
                        piece = Tup(list(run), "list")
                        return piece if acc is None else app("list_cat", asV(acc), asV(piece))
                    for x, v in zip(e.elts, vs):
                        if isinstance(x, ast.Starred):
                            acc = flush(acc, run)
                            run = []
                            piece = _lib.FUNCS["list"][0](self, e, [v], {}, p2)[0][0]
                            if acc is None:
                                acc = piece
                            elif isinstance(acc, Tup) and isinstance(piece, Tup):
                                acc = Tup(acc.items + piece.items, "list")
                            else:
                                acc = app("list_cat", asV(acc), asV(piece))
                        else:
                            run.append(v)
                    acc = flush(acc, run)
                    if kind == "tuple":
                        acc = Tup(acc.items, "tuple") if isinstance(acc, Tup) else app("tuple_of", asV(acc))
                    res.append((acc, p2))
                return res
            return [(Tup(vs, kind), p2) for vs, p2 in self.evlist(e.elts, p)]
        if isinstance(e, ast.Set):
            res = []
            for vs, p2 in self.evlist(e.elts, p):
                t = NIL_SET
                for v in vs:
                    t = app("set_add", t, asV(v))
                res.append((t, p2))
            return res
        if isinstance(e, ast.Dict):
            if any(k is None for k in e.keys):
                raise Unsupported("dict unpacking display", e)
            res = []
            for vs, p2 in self.evlist(list(itertools.chain.from_iterable(zip(e.keys, e.values))), p):
                t = NIL_DICT
                for i in range(0, len(vs), 2):
                    t = app("dict_set", t, asV(vs[i]), asV(vs[i + 1]))
                res.append((t, p2))
            return res
        if isinstance(e, ast.UnaryOp):
            res = []
            for v, p2 in self.ev(e.operand, p):
                if isinstance(e.op, ast.Not):
                    res.append((z3.Not(tobool(v)), p2))
                elif isinstance(e.op, ast.USub):
                    if isinstance(v, PyC) and isinstance(v.v, (int, float)) and not isinstance(v.v, bool):
                        res.append((PyC(-v.v), p2))
                    else:
                        res.append((app("NEG", asV(v)), p2))
                elif isinstance(e.op, ast.UAdd):
                    res.append((v, p2))
                else:
                    raise Unsupported("unary operator", e)
            return res
        if isinstance(e, ast.BoolOp):
            return self.boolop(e, p)
        if isinstance(e, ast.Compare):
            return self.compare(e, p)
        if isinstance(e, ast.BinOp):
            return self.binop(e, p)
        if isinstance(e, ast.IfExp):
            res = []
            for v, p2 in self.ev(e.test, p):
                b = tobool(v)
                pt, pf = p2.assume(b), p2.assume(z3.Not(b))
                if self.feasible(pt):
                    res.extend(self.ev(e.body, pt))
                if self.feasible(pf):
                    res.extend(self.ev(e.orelse, pf))
            return res
        if isinstance(e, ast.Subscript):
            return self.subscript(e, p)
        if isinstance(e, ast.Attribute):
            return self.attribute(e, p)
        if isinstance(e, ast.Call):
            return self.call(e, p)
        if isinstance(e, ast.Starred):
            return self.ev(e.value, p)
        if isinstance(e, (ast.ListComp, ast.GeneratorExp, ast.SetComp, ast.DictComp)):
            return self.comprehension(e, p)
        if isinstance(e, ast.JoinedStr):
            # f"..{a!r:>4}.." == "..{!r:>4}..".format(a): the same term as the str.format spelling
            fmt, args = "", []
            for part in e.values:
                if isinstance(part, ast.Constant):
                    fmt += str(part.value).replace("{", "{{").replace("}", "}}")
                elif isinstance(part, ast.FormattedValue):
                    conv = {-1: "", 115: "!s", 114: "!r", 97: "!a"}.get(part.conversion, "")
                    spec = ""
                    if part.format_spec is not None:
                        if not all(isinstance(x, ast.Constant) for x in part.format_spec.values):
                            raise Unsupported("computed format spec in f-string", e)
                        spec = ":" + "".join(str(x.value) for x in part.format_spec.values)
                    fmt += "{" + conv + spec + "}"
                    args.append(part.value)
                else:
                    raise Unsupported("f-string part", e)
            from .terms import format_term
            return [(format_term(fmt, vs), p2) for vs, p2 in self.evlist(args, p)]
        if isinstance(e, ast.Lambda):
            fdef = ast.FunctionDef(name="<lambda>", args=e.args, body=[ast.Return(value=e.body)], decorator_list=[], returns=None, type_comment=None, type_params=[])
            ast.copy_location(fdef, e)
            ast.fix_missing_locations(fdef)
            return [(Closure(fdef, None), p)]
        raise Unsupported("expression %s" % type(e).__name__, e)

    def evlist(self, exprs, p):
        combos = [([], p)]
        for x in exprs:
            combos = [(vs + [v], p2) for vs, p0 in combos for v, p2 in self.ev(x, p0)]
        return combos

    def name(self, e, p):
        n = e.id
        if n in p.env:
            return p.env[n]
        if n in p.glob:
            return p.glob[n]
        if n in ("True", "False", "None"):
            return PyC({"True": True, "False": False, "None": None}[n])
        v = self.ctx.module_name(self, n)
        if v is not None:
            return v
        if self.side != "spec" and self.ctx.cur_module:
            # a module-level helper function used as a value (passed as a callback): the same value as a nested def with that body
            fdef, _ = self.ctx.extract(self.ctx.cur_module, n)
            if isinstance(fdef, ast.FunctionDef) and not fdef.decorator_list:
                return Closure(fdef, None)
        if self.side != "spec" and self.ctx.cur_module:
            # a module-level constant: bound once, at module level, to an immutable display of literals / classes (hoisted tuples of types, strings)
            cexpr = self.ctx.module_const(self.ctx.cur_module, n)
            if cexpr is not None:
                vals = self.ev(cexpr, St())
                if len(vals) == 1:
                    return vals[0][0]
        raise Unsupported("unknown name %s" % n, e)

    def boolop(self, e, p):
        """short-circuit; the value of the expression is kept only as a Bool unless all operands are plain values"""
        first, rest = e.values[0], e.values[1:]
        res = []
        for v, p2 in self.ev(first, p):
            if not rest:
                res.append((v, p2))
                continue
            b = tobool(v)
            sub = ast.BoolOp(op=e.op, values=rest) if len(rest) > 1 else rest[0]
            ast.copy_location(sub, e)
            if isinstance(e.op, ast.And):
                pt, pf = p2.assume(b), p2.assume(z3.Not(b))
                if self.feasible(pf):
                    res.append((v if not (z3.is_expr(v) and z3.is_bool(v)) else z3.BoolVal(False), pf))
                if self.feasible(pt):
                    res.extend(self.ev(sub, pt))
            else:
                pt, pf = p2.assume(b), p2.assume(z3.Not(b))
                if self.feasible(pt):
                    res.append((v if not (z3.is_expr(v) and z3.is_bool(v)) else z3.BoolVal(True), pt))
                if self.feasible(pf):
                    res.extend(self.ev(sub, pf))
        return res

    def compare(self, e, p):
        if len(e.ops) != 1:
            # a < b < c  ==  (a < b) and (b < c)   (middle operands are evaluated once; they are pure here)
            parts = []
            left = e.left
            for op_, right in zip(e.ops, e.comparators):
                parts.append(ast.copy_location(ast.Compare(left=left, ops=[op_], comparators=[right]), e))
                left = right
            return self.ev(ast.copy_location(ast.BoolOp(op=ast.And(), values=parts), e), p)
        op = e.ops[0]
        res = []
        for (l, r), p2 in self.evlist([e.left, e.comparators[0]], p):
            if isinstance(op, (ast.Is, ast.IsNot)):
                b = asV(l) == asV(r)
                res.append((b if isinstance(op, ast.Is) else z3.Not(b), p2))
                continue
            if isinstance(op, (ast.Eq, ast.NotEq)):
                if isinstance(l, PyC) and isinstance(r, PyC):
                    b = z3.BoolVal(l.v == r.v)
                elif isinstance(l, Tup) and isinstance(r, Tup):
                    b = z3.And(z3.BoolVal(len(l.items) == len(r.items)), *[pred("py_eq", asV(a), asV(c)) for a, c in zip(l.items, r.items)])
                else:
                    b = pred("py_eq", asV(l), asV(r))
                res.append((b if isinstance(op, ast.Eq) else z3.Not(b), p2))
                continue
            if isinstance(op, (ast.In, ast.NotIn)):
                if isinstance(r, Tup):
                    b = z3.Or(*[pred("py_eq", asV(l), asV(x)) for x in r.items]) if r.items else z3.BoolVal(False)
                else:
                    b = pred("contains", asV(r), asV(l))
                res.append((b if isinstance(op, ast.In) else z3.Not(b), p2))
                continue
            name = {ast.Lt: "py_lt", ast.Gt: "py_gt", ast.LtE: "py_le", ast.GtE: "py_ge"}.get(type(op))
            if name is None:
                raise Unsupported("comparison operator", e)
            if isinstance(l, PyC) and isinstance(r, PyC):
                b = z3.BoolVal({"py_lt": l.v < r.v, "py_gt": l.v > r.v, "py_le": l.v <= r.v, "py_ge": l.v >= r.v}[name])
            else:
                b = pred(name, asV(l), asV(r))
            res.append((b, p2))
        return res

    def binop(self, e, p):
        opn = type(e.op).__name__
        res = []
        for (l, r), p2 in self.evlist([e.left, e.right], p):
            if isinstance(l, PyC) and isinstance(r, PyC) and opn in ("Add", "Sub", "Mult") and not isinstance(l.v, bool):
                try:
                    res.append((PyC({"Add": lambda a, b: a + b, "Sub": lambda a, b: a - b, "Mult": lambda a, b: a * b}[opn](l.v, r.v)), p2))
                    continue
                except TypeError:
                    pass
            if opn == "Add" and isinstance(l, Tup) and isinstance(r, Tup):
                res.append((Tup(l.items + r.items, l.kind), p2))
                continue
            if opn == "Add" and (T_is_string(l) or T_is_string(r)):
                # string concatenation: the same term as the format / join spellings. The other operand must be a str as well (Python
                # raises TypeError otherwise, which is not modelled), so str(x) = x there.
                from .terms import as_str_term
                res.append((T_strcat([l if T_is_string(l) else as_str_term(l), r if T_is_string(r) else as_str_term(r)]), p2))
                continue
            name = {"Add": "py_add", "Sub": "py_sub", "Mult": "py_mul", "Div": "py_div", "Mod": "py_mod", "Pow": "py_pow", "FloorDiv": "py_floordiv",
                    "BitOr": "py_or", "BitAnd": "py_and"}.get(opn)
            if name is None:
                raise Unsupported("binary operator " + opn, e)
            res.append((app(name, asV(l), asV(r)), p2))
        return res

    def subscript(self, e, p):
        res = []
        if isinstance(e.slice, ast.Slice):
            sl = e.slice
            parts = [sl.lower, sl.upper, sl.step]
            for b, p2 in self.ev(e.value, p):
                for vs, p3 in self.evlist([x if x is not None else ast.Constant(value=None) for x in parts], p2):
                    if isinstance(b, Tup) and all(isinstance(x, PyC) for x in vs):
                        res.append((Tup(b.items[slice(vs[0].v, vs[1].v, vs[2].v)], b.kind), p3))
                    else:
                        res.append((app("py_slice", asV(b), *[asV(x) for x in vs]), p3))
            return res
        # a read through a location sees pending functional updates of that location
        l = None
        if isinstance(e.value, (ast.Name, ast.Attribute, ast.Subscript)):
            try:
                l = self.loc(e.value, p)
            except Unsupported:
                l = None
        for b, p2 in ([(l.get(p), p)] if l is not None else self.ev(e.value, p)):
            for k, p3 in self.ev(e.slice, p2):
                if isinstance(b, Tup) and isinstance(k, PyC) and isinstance(k.v, int):
                    if -len(b.items) <= k.v < len(b.items):
                        res.append((b.items[k.v], p3))
                    else:
                        self.raise_(p3, "IndexError", None, e.lineno)
                    continue
                if isinstance(b, PyC) and isinstance(b.v, str) and isinstance(k, PyC):
                    res.append((PyC(b.v[k.v]), p3))
                    continue
                sel = self._bool_index(k)
                if sel is not None and ((isinstance(b, PyC) and isinstance(b.v, str) and len(b.v) >= 2) or (isinstance(b, Tup) and len(b.items) >= 2)):
                    # "ab"[int(flag)] / (x, y)[flag]: one of the first two elements, by the flag
                    pick = (lambda i: PyC(b.v[i])) if isinstance(b, PyC) else (lambda i: b.items[i])
                    for cond, i in ((sel, 1), (z3.Not(sel), 0)):
                        q = p3.assume(cond)
                        if self.feasible(q):
                            res.append((pick(i), q))
                    continue
                bv, kv = asV(b), asV(k)
                if self._lookup_may_fail(bv, kv, k):
                    pk = self.may_raise(p3, code("getitem", bv, kv), None, e.lineno)
                else:
                    pk = p3        # positional indexing of sequences: an IndexError is not modelled (in-range by the properties' domains)
                if pk is not None:
                    res.append((app("getitem", bv, kv), pk))
        return res

    def _bool_index(self, k):
        """the flag c of an index that is int(c) / c for a boolean c (IntV(If(c, 1, 0)) or the boolean object itself); None otherwise"""
        if not z3.is_expr(k):
            return None
        if z3.is_bool(k):
            return k
        if z3.is_app(k) and k.decl().name() == "IntV" and z3.is_app(k.arg(0)) and k.arg(0).decl().kind() == z3.Z3_OP_ITE:
            ite = k.arg(0)
            if z3.is_int_value(ite.arg(1)) and z3.is_int_value(ite.arg(2)) and ite.arg(1).as_long() == 1 and ite.arg(2).as_long() == 0:
                return ite.arg(0)
        if z3.is_app(k) and k.decl().kind() == z3.Z3_OP_ITE and k.arg(1).eq(TRUE) and k.arg(2).eq(FALSE):
            return k.arg(0)
        return None

    def _lookup_may_fail(self, bv, kv, k):
        """dictionary-style lookups (string keys, the module tables, dict displays) can raise KeyError and are tracked as events;
        integer / positional indexing is not"""
        from .terms import is_string_term
        if is_string_term(k) or is_string_term(kv):
            return True
        if z3.is_app(bv):
            n = bv.decl().name()
            if n in ("dict_set", "dict_discard", "dict_del", "nil_dict", "dict_update", "dict_of") or n.startswith("_VAR") or "!post!_VAR" in n:
                return True
        return False

    def attribute(self, e, p):
        # dotted module / class references
        ref = self.ctx.dotted(self, e)
        if ref is not None:
            return [(ref, p)]
        res = []
        for obj, p2 in self.ev(e.value, p):
            self.ctx.none_check(self, p2, obj, e)
            if isinstance(obj, (ClassRef, PyC, Tup, Closure, ExcVal)):
                raise Unsupported("attribute %s of a constant / class" % e.attr, e)
            o = asV(obj)
            field = self.ctx.field_of(e.attr)
            hk = (o.sexpr(), field)
            cur = p2.heap[hk] if hk in p2.heap else app("attr_" + field, o)
            res.append((self.ctx.attr_hook(self, p2, obj, e.attr, cur), p2))
        return res

    # ------------------------------------------------------------------------------------------------ calls
    def call(self, e, p):
        return self.ctx.call(self, e, p)

    def comprehension(self, e, p):
        """desugared into a loop that builds the result in a fresh local (comprehensions here have no side effects)"""
        tmp = "__comp%d_%d" % (e.lineno, e.col_offset)
        if isinstance(e, ast.DictComp):
            init = ast.Dict(keys=[], values=[])
            inner = ast.Assign(targets=[ast.Subscript(value=ast.Name(id=tmp, ctx=ast.Load()), slice=e.key, ctx=ast.Store())], value=e.value)
        elif isinstance(e, ast.SetComp):
            init = ast.Call(func=ast.Name(id="set", ctx=ast.Load()), args=[], keywords=[])
            inner = ast.Expr(value=ast.Call(func=ast.Attribute(value=ast.Name(id=tmp, ctx=ast.Load()), attr="add", ctx=ast.Load()), args=[e.elt], keywords=[]))
        else:
            init = ast.List(elts=[], ctx=ast.Load())
            inner = ast.Expr(value=ast.Call(func=ast.Attribute(value=ast.Name(id=tmp, ctx=ast.Load()), attr="append", ctx=ast.Load()), args=[e.elt], keywords=[]))
        body = inner
        for g in reversed(e.generators):
            for cond in reversed(g.ifs):
                body = ast.If(test=cond, body=[body], orelse=[])
            body = ast.For(target=g.target, iter=g.iter, body=[body], orelse=[])
        assign = ast.Assign(targets=[ast.Name(id=tmp, ctx=ast.Store())], value=init)
        for n in (assign, body):
            ast.copy_location(n, e)
            ast.fix_missing_locations(n)
        for sub in ast.walk(body):
            if not hasattr(sub, "lineno"):
                ast.copy_location(sub, e)
        saved_targets = {}
        paths = self.block([assign, body], [p])
        res = []
        for q in paths:
            q2 = q.copy()
            v = q2.env.pop(tmp)
            # comprehension variables do not leak
            for g in e.generators:
                for nm in ast.walk(g.target):
                    if isinstance(nm, ast.Name):
                        if nm.id in p.env:
                            q2.env[nm.id] = p.env[nm.id]          # an outer variable of the same name is untouched (own scope)
                        else:
                            q2.env.pop(nm.id, None)
            res.append((v, q2))
        return res

    # ------------------------------------------------------------------------------------------------ loops
    def iter_elements(self, target, itv, p):
        """value iterated over -> (V term of the sequence, function binding the loop target to an element)"""
        return asV(itv)

    def _indexed_loop(self, s):
        """`for i in range(len(X)): ... X[i] ...` with i used only to index X, X a name / attribute chain that the body does not assign:
        the element loop `for e in X: ... e ...` (the body's calls may not change X under their contracts' frames either: a loop that
        mutated the list it walks would differ from the element loop, so such a body is left alone)"""
        cached = getattr(s, "_pyvc_idx", 0)
        if cached != 0:
            return cached
        s._pyvc_idx = None
        it = s.iter
        if not (isinstance(s.target, ast.Name) and isinstance(it, ast.Call) and isinstance(it.func, ast.Name) and it.func.id == "range"
                and len(it.args) == 1 and not it.keywords and isinstance(it.args[0], ast.Call) and isinstance(it.args[0].func, ast.Name)
                and it.args[0].func.id == "len" and len(it.args[0].args) == 1 and not it.args[0].keywords):
            return None
        X = it.args[0].args[0]
        n = X
        while isinstance(n, ast.Attribute) or (isinstance(n, ast.Subscript) and isinstance(n.slice, ast.Constant)):
            n = n.value
        if not isinstance(n, ast.Name):
            return None
        xd, i = ast.dump(X), s.target.id
        root = n.id
        body = ast.Module(body=list(s.body), type_ignores=[])
        uses = [m for m in ast.walk(body) if isinstance(m, ast.Name) and m.id == i]
        subs = [m for m in ast.walk(body) if isinstance(m, ast.Subscript) and isinstance(m.ctx, ast.Load) and isinstance(m.slice, ast.Name)
                and m.slice.id == i and ast.dump(m.value) == xd]
        if not subs or any(not isinstance(u.ctx, ast.Load) for u in uses):
            return None
        # X[i] = ... at statement level is allowed when no later statement of the body reads X[i] again: the loop is then
        # `for i, e in enumerate(X)` with the reads replaced by e
        stores = [st_ for st_ in s.body if isinstance(st_, ast.Assign) and len(st_.targets) == 1 and isinstance(st_.targets[0], ast.Subscript)
                  and isinstance(st_.targets[0].slice, ast.Name) and st_.targets[0].slice.id == i and ast.dump(st_.targets[0].value) == xd]
        store_ids = {id(st_.targets[0]) for st_ in stores}
        if stores:
            first = s.body.index(stores[0])
            later = ast.Module(body=list(s.body[first + 1:]), type_ignores=[])
            if any(isinstance(m, ast.Subscript) and isinstance(m.slice, ast.Name) and m.slice.id == i and ast.dump(m.value) == xd for m in ast.walk(later)):
                return None
            if any(isinstance(m, ast.Subscript) and isinstance(m.ctx, ast.Load) and isinstance(m.slice, ast.Name) and m.slice.id == i
                   and ast.dump(m.value) == xd for st_ in stores for m in ast.walk(st_.targets[0])):
                return None
        if len(subs) + len(stores) != len(uses):
            return None
        for m in ast.walk(body):
            # X (or its root) rebound, or changed through a method / another item assignment, inside the body
            if isinstance(m, ast.Name) and m.id == root and isinstance(m.ctx, (ast.Store, ast.Del)):
                return None
            if isinstance(m, (ast.Attribute, ast.Subscript)) and isinstance(m.ctx, (ast.Store, ast.Del)) and id(m) not in store_ids \
               and ast.dump(m.value).startswith(xd[:-1]):
                return None
            if isinstance(m, ast.Call) and isinstance(m.func, ast.Attribute) and m.func.attr in MUTATORS and ast.dump(m.func.value) == xd:
                return None
            if isinstance(m, (ast.FunctionDef, ast.Lambda)):
                return None
        import copy as _copy
        ev = "__idx%d_%d" % (s.lineno, s.col_offset)
        ids = {id(m) for m in subs}

        class Rep(ast.NodeTransformer):
            def visit_Subscript(self, node):
                if isinstance(node.ctx, ast.Load) and isinstance(node.slice, ast.Name) and node.slice.id == i and ast.dump(node.value) == xd:
                    return ast.copy_location(ast.Name(id=ev, ctx=ast.Load()), node)
                return self.generic_visit(node)
        if stores:
            tgt = ast.Tuple(elts=[ast.Name(id=i, ctx=ast.Store()), ast.Name(id=ev, ctx=ast.Store())], ctx=ast.Store())
            itx = ast.Call(func=ast.Name(id="enumerate", ctx=ast.Load()), args=[X], keywords=[])
        else:
            tgt, itx = ast.Name(id=ev, ctx=ast.Store()), X
        new = ast.For(target=ast.copy_location(tgt, s.target), iter=itx, body=[Rep().visit(_copy.deepcopy(b)) for b in s.body], orelse=[])
        ast.copy_location(new, s)
        ast.fix_missing_locations(new)
        s._pyvc_idx = new
        return new

    def forloop(self, s, p):
        if s.orelse:
            raise Unsupported("for/else", s)
        alt = self._indexed_loop(s)
        if alt is not None:
            s = alt
        res = []
        for itv, p2 in self.ev(s.iter, p):
            if isinstance(itv, Tup) and len(itv.items) >= 2 and not all(isinstance(x, PyC) for x in itv.items):
                # a literal sequence of computed items: one arbitrary iteration suffices (avoids k-fold path multiplication)
                res.extend(self.summarised_loop(s, asV(itv), p2))
                continue
            if isinstance(itv, Tup):
                # literal sequence of constants: unrolled
                paths = [p2]
                for item in itv.items:
                    nxt = []
                    for q in paths:
                        q1 = q.copy()
                        conts = []
                        self.loop_sinks.append(conts)
                        try:
                            for q2 in self.assign(s.target, item, q1):
                                nxt.extend(self.block(s.body, [q2]))
                        finally:
                            self.loop_sinks.pop()
                        nxt.extend(conts)
                    paths = nxt
                res.extend(paths)
                continue
            xs = asV(itv)
            node = s
            if z3.is_app(xs) and xs.decl().name() in ("dict_values", "dict_keys") and xs.num_args() == 1:
                # `for v in d.values()` / `for k in d.keys()` iterate the items of d and use one component: the same loop as
                # `for k, v in d.items()` to the verifier
                idx = 1 if xs.decl().name() == "dict_values" else 0
                node = self._projected_loop(s, idx)
                xs = app("dict_items", xs.arg(0))
            res.extend(self.summarised_loop(node, xs, p2))
        return res

    def _projected_loop(self, s, idx):
        cached = getattr(s, "_pyvc_proj", None)
        if cached is not None:
            return cached
        other = ast.Name(id="__other%d_%d" % (s.lineno, s.col_offset), ctx=ast.Store())
        elts = [other, s.target] if idx == 1 else [s.target, other]
        new = ast.For(target=ast.Tuple(elts=elts, ctx=ast.Store()), iter=s.iter, body=list(s.body), orelse=[])
        for n in (new,):
            ast.copy_location(n, s)
        ast.fix_missing_locations(new)
        new._pyvc_origin = s
        s._pyvc_proj = new
        return new

    def sub_exec(self, side):
        return Exec(self.ctx, side, self.fname)

    def dry_written(self, s, xs, p):
        """locations written by the loop body (fixpoint of dry runs from states with the known written set havocked)"""
        written = set()
        for n in ast.walk(s.target):
            if isinstance(n, ast.Name):
                written.add("local:" + n.id)
        for _ in range(4):
            ex = self.sub_exec("dry")
            ex.fn_locals = self.fn_locals
            ex.writes = set()
            ex.ret_sink = []
            ex.exc_sinks = [[]]
            ex.loop_sinks = [[]]
            ex.break_sinks = [[]]
            q = p.copy()
            self.havoc(q, written, "dry")
            try:
                saved = self.ctx.quiet
                self.ctx.quiet = True
                for q2 in ex.assign(s.target, fresh("dryelem"), q):
                    ex.block(s.body, [q2])
            finally:
                self.ctx.quiet = saved
            new = written | ex.writes
            if new == written:
                break
            written = new
        return sorted(written)

    def loc_by_key(self, key):
        kind, rest = key.split(":", 1)
        if kind == "local":
            return Loc(key, lambda st, n=rest: st.env.get(n), lambda st, v, n=rest: st.env.__setitem__(n, v))
        if kind == "global":
            return Loc(key, lambda st, n=rest: st.glob.get(n), lambda st, v, n=rest: st.glob.__setitem__(n, v))
        if kind == "heap":
            obj, attr = rest.rsplit(".", 1)
            hk = (obj, attr)
            term = self.ctx.heap_terms.get(obj)

            def hget(st, hk=hk, term=term, attr=attr):
                if hk in st.heap or term is None:
                    return st.heap.get(hk)
                return app("attr_" + attr, term)
            return Loc(key, hget, lambda st, v, hk=hk: st.heap.__setitem__(hk, v))
        raise KeyError(key)

    def havoc(self, st, keys, base, consts=None):
        out = {}
        for k in keys:
            c = consts[k] if consts and k in consts else fresh("%s_%s" % (base, k.split(":", 1)[1].replace(" ", "").replace("(", "").replace(")", "")[:30]))
            self.loc_by_key(k).set(st, c)
            st.conds.extend(self.ctx.type_facts(k, c))
            out[k] = c
        return out

    def run_body(self, s, elem, q):
        """one iteration from state q (private copy): returns list of Outcomes kind next|ret|raise"""
        outs = []
        conts = []
        saved_ret = self.ret_sink
        rets = []
        self.ret_sink = rets
        self.exc_sinks.append(outs)
        self.loop_sinks.append(conts)
        brks = []
        self.break_sinks.append(brks)
        try:
            live = []
            for q2 in self.assign(s.target, elem, q):
                live.extend(self.block(s.body, [q2]))
        finally:
            self.break_sinks.pop()
            self.loop_sinks.pop()
            self.exc_sinks.pop()
            self.ret_sink = saved_ret
        res = [Outcome("next", q2) for q2 in live + conts]
        res += [Outcome("brk", q2) for q2 in brks]
        res += rets
        res += outs
        return res

    def syntactic_writes(self, s):
        """names a loop body (re)binds or mutates -- they are havocked at loop entry, so their entry values do not matter"""
        cached = getattr(s, "_pyvc_writes", None)
        if cached is not None:
            return cached
        out = set()
        for n in ast.walk(s):
            if isinstance(n, ast.Name) and isinstance(n.ctx, ast.Store):
                out.add(n.id)
            elif isinstance(n, ast.Call) and isinstance(n.func, ast.Attribute) and n.func.attr in MUTATORS:
                b = n.func.value
                while isinstance(b, (ast.Subscript, ast.Attribute)):
                    b = b.value
                if isinstance(b, ast.Name):
                    out.add(b.id)
            elif isinstance(n, (ast.Subscript, ast.Attribute)) and isinstance(n.ctx, (ast.Store, ast.Del)):
                b = n.value
                while isinstance(b, (ast.Subscript, ast.Attribute)):
                    b = b.value
                if isinstance(b, ast.Name):
                    out.add(b.id)
        s._pyvc_writes = out
        return out

    def state_sig(self, xs, p, skip=()):
        """signature of everything a loop body can depend on: the iterated value, all variables / tables / fields, and the path
        conditions that talk about a compound term occurring in them (used to share loop summaries between paths)"""
        def sx(v):
            try:
                return asV(v).sexpr()
            except TypeError:
                return repr(v)
        parts = [("iter", xs.sexpr())]
        parts += sorted(("e:" + k, sx(v)) for k, v in p.env.items() if k not in skip)
        parts += sorted(("g:" + k, sx(v)) for k, v in p.glob.items())
        parts += sorted(("h:%s.%s" % k, sx(v)) for k, v in p.heap.items())
        blob = "\n".join(x[1] for x in parts)
        rel = []
        for c in p.conds:
            cs = c.sexpr()
            for sub in _compound_subterms(c):
                if sub in blob:
                    rel.append(cs)
                    break
        return (tuple(parts), tuple(sorted(set(rel))), self.try_depth)

    # -------------------------------------------------------------------------------------------- closed form of list-building loops
    def closed_form(self, s, xs, p):
        """A loop whose only effect is to append f(x) (under a condition c(x)) to ONE list -- every comprehension, and the usual
        `for x in xs: if c(x): L.append(f(x))` -- has the closed form  L = L0 ++ COMP_{c,f}(xs): the list location becomes
        list_cat(entry value, COMP(xs)), COMP being a function symbol named by a digest of the (condition, appended term) pairs with the
        element abstracted. Equal bodies give the same symbol whatever the surrounding loop structure (temporary list + extend vs direct
        append), so such loops need no pairing. Returns the continuing paths, or None if the loop is not of this shape."""
        import hashlib
        if self.writes is not None and self.side == "dry":
            return None
        targets = {"local:" + n.id for n in ast.walk(s.target) if isinstance(n, ast.Name)}
        written = [k for k in self.dry_written(s, xs, p) if k not in targets]
        if os.environ.get("VERIF_CF_DEBUG"):
            print("CF", self.side, s.lineno, written, file=sys.stderr)
        if not written:
            return self.closed_search(s, xs, p)
        if len(written) != 1:
            return None
        key = written[0]
        try:
            entry = self.loc_by_key(key).get(p)
        except KeyError:
            return None
        if entry is None or isinstance(entry, (PyC, ClassRef, Closure)):
            return None
        q = p.copy()
        cin = self.havoc(q, [key] + sorted(targets), "cf")
        elem = fresh("cfelem")
        canon = z3.Const("ELEM", V)
        # fusion: iterating a list that is itself a closed form COMP_d(ys) is iterating ys with the element mapped (and filtered) by d
        stages = [([], elem)]
        inner_events = []
        defs = getattr(self.ctx, "comp_defs", None)
        if defs is None:
            defs = self.ctx.comp_defs = {}
        if z3.is_app(xs) and xs.num_args() == 1 and xs.decl().name() in defs and defs[xs.decl().name()]["kind"] == "list":
            d = defs[xs.decl().name()]
            xs = xs.arg(0)
            stages = [([z3.substitute(c, (canon, elem)) for c in cs], z3.substitute(t, (canon, elem)) if t is not None else None) for cs, t in d["items"]]
            inner_events = list(d["events"])
        n_conds, n_events = len(q.conds), len(q.events)
        q.conds.append(pred("elem_of", xs, elem))
        sub = self.sub_exec(self.side)
        sub.fn_locals, sub.try_depth, sub.pure, sub.loop_hook = self.fn_locals, self.try_depth, self.pure, None
        sub.ret_sink, sub.exc_sinks = [], [[]]
        body = []
        skipped = []
        try:
            for pre, val in stages:
                if val is None:
                    skipped.append(pre)
                    continue
                qi = q.copy()
                qi.conds.extend(pre)
                if pre and not self.feasible(qi):
                    continue
                body.extend(sub.run_body(s, val, qi))
        except Unsupported:
            return None
        items = []
        zitems = []
        ev_terms = list(inner_events)
        sub0 = lambda t: z3.substitute(t, (elem, canon))
        for pre in skipped:
            items.append((sorted(sub0(c).sexpr() for c in pre), "-"))
            zitems.append(([sub0(c) for c in pre], None))
        for o in body:
            if o.kind != "next":
                return None
            v = self.loc_by_key(key).get(o.st)
            v = asV(v)
            c0 = cin[key]
            if v.eq(c0):
                appended = None
            elif z3.is_app(v) and v.decl().name() == "list_app" and v.arg(0).eq(c0):
                appended = v.arg(1)
            elif z3.is_app(v) and v.decl().name() == "set_add" and v.arg(0).eq(c0):
                appended = app("SETITEM", v.arg(1))
            elif z3.is_app(v) and v.decl().name() == "dict_set" and v.arg(0).eq(c0):
                appended = app("DICTITEM", v.arg(1), v.arg(2))
            else:
                return None
            conds = o.st.conds[n_conds + 1:]
            evs = o.st.events[n_events:]
            if appended is not None and self._mentions(appended, c0):
                return None
            if any(self._mentions(c, c0) for c in conds) or any(self._mentions(c, c0) for c, _, _ in evs):
                return None
            sub_ = lambda t: z3.substitute(t, (elem, canon))
            items.append((sorted(sub_(c).sexpr() for c in conds), sub_(appended).sexpr() if appended is not None else "-"))
            zitems.append(([sub_(c) for c in conds], sub_(appended) if appended is not None else None))
            ev_terms.extend(sub_(c).sexpr() for c, _, _ in evs)
        if not any(it[1] != "-" for it in items):
            return None
        digest = hashlib.sha1(repr((sorted(items), sorted(set(ev_terms)))).encode()).hexdigest()[:14]
        kind = "list"
        if any(it[1].startswith("(SETITEM") for it in items):
            kind = "set"
        elif any(it[1].startswith("(DICTITEM") for it in items):
            kind = "dict"
        if "COMP_" + digest not in defs:
            # a definition met before that collects the same value for every element (decided by the solver, axioms included, with the
            # element arbitrary) is the same function: its symbol is reused, so harmless rewordings of a body do not make a new function
            same = self._equivalent_def(defs, zitems, sorted(set(ev_terms)), kind)
            if same is not None:
                digest = same[5:]
            else:
                defs["COMP_" + digest] = {"items": zitems, "events": sorted(set(ev_terms)), "kind": kind}
        comp = app("COMP_" + digest, xs)
        ent = asV(entry)
        if kind == "list" and items == [([], "ELEM")] and not ev_terms and not ent.eq(NIL_LIST):
            new = app("list_cat", ent, xs)                   # every element appended as it is: L.extend(xs)
        elif kind == "list":
            new = comp if ent.eq(NIL_LIST) else app("list_cat", ent, comp)
        elif kind == "set":
            new = app("set_of", comp) if ent.eq(NIL_SET) else app("py_or", ent, app("set_of", comp))
        else:
            new = app("dict_of", comp) if ent.eq(NIL_DICT) else app("dict_update", ent, app("dict_of", comp))
        r = p.copy()
        self.loc_by_key(key).set(r, new)
        self.note_write(key)
        if kind == "list":
            r.conds.append(pred("is_list", asV(new)))
        # the loop variables keep the last element's components: a function of the loop alone, named by position in the target pattern
        order = [n.id for n in ast.walk(s.target) if isinstance(n, ast.Name)]
        for pos, nm in enumerate(order):
            self.loc_by_key("local:" + nm).set(r, app("CFLAST_%s_%d" % (digest, pos), xs))
            self.note_write("local:" + nm)
        if ev_terms:
            r2 = self.may_raise(r, fn("COMPEXC_" + digest + "!exc", V, I)(xs), None, s.lineno)
            if r2 is None:
                return []
            r = r2
        self.ctx.closed_loops = getattr(self.ctx, "closed_loops", 0) + 1
        return [r]

    def closed_search(self, s, xs, p):
        """`for x in xs: if c(x): return v` (nothing written, v independent of x) returns v iff any(c(x) for x in xs): the same COMP symbol
        as the comprehension's, so a search loop and its any(...) form need no pairing."""
        import hashlib
        q = p.copy()
        order = [n.id for n in ast.walk(s.target) if isinstance(n, ast.Name)]
        self.havoc(q, ["local:" + n for n in order], "cf")
        elem = fresh("cfelem")
        n_conds, n_events = len(q.conds), len(q.events)
        q.conds.append(pred("elem_of", xs, elem))
        sub = self.sub_exec(self.side)
        sub.fn_locals, sub.try_depth, sub.pure, sub.loop_hook = self.fn_locals, self.try_depth, self.pure, None
        sub.ret_sink, sub.exc_sinks = [], [[]]
        try:
            body = sub.run_body(s, elem, q)
        except Unsupported:
            return None
        rets = [o for o in body if o.kind == "ret"] + list(sub.ret_sink)
        nexts = [o for o in body if o.kind == "next"]
        if os.environ.get("VERIF_CF_DEBUG"):
            print("CFS", [(o.kind, [str(c)[:80] for c in o.st.conds[n_conds + 1:]]) for o in body], len(sub.ret_sink), file=sys.stderr)
        if len(rets) != 1 or len(nexts) != 1 or len(body) != 2:
            return None
        rc, nc = rets[0].st.conds[n_conds + 1:], nexts[0].st.conds[n_conds + 1:]
        if len(rc) != 1 or len(nc) != 1 or len(rets[0].st.events) > n_events or len(nexts[0].st.events) > n_events:
            return None
        c = rc[0]
        if not (z3.is_not(nc[0]) and nc[0].arg(0).eq(c)):
            return None
        # the value a comprehension would collect for this test: t for truthy(t), the boolean object for a comparison
        item = c.arg(0) if z3.is_app(c) and c.decl().name() == "truthy" else asV(c)
        rv = asV(rets[0].value) if rets[0].value is not None else NONE
        if self._mentions(rv, elem):
            return None
        canon = z3.Const("ELEM", V)
        t = z3.substitute(item, (elem, canon))
        digest = hashlib.sha1(repr(([([], t.sexpr())], [])).encode()).hexdigest()[:14]
        defs = getattr(self.ctx, "comp_defs", None)
        if defs is None:
            defs = self.ctx.comp_defs = {}
        defs.setdefault("COMP_" + digest, {"items": [([], t)], "events": [], "kind": "list"})
        found = self.exists_over(app("COMP_" + digest, xs), False)
        res = []
        pr = p.assume(found)
        if self.feasible(pr):
            self.ret_sink.append(Outcome("ret", pr, value=rets[0].value))
        pn = p.assume(z3.Not(found))
        if self.feasible(pn):
            for pos, nm in enumerate(order):
                self.loc_by_key("local:" + nm).set(pn, app("CFLAST_%s_%d" % (digest, pos), xs))
                self.note_write("local:" + nm)
            res.append(pn)
        self.ctx.closed_loops = getattr(self.ctx, "closed_loops", 0) + 1
        return res

    def _def_function(self, zitems):
        """(present, value) of the value a definition collects for the element ELEM"""
        pres = [z3.And(*cs) if cs else z3.BoolVal(True) for cs, t in zitems if t is not None]
        present = z3.Or(*pres) if pres else z3.BoolVal(False)
        value = z3.Const("UNSPEC", V)
        for cs, t in zitems:
            if t is not None:
                value = z3.If(z3.And(*cs) if cs else z3.BoolVal(True), t, value)
        return present, value

    def _equivalent_def(self, defs, zitems, events, kind):
        pa, va = self._def_function(zitems)
        for name, d in defs.items():
            if d["kind"] != kind or d["events"] != events:
                continue
            pb, vb = self._def_function(d["items"])
            if self.ctx.proves(z3.And(pa == pb, z3.Implies(pa, va == vb))):
                return name
        return None

    def exists_over(self, seq, negated):
        """any(COMP_d(xs)) is  EX_h(xs)  with h a digest of the simplified condition  "some collected value is truthy"  of one element;
        all(COMP_d(xs)) is  Not EX_h'(xs)  for the condition "some collected value is falsy" (negated=True). So `not any(c(x) ...)` and
        `all(not c(x) ...)` are one term. None unless seq is a closed form of a list comprehension without exceptional events."""
        import hashlib
        defs = getattr(self.ctx, "comp_defs", {})
        if not (z3.is_app(seq) and seq.num_args() == 1 and seq.decl().name() in defs):
            return None
        d = defs[seq.decl().name()]
        if d["kind"] != "list" or d["events"]:
            return None
        alts = []
        for cs, t in d["items"]:
            if t is None:
                continue
            tr = self._truth(t)
            alts.append(z3.And(*(list(cs) + [z3.Not(tr) if negated else tr])))
        f = z3.simplify(z3.Or(*alts)) if alts else z3.BoolVal(False)
        h = hashlib.sha1(f.sexpr().encode()).hexdigest()[:14]
        exdefs = getattr(self.ctx, "ex_defs", None)
        if exdefs is None:
            exdefs = self.ctx.ex_defs = {}
        if h not in exdefs:
            for h2, f2 in exdefs.items():
                if self.ctx.proves(f == f2):
                    h = h2
                    break
            else:
                exdefs[h] = f
        return pred("EX_" + h, seq.arg(0))

    def _truth(self, t):
        if z3.is_app(t) and t.decl().kind() == z3.Z3_OP_ITE and t.arg(1).eq(TRUE) and t.arg(2).eq(FALSE):
            return t.arg(0)
        return tobool(t)

    def _closed_term(self, t):
        return True

    def _mentions(self, t, c):
        if z3.is_const(t):
            return t.eq(c)
        return any(self._mentions(a, c) for a in t.children())

    def summarised_loop(self, s, xs, p):
        if self.side != "dry" and not getattr(self.ctx, "no_closed_form", False):
            cf = self.closed_form(s, xs, p)
            if cf is not None:
                return cf
        if self.loop_hook is not None:
            return self.loop_hook(self, s, xs, p)
        cache = self.ctx.loop_cache
        key = None
        if self.side == "real" and self.writes is None:
            key = (id(s), self.state_sig(xs, p, self.syntactic_writes(s) - {"self"}))
            if key in cache:
                return self.after_loop(cache[key], p)
        rec = LoopRecord(next(_uid))
        rec.node, rec.iter = s, xs
        rec.written = self.dry_written(s, xs, p)
        rec.entry_conds = list(p.conds)
        rec.n_events = len(p.events)
        for k in rec.written:
            try:
                rec.entry_vals[k] = self.loc_by_key(k).get(p)
            except KeyError:
                pass
        q = p.copy()
        rec.cin = self.havoc(q, rec.written, "cin%d" % rec.uid)
        for k in rec.written:
            if k.startswith("local:") and self.listy(rec.entry_vals.get(k), p) and self.only_list_methods(s, k[6:]):
                rec.list_keys.add(k)
                q.conds.append(pred("is_list", rec.cin[k]))
            elif k.startswith("local:") and self.stringy(rec.entry_vals.get(k), p) and self.only_string_bindings(s, k[6:]):
                rec.str_keys.add(k)
                q.conds.append(pred("is_str", rec.cin[k]))
        rec.elem = fresh("elem%d" % rec.uid)
        q.conds.append(pred("elem_of", xs, rec.elem))
        q.conds.extend(self.ctx.elem_facts(xs, rec.elem))
        # elements of a local dict all of whose values are lists by construction (dicts_of_lists): `for k, v in d.items()` binds v to a list
        org = getattr(s, "_pyvc_origin", s)
        it = org.iter
        if isinstance(it, ast.Call) and isinstance(it.func, ast.Attribute) and it.func.attr in ("items", "values") and not it.args \
           and isinstance(it.func.value, ast.Name) and it.func.value.id in getattr(self.ctx, "dict_of_lists", ()):
            q.conds.append(pred("is_list", app("getitem", rec.elem, IntV(1))))
        rec.body = self.run_body(s, rec.elem, q)
        if key is not None:
            cache[key] = rec
        return self.after_loop(rec, p)

    LIST_HEADS = ("nil_list", "list_app", "list_cat", "list_insert", "list_remove", "py_sorted", "list_of")

    def listy(self, v, p):
        """the value is a list by construction (display, comprehension, result of list methods) or by a fact on the path"""
        if v is None:
            return False
        if isinstance(v, Tup):
            return v.kind == "list"
        if not z3.is_expr(v) or z3.is_bool(v) or z3.is_int(v):
            return False
        n = v.decl().name()
        if n == "nil_list" or n.startswith(("COMP_", "py_sorted")) or n == "list_of":
            return True
        if n in ("list_app", "list_cat", "list_insert", "list_remove"):
            return self.listy(v.arg(0), p)
        if z3.is_const(v):
            return any(z3.is_app(c) and c.decl().name() == "is_list" and c.arg(0).eq(v) for c in p.conds)
        return False

    def stringy(self, v, p):
        if v is None:
            return False
        if isinstance(v, PyC):
            return isinstance(v.v, str)
        if not z3.is_expr(v) or z3.is_bool(v) or z3.is_int(v):
            return False
        if z3.is_const(v) and v.decl().kind() == z3.Z3_OP_UNINTERPRETED:
            return any(z3.is_app(c) and c.decl().name() == "is_str" and c.arg(0).eq(v) for c in p.conds)
        from .terms import STRING_HEADS
        return v.decl().name() in STRING_HEADS or v.decl().name().startswith("py_format")

    @staticmethod
    def _string_expr(e):
        """syntactically a string whatever the operands are"""
        if isinstance(e, ast.Constant):
            return isinstance(e.value, str)
        if isinstance(e, ast.JoinedStr):
            return True
        if isinstance(e, ast.Call) and isinstance(e.func, ast.Name) and e.func.id in ("str", "repr"):
            return True
        if isinstance(e, ast.Call) and isinstance(e.func, ast.Attribute) and e.func.attr in ("format", "join") and Exec._string_expr(e.func.value):
            return True
        if isinstance(e, ast.Call) and isinstance(e.func, ast.Attribute) and e.func.attr in ("replace", "lower", "upper", "strip", "lstrip", "rstrip", "getText") \
           and (e.func.attr == "getText" or Exec._string_expr(e.func.value)):
            return True
        if isinstance(e, ast.Subscript) and isinstance(e.slice, ast.Slice):
            return Exec._string_expr(e.value)
        if isinstance(e, ast.IfExp):
            return Exec._string_expr(e.body) and Exec._string_expr(e.orelse)
        return False

    def only_string_bindings(self, s, name):
        for n in ast.walk(ast.Module(body=list(s.body), type_ignores=[])):
            if isinstance(n, (ast.FunctionDef, ast.Lambda, ast.Global, ast.Nonlocal)):
                return False
            if isinstance(n, ast.Assign) and any(isinstance(t, ast.Name) and t.id == name for t in n.targets):
                if len(n.targets) != 1 or not self._string_expr(n.value):
                    return False
            elif isinstance(n, ast.Name) and n.id == name and isinstance(n.ctx, (ast.Store, ast.Del)):
                # every Store must be the single target of one of the Assigns accepted above
                ok = False
                for m in ast.walk(ast.Module(body=list(s.body), type_ignores=[])):
                    if isinstance(m, ast.Assign) and len(m.targets) == 1 and m.targets[0] is n:
                        ok = True
                if not ok:
                    return False
        for n in ast.walk(s.target):
            if isinstance(n, ast.Name) and n.id == name:
                return False
        return True

    def only_list_methods(self, s, name):
        """the loop body never rebinds the local: it changes only through list methods (or `+=`, which extends a list in place)"""
        aug = {id(n.target) for n in ast.walk(ast.Module(body=list(s.body), type_ignores=[]))
               if isinstance(n, ast.AugAssign) and isinstance(n.op, ast.Add) and isinstance(n.target, ast.Name)}
        for n in ast.walk(ast.Module(body=list(s.body), type_ignores=[])):
            if isinstance(n, ast.Name) and n.id == name and isinstance(n.ctx, (ast.Store, ast.Del)) and id(n) not in aug:
                return False
            if isinstance(n, (ast.FunctionDef, ast.Lambda, ast.Global, ast.Nonlocal)):
                return False
        for n in ast.walk(s.target):
            if isinstance(n, ast.Name) and n.id == name:
                return False
        return True

    def after_loop(self, rec, p):
        """continue after a summarised loop: written locations become the record's cout constants; early exits are forked"""
        if not rec.cout:
            rec.cout = {k: fresh("cout%d_%s" % (rec.uid, k.split(":", 1)[1][-24:].replace(" ", "").replace("(", "").replace(")", ""))) for k in rec.written}
            rec.exit = fresh_int("loopexit%d" % rec.uid)
            rec.retv = fresh("loopret%d" % rec.uid)
            rec.msg = fresh("loopmsg%d" % rec.uid)
        has_ret = any(o.kind == "ret" for o in rec.body)
        has_raise = any(o.kind == "raise" or len(o.st.events) > rec.n_events for o in rec.body)
        q = p.copy()
        self.havoc(q, rec.written, "x", consts=rec.cout)
        for k in sorted(rec.list_keys):
            q.conds.append(pred("is_list", rec.cout[k]))
        for k in sorted(rec.str_keys):
            q.conds.append(pred("is_str", rec.cout[k]))
        for k in rec.written:
            self.note_write(k)
        q.loops.append(rec)
        res = []
        if has_ret:
            pr = q.assume(rec.exit == -1)
            if self.feasible(pr):
                self.ret_sink.append(Outcome("ret", pr, value=rec.retv))
        if has_raise:
            pe = q.assume(rec.exit > 0)
            if self.feasible(pe):
                self.raise_(pe, rec.exit, rec.msg, rec.node.lineno)
        if any(o.kind == "brk" for o in rec.body):
            # left by `break`: the written locations hold what the breaking iteration left (the same shared constants: a loop that
            # ends by break or by exhaustion is summarised by its final state either way); distinguished by the exit code -2
            pb = q.assume(rec.exit == -2)
            if self.feasible(pb):
                res.append(pb)
        pn = q.assume(rec.exit == 0)
        if self.feasible(pn):
            res.append(pn)
        return res

    def whileloop(self, s, p):
        return self.ctx.whileloop(self, s, p)
