"""Value universe of PyVC: every Python value is a term of one uninterpreted SMT sort V (DESIGN section 2.3).

Structure is added by constructor/observer functions and by axioms; lockstep obligations are congruence problems.
Exceptions are integer codes (0 = no exception): every partial primitive `f` has a companion `f!exc`.
"""
import z3

# E-matching only: with model-based quantifier instantiation z3 diverges on these axioms; without it a satisfiable query ends
# quickly in `unknown (incomplete quantifiers)` with a candidate model -- treated like Boogie/Dafny do: the obligation "might not hold".
z3.set_param("smt.mbqi", False)
z3.set_param("smt.auto_config", False)

V = z3.DeclareSort("V")
B = z3.BoolSort()
I = z3.IntSort()
S = z3.StringSort()

_funcs = {}


def fn(name, *sig):
    key = (name, tuple(str(s) for s in sig))
    f = _funcs.get(key)
    if f is None:
        f = z3.Function(name, *sig)
        _funcs[key] = f
    return f


def app(name, *args):
    """V-valued uninterpreted function of V arguments"""
    return fn(name, *([V] * len(args)), V)(*args)


def pred(name, *args):
    return fn(name, *([V] * len(args)), B)(*args)


def code(name, *args):
    """exception code of a partial primitive: Int, 0 = normal"""
    return fn(name + "!exc", *([V] * len(args)), I)(*args)


NONE = z3.Const("None", V)
TRUE = z3.Const("True", V)
FALSE = z3.Const("False", V)
NIL_LIST = z3.Const("nil_list", V)
NIL_DICT = z3.Const("nil_dict", V)
NIL_SET = z3.Const("nil_set", V)
EMPTY_TUPLE = z3.Const("nil_tuple", V)

StrV_ = fn("StrC", I, V)          # string constants: injective numbering of the literals met in a run (no string theory)
_STR_IDS = {"": 0}


def StrV(s):
    """V term of a Python string constant (accepts a str or a z3 StringVal for backwards compatibility)"""
    if not isinstance(s, str):
        s = s.as_string()
    if s not in _STR_IDS:
        _STR_IDS[s] = len(_STR_IDS)
    return StrV_(z3.IntVal(_STR_IDS[s]))

IntV = fn("IntV", I, V)
FloatV_ = fn("FloatC", I, V)
_FLT_IDS = {}


def FloatV(s):
    if not isinstance(s, str):
        s = s.as_string()
    if s not in _FLT_IDS:
        _FLT_IDS[s] = len(_FLT_IDS)
    return FloatV_(z3.IntVal(_FLT_IDS[s]))
          # float constants are kept by their repr text (no float theory; A-float)
int_of = fn("int_of", V, I)


def truthy(v):
    return fn("truthy", V, B)(v)


# ---------------------------------------------------------------------------------------------------------------------
# exception classes: codes and hierarchy (read from the Python builtins and blackbird.error)

EXC_CLASSES = ["Exception", "ValueError", "TypeError", "KeyError", "IndexError", "AttributeError", "NameError", "ZeroDivisionError",
               "NoTraceBack", "BlackbirdSyntaxError", "TemplateError", "OverflowError", "RuntimeError", "StopIteration", "LookupError",
               "ArithmeticError"]
EXC_CODE = {n: i + 1 for i, n in enumerate(EXC_CLASSES)}
EXC_PARENT = {"ValueError": "Exception", "TypeError": "Exception", "KeyError": "LookupError", "IndexError": "LookupError", "LookupError": "Exception",
              "AttributeError": "Exception", "NameError": "Exception", "ZeroDivisionError": "ArithmeticError", "ArithmeticError": "Exception",
              "OverflowError": "ArithmeticError", "NoTraceBack": "Exception", "BlackbirdSyntaxError": "NoTraceBack", "TemplateError": "Exception",
              "RuntimeError": "Exception", "StopIteration": "Exception"}


def subclasses(name):
    """all classes that `except name` catches"""
    out = []
    for c in EXC_CLASSES:
        k = c
        while k is not None:
            if k == name:
                out.append(c)
                break
            k = EXC_PARENT.get(k)
    return out


def code_in(codeterm, classnames):
    return z3.Or(*[codeterm == EXC_CODE[c] for c in classnames]) if classnames else z3.BoolVal(False)


# ---------------------------------------------------------------------------------------------------------------------
# meta-level values (kept structured as long as the program text allows)

class PyC:
    """a Python constant appearing in the program text"""
    __slots__ = ("v",)

    def __init__(self, v):
        self.v = v

    def __repr__(self):
        return "PyC(%r)" % (self.v,)


class Tup:
    """tuple / list display with statically known length"""
    __slots__ = ("items", "kind")

    def __init__(self, items, kind="tuple"):
        self.items, self.kind = list(items), kind

    def __repr__(self):
        return "Tup(%r,%s)" % (self.items, self.kind)


class ClassRef:
    """reference to a class (isinstance target, exception class, type used as a cast)"""
    __slots__ = ("name",)

    def __init__(self, name):
        self.name = name

    def __repr__(self):
        return "ClassRef(%s)" % self.name


class Closure:
    __slots__ = ("fdef", "env")

    def __init__(self, fdef, env):
        self.fdef, self.env = fdef, env


class ExcVal:
    """an exception instance built by `E(msg)`"""
    __slots__ = ("cls", "msg")

    def __init__(self, cls, msg):
        self.cls, self.msg = cls, msg


def is_term(v):
    return z3.is_expr(v)


def asV(v):
    """coerce a meta-level value to a V term"""
    if isinstance(v, PyC):
        c = v.v
        if c is None:
            return NONE
        if c is True:
            return TRUE
        if c is False:
            return FALSE
        if isinstance(c, int):
            return IntV(z3.IntVal(c))
        if isinstance(c, str):
            return StrV(c)
        if isinstance(c, float):
            return FloatV(repr(c))
        if isinstance(c, complex):
            return app("ComplexV", FloatV(repr(c.real)), FloatV(repr(c.imag)))
        raise TypeError("constant %r" % (c,))
    if isinstance(v, Tup):
        t = NIL_LIST
        for it in v.items:
            t = app("list_app", t, asV(it))
        return app("tuple_of", t) if v.kind == "tuple" else t
    if isinstance(v, ClassRef):
        return z3.Const("class_" + v.name, V)
    if isinstance(v, Closure):
        # a nested function as a value: identified by its (location-free) body, so that real and spec closures compare structurally
        import ast as _ast
        import hashlib as _h
        body = "|".join(_ast.dump(x) for x in v.fdef.body if not (isinstance(x, _ast.Expr) and isinstance(x.value, _ast.Constant)))
        sig = ",".join(a.arg for a in v.fdef.args.args)
        return z3.Const("closure_%s" % _h.sha1((sig + ":" + body).encode()).hexdigest()[:16], V)
    if isinstance(v, ExcVal):
        return app("exc_value", IntV(z3.IntVal(EXC_CODE.get(v.cls, 0))), asV(v.msg))
    if z3.is_expr(v):
        if z3.is_bool(v):
            return z3.If(v, TRUE, FALSE)
        if v.sort() == V:
            return v
        if z3.is_int(v):
            return IntV(v)
    raise TypeError("cannot coerce %r to V" % (v,))


def tobool(v):
    """Python truthiness of a meta-level value as a z3 Bool"""
    if isinstance(v, PyC):
        return z3.BoolVal(bool(v.v))
    if isinstance(v, Tup):
        return z3.BoolVal(len(v.items) > 0)
    if isinstance(v, (ClassRef, Closure, ExcVal)):
        return z3.BoolVal(True)
    if z3.is_expr(v) and z3.is_bool(v):
        return v
    return truthy(asV(v))


def FA(vs, body, *pats):
    """quantified axiom with explicit triggers (no trigger inference: it produced matching loops)"""
    return z3.ForAll(vs, body, patterns=[p if not isinstance(p, (list, tuple)) else z3.MultiPattern(*p) for p in pats])


def base_axioms():
    x, y, z, k, k2, d, l = z3.Consts("x y z k k2 d l", V)
    i, j = z3.Ints("i j")
    tag = fn("tag", V, I)
    ax = []
    A = ax.append
    A(z3.Not(truthy(NONE)))
    A(truthy(TRUE))
    A(z3.Not(truthy(FALSE)))
    A(z3.Distinct(NONE, TRUE, FALSE, NIL_LIST, NIL_DICT, NIL_SET, EMPTY_TUPLE))
    for cst in (NIL_LIST, NIL_DICT, NIL_SET, EMPTY_TUPLE):
        A(z3.Not(truthy(cst)))
    for cst in (NONE, TRUE, FALSE, NIL_LIST, NIL_DICT, NIL_SET, EMPTY_TUPLE):
        A(tag(cst) == 0)
    la = app("list_app", l, x)
    A(FA([l, x], z3.And(truthy(la), la != NIL_LIST, tag(la) == 4), la))
    ds = app("dict_set", d, k, x)
    A(FA([d, k, x], truthy(ds), ds))
    A(FA([l], truthy(app("tuple_of", l)) == truthy(l), app("tuple_of", l)))
    # constant constructors are injective and pairwise distinct (tags)
    A(FA([i], z3.And(int_of(IntV(i)) == i, truthy(IntV(i)) == (i != 0), tag(IntV(i)) == 2), IntV(i)))
    A(FA([i], z3.And(fn("str_id", V, I)(StrV_(i)) == i, truthy(StrV_(i)) == (i != 0), tag(StrV_(i)) == 1), StrV_(i)))
    A(FA([i], z3.And(fn("flt_id", V, I)(FloatV_(i)) == i, tag(FloatV_(i)) == 3), FloatV_(i)))
    # python == : reflexive on the values that occur here (no NaN constants), symmetric, decided on constants
    A(FA([x, y], z3.And(pred("py_eq", x, y) == pred("py_eq", y, x), z3.Implies(x == y, pred("py_eq", x, y))), pred("py_eq", x, y)))
    A(FA([i, j], pred("py_eq", StrV_(i), StrV_(j)) == (i == j), pred("py_eq", StrV_(i), StrV_(j))))
    A(FA([i, j], pred("py_eq", IntV(i), IntV(j)) == (i == j), pred("py_eq", IntV(i), IntV(j))))
    A(FA([i, j], z3.Not(pred("py_eq", StrV_(i), IntV(j))), pred("py_eq", StrV_(i), IntV(j))))
    A(FA([i], z3.Not(pred("py_eq", StrV_(i), NONE)), pred("py_eq", StrV_(i), NONE)))
    # dictionaries: read over write
    A(FA([d, k, x, k2], pred("dict_has", ds, k2) == z3.Or(pred("py_eq", k, k2), pred("dict_has", d, k2)), pred("dict_has", ds, k2)))
    A(FA([d, k, x], app("dict_get", ds, k) == x, ds))
    A(FA([d, k, x, k2], z3.Implies(z3.Not(pred("py_eq", k, k2)), app("dict_get", ds, k2) == app("dict_get", d, k2)), app("dict_get", ds, k2)))
    A(FA([k], z3.Not(pred("dict_has", NIL_DICT, k)), pred("dict_has", NIL_DICT, k)))
    dd = app("dict_discard", d, k)
    A(FA([d, k, k2], pred("dict_has", dd, k2) == z3.And(z3.Not(pred("py_eq", k, k2)), pred("dict_has", d, k2)), pred("dict_has", dd, k2)))
    A(FA([d, k], z3.Implies(z3.Not(pred("dict_has", d, k)), dd == d), dd))
    # del d[k] == discard when the key is present (KeyError otherwise, forked by the executor)
    A(FA([d, k], z3.And((code("dict_del", d, k) == 0) == pred("dict_has", d, k),
                        z3.Or(code("dict_del", d, k) == 0, code("dict_del", d, k) == EXC_CODE["KeyError"])), code("dict_del", d, k)))
    A(FA([d, k], app("dict_del", d, k) == dd, app("dict_del", d, k)))
    # subscripting a dict: present key -> value, absent key -> KeyError
    gi = code("getitem", d, k)
    A(FA([d, k], z3.Implies(pred("is_dict", d), z3.And(pred("dict_has", d, k) == (gi == 0), z3.Or(gi == 0, gi == EXC_CODE["KeyError"]))), gi))
    A(FA([d, k], z3.Implies(pred("is_dict", d), app("getitem", d, k) == app("dict_get", d, k)), app("getitem", d, k)))
    A(pred("is_dict", NIL_DICT))
    A(FA([d, k, x], pred("is_dict", ds) == pred("is_dict", d), ds))
    A(FA([d, k], pred("is_dict", dd) == pred("is_dict", d), dd))
    # membership
    A(FA([d, k], z3.Implies(pred("is_dict", d), pred("contains", d, k) == pred("dict_has", d, k)), pred("contains", d, k)))
    A(FA([x], z3.Not(pred("contains", NIL_LIST, x)), pred("contains", NIL_LIST, x)))
    A(FA([l, x, y], pred("contains", la, y) == z3.Or(pred("py_eq", x, y), pred("contains", l, y)), pred("contains", la, y)))
    # lists and small integers
    A(FA([l, x], app("py_len", la) == app("py_add", app("py_len", l), IntV(1)), app("py_len", la)))
    A(app("py_len", NIL_LIST) == IntV(0))
    # strings: results of the string builders are strings; a string is truthy iff it is not the empty string ("" is StrC(0))
    isstr = lambda t: pred("is_str", t)
    for head, ar in (("py_str", 1), ("py_repr", 1), ("m_getText", 1), ("py_lower", 1), ("py_upper", 1), ("EXPR_TEXT", 1), ("json_dumps", 1),
                     ("str_cat", 2), ("py_join", 2), ("py_replace", 3), ("re_sub", 3)):
        vs = [x, y, z][:ar]
        t = app(head, *vs)
        A(FA(vs, isstr(t), t))
    A(FA([i], isstr(StrV_(i)), StrV_(i)))
    sl = app("py_slice", x, y, z, k)
    A(FA([x, y, z, k], z3.Implies(isstr(x), isstr(sl)), sl))
    A(FA([x], z3.Implies(isstr(x), truthy(x) == z3.Not(pred("py_eq", x, StrV_(z3.IntVal(0))))), isstr(x)))
    # lists: a list's length is a non-negative integer and the list is truthy iff it is not zero (so `if l:` = `if len(l) > 0:` ...)
    islist = lambda t: pred("is_list", t)
    A(islist(NIL_LIST))
    A(FA([l, x], islist(la) == islist(l), la))
    lc = app("list_cat", l, x)
    A(FA([l, x], islist(lc) == islist(l), lc))
    ln = app("py_len", l)
    A(FA([l], z3.Implies(islist(l), z3.And(ln == IntV(int_of(ln)), int_of(ln) >= 0, (int_of(ln) > 0) == truthy(l))), ln))
    A(FA([i, j], app("py_add", IntV(i), IntV(j)) == IntV(i + j), app("py_add", IntV(i), IntV(j))))
    A(FA([i, j], app("py_sub", IntV(i), IntV(j)) == IntV(i - j), app("py_sub", IntV(i), IntV(j))))
    for nm, rel in (("py_lt", lambda a, b: a < b), ("py_gt", lambda a, b: a > b), ("py_le", lambda a, b: a <= b), ("py_ge", lambda a, b: a >= b)):
        A(FA([i, j], pred(nm, IntV(i), IntV(j)) == rel(i, j), pred(nm, IntV(i), IntV(j))))
    A(FA([l], app("list_cat", l, NIL_LIST) == l, app("list_cat", l, NIL_LIST)))
    A(FA([l, x, y], app("list_cat", l, app("list_app", x, y)) == app("list_app", app("list_cat", l, x), y), app("list_cat", l, app("list_app", x, y))))
    return ax


# ---------------------------------------------------------------------------------------------------------------------
# canonical string concatenation: "a{}b".format(x), f"a{x}b", "a" + str(x) + "b" and "".join(["a", str(x), "b"]) are one term

STRING_HEADS = ("str_cat", "py_str", "py_join", "py_replace", "re_sub", "py_repr", "m_getText", "py_lower", "py_upper", "StrC", "EXPR_TEXT", "json_dumps")


def is_string_term(v):
    if isinstance(v, PyC):
        return isinstance(v.v, str)
    if not z3.is_expr(v) or z3.is_bool(v) or not z3.is_app(v):
        return False
    n = v.decl().name()
    return n in STRING_HEADS or n.startswith("py_format")


def str_parts(v):
    """flatten a value into concatenation parts (Python str literals and V terms)"""
    if isinstance(v, PyC) and isinstance(v.v, str):
        return [v.v]
    if isinstance(v, str):
        return [v]
    t = asV(v)
    if z3.is_app(t) and t.decl().name() == "str_cat":
        return str_parts(t.arg(0)) + str_parts(t.arg(1))
    if z3.is_app(t) and t.decl().name() == "StrC" and z3.is_int_value(t.arg(0)):
        rev = {i: k for k, i in _STR_IDS.items()}
        if t.arg(0).as_long() in rev:
            return [rev[t.arg(0).as_long()]]
    return [t]


def strcat(parts):
    flat = []
    for p in parts:
        for q in str_parts(p):
            if isinstance(q, str):
                if q == "":
                    continue
                if flat and isinstance(flat[-1], str):
                    flat[-1] += q
                else:
                    flat.append(q)
            else:
                flat.append(q)
    if not flat:
        return StrV("")
    terms = [StrV(x) if isinstance(x, str) else x for x in flat]
    acc = terms[0]
    for t in terms[1:]:
        acc = app("str_cat", acc, t)
    return acc


def as_str_term(v):
    """str(v) as a term, without wrapping what is already a string"""
    if is_string_term(v):
        return asV(v)
    return app("py_str", asV(v))


def format_term(fmt, args):
    """"...{}...".format(*args): canonical concatenation when every field is a plain positional one, else an opaque py_format term"""
    import string
    try:
        fields = list(string.Formatter().parse(fmt))
    except ValueError:
        fields = None
    if fields is not None:
        parts, auto, ok = [], 0, True
        for lit, name, spec, conv in fields:
            if lit:
                parts.append(lit)
            if name is None:
                continue
            if spec or conv not in (None, "s"):
                ok = False
                break
            if name == "":
                idx = auto
                auto += 1
            elif name.isdigit():
                idx = int(name)
            else:
                ok = False
                break
            if idx >= len(args):
                ok = False
                break
            parts.append(as_str_term(args[idx]))
        if ok:
            return strcat(parts)
    return app("py_format%d" % len(args), asV(PyC(fmt)), *[asV(a) for a in args])
