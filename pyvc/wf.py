"""Well-formedness facts of parse trees, generated from the TEXT of src/blackbird.g4 on every run (DESIGN I.2 "wf facts").

A listener handler only ever sees trees of error-free parses (parse() installs BlackbirdErrorListener, which raises at the first syntax
error, before the walk), and the shipped parser accepts exactly the language of the g4 rules (ATNK parser_eq / codegen_sim). So for a
context object of class C -- the rule's own class, or the class of a labelled alternative -- the set of child accessors that return
something is one of the *presence vectors* the rule body allows:

    forloop : FOR vartype NAME IN (rangeval | LBRAC? vallist RBRAC?) (NEWLINE TAB statement)+
      =>  exactly one of ctx.rangeval() / ctx.vallist() is there; FOR, vartype, NAME, IN, NEWLINE, TAB, statement always are; ...

The facts are GROUND (about the handler's own ctx argument and, to depth 2, its single-valued children): no quantifier, no matching loop.
Assumption recorded: A-antlr-tree (tree shape follows the grammar). What is not derived: counts beyond present/absent, order of children.
"""
import itertools
import os

import z3

from . import terms as T
from .terms import V, app, truthy

MANY = 2


def _pv(item):
    """presence vectors of a rule-body item: set of frozensets of child symbols that occur at least once"""
    k = item[0]
    if k in ("tok", "ref"):
        return {frozenset([item[1]])}
    if k == "seq":
        out = {frozenset()}
        for it in item[1]:
            out = {a | b for a in out for b in _pv(it)}
        return out
    if k == "alt":
        out = set()
        for it in item[1]:
            out |= _pv(it)
        return out
    if k == "?":
        return _pv(item[1]) | {frozenset()}
    if k in ("*", "+"):
        base = sorted(_pv(item[1]), key=sorted)
        out = set()
        for r in range(0 if k == "*" else 1, len(base) + 1):
            for combo in itertools.combinations(base, r):
                u = frozenset()
                for c in combo:
                    u |= c
                out.add(u)
        return out
    return {frozenset()}


def _cnt(item):
    """symbol -> maximal number of occurrences (1 or MANY)"""
    k = item[0]
    if k in ("tok", "ref"):
        return {item[1]: 1}
    if k == "seq":
        out = {}
        for it in item[1]:
            for s, n in _cnt(it).items():
                out[s] = min(MANY, out.get(s, 0) + n)
        return out
    if k == "alt":
        out = {}
        for it in item[1]:
            for s, n in _cnt(it).items():
                out[s] = max(out.get(s, 0), n)
        return out
    if k == "?":
        return _cnt(item[1])
    if k in ("*", "+"):
        return {s: MANY for s in _cnt(item[1])}
    return {}


class Grammar:
    def __init__(self, repo):
        from atnk import g4
        self.g = g4.parse(open(os.path.join(repo, "src", "blackbird.g4")).read())
        self.classes = {}          # context class name -> (vectors, counts, rule name)
        self.rule_classes = {}     # rule name -> [class names an object produced by that rule can have]
        for r in self.g.parser_rules:
            base = r.name[0].upper() + r.name[1:] + "Context"
            labelled = [a for a in r.alts if a["label"]]
            if labelled and len(labelled) == len(r.alts):
                names = []
                for a in r.alts:
                    cn = a["label"][0].upper() + a["label"][1:] + "Context"
                    body = ("seq", a["items"])
                    if cn in self.classes:                       # one label on several alternatives: one class, either body
                        pv0, c0, _ = self.classes[cn]
                        self.classes[cn] = (pv0 | _pv(body), {s: max(c0.get(s, 0), n) for s, n in list(c0.items()) + list(_cnt(body).items())}, r.name)
                    else:
                        self.classes[cn] = (_pv(body), _cnt(body), r.name)
                    names.append(cn)
                self.rule_classes[r.name] = sorted(set(names))
            else:
                body = ("alt", [("seq", a["items"]) for a in r.alts])
                self.classes[base] = (_pv(body), _cnt(body), r.name)
                self.rule_classes[r.name] = [base]
        self.rules = {r.name for r in self.g.parser_rules}


def facts(ctx, gram, term, classname, depth=2):
    """ground wf facts about `term`, known to be an instance of context class `classname` (or one of its subclasses)"""
    cls = T.fn("class_of", V, z3.IntSort())
    out = []
    subs = ctx.ctx_classes.get(classname, (None, [classname]))[1]
    concrete = [c for c in sorted(subs) if c in gram.classes]
    if not concrete:
        return out
    out.append(z3.Or(*[cls(term) == ctx.ctx_ids[c] for c in concrete]))
    for cn in concrete:
        vectors, counts, _ = gram.classes[cn]
        syms = sorted(counts)
        guard = cls(term) == ctx.ctx_ids[cn] if len(concrete) > 1 else z3.BoolVal(True)
        alts = []
        for vec in sorted(vectors, key=sorted):
            alts.append(z3.And(*[truthy(app("m_" + s, term)) == z3.BoolVal(s in vec) for s in syms]) if syms else z3.BoolVal(True))
        out.append(z3.Implies(guard, z3.Or(*alts) if len(alts) != 1 else alts[0]))
        if depth > 1:
            for s in syms:
                if counts[s] == 1 and s in gram.rules:
                    child = app("m_" + s, term)
                    kids = [k for k in gram.rule_classes[s] if k in ctx.ctx_ids]
                    if not kids:
                        continue
                    sub = facts_under(ctx, gram, child, kids, depth - 1)
                    out.append(z3.Implies(z3.And(guard, truthy(child)), z3.And(*sub) if sub else z3.BoolVal(True)))
    return out


def facts_under(ctx, gram, term, classnames, depth):
    cls = T.fn("class_of", V, z3.IntSort())
    out = [z3.Or(*[cls(term) == ctx.ctx_ids[c] for c in classnames])]
    for cn in classnames:
        vectors, counts, _ = gram.classes[cn]
        syms = sorted(counts)
        guard = cls(term) == ctx.ctx_ids[cn] if len(classnames) > 1 else z3.BoolVal(True)
        alts = [z3.And(*[truthy(app("m_" + s, term)) == z3.BoolVal(s in vec) for s in syms]) if syms else z3.BoolVal(True) for vec in sorted(vectors, key=sorted)]
        out.append(z3.Implies(guard, z3.Or(*alts) if len(alts) != 1 else alts[0]))
        if depth > 1:
            for s in syms:
                if counts[s] == 1 and s in gram.rules:
                    child = app("m_" + s, term)
                    kids = [k for k in gram.rule_classes[s] if k in ctx.ctx_ids]
                    if kids:
                        sub = facts_under(ctx, gram, child, kids, depth - 1)
                        out.append(z3.Implies(z3.And(guard, truthy(child)), z3.And(*sub)))
    return out
