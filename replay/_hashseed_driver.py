"""Subprocess side of the `hashseed` witness family (C19): prints one canonical description per item.

stdin: JSON {"items": [{"script": "..."} | {"path": "/abs/main.xbb"}]}
stdout (last line): JSON list of canonical strings, one per item.  Run once per PYTHONHASHSEED by replay/fam_prog.py.

What is described: dumps text, every operation (name, modes, args/kwargs), the sorted parameter names, the variables.
Register transforms are rendered as the sorted (register, bound value) pairs plus the value of `func` at fixed
measurement results bound BY REGISTER, so the documented freedom (order in which a transform lists its registers,
always paired with its function) does not show.
"""
import json
import sys
import warnings


def canon(v):
    import numpy as np
    import sympy as sym
    t = type(v).__name__
    if t == "RegRefTransform":
        meas = {r: 0.37 + 0.11 * r for r in v.regrefs}
        try:
            val = v.func(*[meas[r] for r in v.regrefs])
            val = "%.12g" % val if not isinstance(val, complex) else "%.12g%+.12gj" % (val.real, val.imag)
        except Exception as e:                                   # pragma: no cover
            val = "EXC %s" % type(e).__name__
        return "RRT(%s; regs=%s; f=%s; str=%s)" % (sym.sstr(v.expr), sorted(zip(v.regrefs, [meas[r] for r in v.regrefs])), val, v.func_str)
    if isinstance(v, sym.Expr):
        return "Sym(%s; free=%s)" % (sym.sstr(v), sorted(map(str, v.free_symbols)))
    if isinstance(v, np.ndarray):
        return "Array(%s, %s, [%s])" % (v.shape, v.dtype.kind, ", ".join(canon(x) for x in v.flatten().tolist()))
    if isinstance(v, (list, tuple)):
        return "[%s]" % ", ".join(canon(x) for x in v)
    if isinstance(v, dict):
        return "{%s}" % ", ".join("%s: %s" % (k, canon(x)) for k, x in v.items())
    if isinstance(v, np.generic):
        return "%s:%r" % (v.dtype.kind, v.item())
    return "%s:%r" % (t, v)


def describe(item):
    import blackbird
    try:
        p = blackbird.loads(item["script"]) if "script" in item else blackbird.load(item["path"])
    except Exception as e:
        return "LOAD-EXC %s: %s" % (type(e).__name__, str(e)[:300])
    out = []
    try:
        out.append("dumps=" + blackbird.dumps(p))
    except Exception as e:
        out.append("dumps=EXC %s: %s" % (type(e).__name__, str(e)[:300]))
    out.append("name=%s version=%s" % (p.name, p.version))
    out.append("target=%s" % canon(p.target))
    out.append("type=%s" % canon(p.programtype))
    for i, op in enumerate(p.operations):
        out.append("op%d=%s | %s args=%s kwargs=%s" % (i, op["op"], [int(m) for m in op["modes"]], canon(op["args"]) if "args" in op else "-",
                                                          canon(op["kwargs"]) if "kwargs" in op else "-"))
    out.append("parameters=%s" % sorted(p.parameters))
    out.append("modes=%s" % sorted(int(m) for m in p.modes))
    out.append("variables=%s" % canon({k: p.variables[k] for k in sorted(p.variables)}))
    return "\n".join(out)


def main():
    warnings.simplefilter("ignore")
    doc = json.load(sys.stdin)
    res = [describe(it) for it in doc["items"]]
    sys.stdout.write("\n" + json.dumps(res) + "\n")


if __name__ == "__main__":
    main()
