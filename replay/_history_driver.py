"""Subprocess side of the `history_y` witness family (C12, C07): a history of loads over FILES in one fresh interpreter.

stdin: JSON {"steps": [step, ...], "sharing": bool}
  step = {"files": {rel: text | null},     files written (null: removed) under a private root directory BEFORE the load
          "cwd": rel | null,               process working directory for the load, relative to the root (null: unchanged)
          "text": script | "path": rel,    blackbird.loads(text)  |  blackbird.load(path)
          "how": "abs" | "rel",            path handed over absolute or relative to the working directory
          "mutate_earlier": bool}          the caller modifies every program returned so far (in place) before this load
  every text may contain @ROOT@ (replaced by the root directory); messages and outcomes have the root replaced back.
stdout (last line): JSON {"outcomes": [...], "sharing": [...]}; outcome = exact image of the program, or exception type + message.
"""
import json
import os
import shutil
import sys
import tempfile
import warnings


def main():
    warnings.simplefilter("ignore")
    req = json.loads(sys.stdin.read())
    from replay.fam_sem import _canon_program, _mutate_program, _mutable_ids
    import blackbird
    root = os.path.realpath(tempfile.mkdtemp(prefix="bb_hist_"))
    home = os.getcwd()
    outcomes, progs, mutated = [], [], set()
    try:
        for st in req["steps"]:
            for rel, text in (st.get("files") or {}).items():
                path = os.path.join(root, rel)
                if text is None:
                    if os.path.exists(path):
                        os.remove(path)
                    continue
                os.makedirs(os.path.dirname(path), exist_ok=True)
                with open(path, "w") as f:
                    f.write(text.replace("@ROOT@", root))
            if st.get("cwd") is not None:
                os.chdir(os.path.join(root, st["cwd"]))
            if st.get("mutate_earlier"):
                for k, p in enumerate(progs):
                    if p is not None and k not in mutated:
                        mutated.add(k)
                        _mutate_program(p)
            if "text" not in st and "path" not in st:
                continue
            try:
                if "text" in st:
                    p = blackbird.loads(st["text"].replace("@ROOT@", root))
                else:
                    full = os.path.join(root, st["path"])
                    p = blackbird.load(full if st.get("how", "abs") == "abs" else os.path.relpath(full, os.getcwd()))
            except BaseException as e:                           # noqa
                outcomes.append({"exc": type(e).__name__, "msg": str(e).replace(root, "@ROOT@")})
                progs.append(None)
            else:
                outcomes.append(json.loads(json.dumps({"program": _canon_program(p)}).replace(root, "@ROOT@")))
                progs.append(p)
        sharing = []
        if req.get("sharing"):
            live = [(i, p) for i, p in enumerate(progs) if p is not None]
            for a in range(len(live)):
                for b in range(a + 1, len(live)):
                    (i, p), (j, q) = live[a], live[b]
                    for what, x, y in (("operations", p.operations, q.operations), ("variables", p.variables, q.variables),
                                       ("target", p.target, q.target), ("target options", p.target["options"], q.target["options"]),
                                       ("programtype", p.programtype, q.programtype), ("modes", p.modes, q.modes),
                                       ("type options", p.programtype["options"], q.programtype["options"])):
                        if x is y:
                            sharing.append("results #%d and #%d: %s is the same object" % (i, j, what))
                    ids_p, ids_q = {}, {}
                    for x in (p.operations, p.variables, p.target, p.programtype, p.modes):
                        _mutable_ids(x, ids_p)
                    for y in (q.operations, q.variables, q.target, q.programtype, q.modes):
                        _mutable_ids(y, ids_q)
                    common = set(ids_p) & set(ids_q)
                    if common:
                        sharing.append("results #%d and #%d share %d mutable object(s): %s" % (i, j, len(common), sorted(ids_p[c] for c in common)))
    finally:
        os.chdir(home)
        shutil.rmtree(root, ignore_errors=True)
    sys.stdout.write("\n" + json.dumps({"outcomes": outcomes, "sharing": sharing}) + "\n")


if __name__ == "__main__":
    main()
