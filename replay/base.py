"""Witness families: generators of concrete inputs + an oracle taken from the property statement, run against the REAL code.

This is the bounded layer (never counted as proved): it (i) replays counter-models of failed obligations on the real code,
(ii) cross-checks the verifier's model of Python/NumPy/SymPy on every run, (iii) is the stand-in where a function has left
the verifier's subset.  Runs under /venv/bin/python with PYTHONPATH=<repo>/blackbird_python, so the working tree is what runs.

A family is registered with `register(Family(...))` from a module replay/fam_*.py.

  cases(rng, n, tier)  -> iterable of JSON-able case dicts:  {"class": <stable signature of the input class>, "input": {...}}
  check(case)          -> None if the real code agrees with the oracle, else a dict {"expected": ..., "actual": ...}
                          (may add/override "class"); it must depend on case["input"] only (replay files re-run it).
An exception escaping check() is an engine error, not a violation.
"""
import cmath
import math

FAMILIES = {}


class Family:
    def __init__(self, name, props, cases, check, bound="", rule="", weight=1.0, parallel=True):
        self.name, self.props, self.cases, self.check = name, list(props), cases, check
        self.bound, self.rule, self.weight, self.parallel = bound, rule, weight, parallel


def register(fam):
    assert fam.name not in FAMILIES, fam.name
    FAMILIES[fam.name] = fam
    return fam


# ---------------------------------------------------------------------------------------------------------------------
# comparison relation "the same program" (DESIGN section 3, conventions)

def kind(v):
    import numpy as np
    if isinstance(v, (bool, np.bool_)):
        return "bool"
    if isinstance(v, (int, np.integer)):
        return "int"
    if isinstance(v, (float, np.floating)):
        return "float"
    if isinstance(v, (complex, np.complexfloating)):
        return "complex"
    if isinstance(v, str):
        return "str"
    if isinstance(v, (list, tuple)):
        return "list"
    if isinstance(v, np.ndarray):
        return "array"
    return type(v).__name__


def num_close(a, b, rel=1e-12):
    try:
        a = complex(a)
        b = complex(b)
    except Exception:
        return False
    if cmath.isnan(a) or cmath.isnan(b):
        return False
    if cmath.isinf(a) or cmath.isinf(b):
        return a == b
    return abs(a - b) <= rel * max(1.0, abs(a), abs(b))


def value_equiv(a, b, exact=True, rel=1e-12, sym_rel=1e-9):
    """value equivalence: numbers numerically equal and of the same class (Python vs NumPy scalar not distinguished),
    strings equal, lists element-wise, arrays same shape / dtype-kind / elements, symbolic values equal as expressions
    up to float printing (evaluated at generic points)."""
    import numpy as np
    import sympy as sym
    ka, kb = kind(a), kind(b)
    if isinstance(a, sym.Expr) or isinstance(b, sym.Expr):
        if not (isinstance(a, sym.Expr) and isinstance(b, sym.Expr)):
            return False
        return sym_equiv(a, b, sym_rel)
    if type(a).__name__ == "RegRefTransform" or type(b).__name__ == "RegRefTransform":
        if type(a).__name__ != type(b).__name__:
            return False
        return sym_equiv(a.expr, b.expr, sym_rel) and sorted(a.regrefs) == sorted(b.regrefs)
    if ka != kb:
        return False
    if ka in ("bool", "str"):
        return bool(a == b)
    if ka in ("int",):
        return int(a) == int(b)
    if ka in ("float", "complex"):
        if exact:
            a, b = complex(a), complex(b)
            return (a == b) or (cmath.isnan(a) and cmath.isnan(b))
        return num_close(a, b, rel)
    if ka == "list":
        return len(a) == len(b) and all(value_equiv(x, y, exact, rel, sym_rel) for x, y in zip(a, b))
    if ka == "array":
        if a.shape != b.shape or a.dtype.kind != b.dtype.kind:
            return False
        if a.dtype.kind == "O":
            return all(value_equiv(x, y, exact, rel, sym_rel) for x, y in zip(a.flatten(), b.flatten()))
        return bool(np.array_equal(a, b)) if exact else bool(np.allclose(a, b, rtol=rel, atol=0))
    return a == b


def sym_equiv(a, b, rel=1e-9):
    import sympy as sym
    fa, fb = sorted(map(str, a.free_symbols)), sorted(map(str, b.free_symbols))
    if fa != fb:
        return False
    pts = [0.7310585, -1.3862943, 2.2360679, 0.1234567, -0.9876543, 1.6180339, 3.3166247]
    for shift in range(3):
        sub = {sym.Symbol(n): pts[(i + shift) % len(pts)] * (1 + 0.1 * shift) for i, n in enumerate(fa)}
        try:
            va, vb = complex(a.evalf(30, subs=sub)), complex(b.evalf(30, subs=sub))
        except Exception:
            return False
        if not num_close(va, vb, rel):
            return False
    return True


def program_view(p):
    """observable content of a BlackbirdProgram as plain data (for messages and snapshots)"""
    return {"name": p.name, "version": p.version, "target": p.target, "type": p.programtype, "parameters": sorted(p.parameters),
            "modes": sorted(int(m) for m in p.modes), "len": len(p), "operations": p.operations}


def program_diff(p, q, exact=True, rel=1e-12, check_vars=False):
    """None if p ~= q, else a short description of the first difference. p, q: BlackbirdProgram (or views with the same attrs)."""
    if p.name != q.name:
        return "name %r vs %r" % (p.name, q.name)
    if p.version != q.version:
        return "version %r vs %r" % (p.version, q.version)
    for what, a, b in (("target", p.target, q.target), ("type", p.programtype, q.programtype)):
        if a["name"] != b["name"]:
            return "%s name %r vs %r" % (what, a["name"], b["name"])
        if list(a["options"].keys()) != list(b["options"].keys()):
            return "%s option keys %r vs %r" % (what, list(a["options"]), list(b["options"]))
        for k in a["options"]:
            if not value_equiv(a["options"][k], b["options"][k], exact, rel):
                return "%s option %s: %r vs %r" % (what, k, a["options"][k], b["options"][k])
    if set(p.parameters) != set(q.parameters):
        return "parameters %r vs %r" % (sorted(p.parameters), sorted(q.parameters))
    if len(p.operations) != len(q.operations):
        return "operation count %d vs %d" % (len(p.operations), len(q.operations))
    for i, (a, b) in enumerate(zip(p.operations, q.operations)):
        d = op_diff(a, b, exact, rel)
        if d:
            return "operation %d: %s" % (i, d)
    if set(int(m) for m in p.modes) != set(int(m) for m in q.modes):
        return "mode set %r vs %r" % (p.modes, q.modes)
    if check_vars:
        if set(p.variables) != set(q.variables):
            return "variables %r vs %r" % (sorted(p.variables), sorted(q.variables))
        for k in p.variables:
            if not value_equiv(p.variables[k], q.variables[k], exact, rel):
                return "variable %s: %r vs %r" % (k, p.variables[k], q.variables[k])
    return None


def op_diff(a, b, exact=True, rel=1e-12):
    if a["op"] != b["op"]:
        return "op %r vs %r" % (a["op"], b["op"])
    ma, mb = list(a["modes"]), list(b["modes"])
    if len(ma) != len(mb) or any(kind(x) != "int" or kind(y) != "int" or int(x) != int(y) for x, y in zip(ma, mb)):
        return "modes %r vs %r" % (ma, mb)
    if ("args" in a) != ("args" in b) or ("kwargs" in a) != ("kwargs" in b):
        return "presence of args/kwargs differs: %r vs %r" % (sorted(a), sorted(b))
    if "args" in a:
        if len(a["args"]) != len(b["args"]):
            return "arg count %r vs %r" % (a["args"], b["args"])
        for j, (x, y) in enumerate(zip(a["args"], b["args"])):
            if not value_equiv(x, y, exact, rel):
                return "arg %d: %r (%s) vs %r (%s)" % (j, x, kind(x), y, kind(y))
    if "kwargs" in a:
        if list(a["kwargs"].keys()) != list(b["kwargs"].keys()):
            return "kwarg keys %r vs %r" % (list(a["kwargs"]), list(b["kwargs"]))
        for k in a["kwargs"]:
            if not value_equiv(a["kwargs"][k], b["kwargs"][k], exact, rel):
                return "kwarg %s: %r vs %r" % (k, a["kwargs"][k], b["kwargs"][k])
    return None


def describe_exc(e):
    return "%s: %s" % (type(e).__name__, str(e)[:300])


def isfinite_num(v):
    try:
        c = complex(v)
    except Exception:
        return True
    return not (math.isnan(c.real) or math.isnan(c.imag) or math.isinf(c.real) or math.isinf(c.imag))
