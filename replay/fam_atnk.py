"""Witness family for C14/C18: the shipped Python lexer against an independent reading of the lexer rules of src/blackbird.g4.

The reference tokeniser simulates the NFA that atnk builds from the g4 TEXT (never from the shipped ATN): maximal munch, the earliest
rule wins ties, `-> skip` rules dropped. It is the replay vehicle for distinguishing strings produced by the closed ATNK obligations
(lexer_eq, layout) and a bounded cross-check of its own.
"""
import os
import random

from . import base

_REF = {}


def _reference():
    if "x" not in _REF:
        from atnk import ctx as actx
        from atnk import lexer_eq
        c = actx.Ctx()
        g = c.grammar()
        nfa, start = lexer_eq.g4_lexer_nfa(g)
        rules = g.token_rules()
        _REF["x"] = (nfa, start, rules)
    return _REF["x"]


def _step(nfa, states, ch):
    cp = ord(ch)
    nxt = set()
    for s in states:
        for label, t in nfa.tr.get(s, ()):
            if any(lo <= cp <= hi for lo, hi in label):
                nxt.add(t)
    return nfa.closure(nxt) if nxt else frozenset()


def ref_tokens(text):
    """[(rule name, lexeme)] per the g4 rules; an unmatched character cannot happen (rule ANY)"""
    nfa, start, rules = _reference()
    out, i = [], 0
    while i < len(text):
        states = nfa.closure([start])
        best = None
        j = i
        while j < len(text) and states:
            states = _step(nfa, states, text[j])
            j += 1
            tags = [nfa.acc[s] for s in states if s in nfa.acc]
            if tags:
                best = (j, min(tags))
        if best is None:
            out.append(("<no token>", text[i]))
            i += 1
            continue
        rule = rules[best[1] - 1]
        if "skip" not in [str(c) for c in (rule.commands or [])] and not any("skip" in str(c) for c in (rule.commands or [])):
            out.append((rule.name, text[i:best[0]]))
        i = best[0]
    return out


def real_tokens(text):
    import antlr4
    from blackbird.blackbirdLexer import blackbirdLexer
    lx = blackbirdLexer(antlr4.InputStream(text))
    lx.removeErrorListeners()
    out = []
    for t in lx.getAllTokens():
        if t.channel == 0:
            out.append((blackbirdLexer.symbolicNames[t.type] if 0 < t.type < len(blackbirdLexer.symbolicNames) else str(t.type), t.text))
    return out


PIECES = ["+", "-", "*", "/", "**", "=", "for", "in", "0", "12", "007", "1.5", "2e3", "1.5E-2", "2e+3", "1.", ".5", "2j", "1+2j", "-3-1J", "+0J", "1.5e1-2J",
          "\"a b\"", "\"x#y\"", "True", "False", "1,2", "1, 2", "pi", "\n", "\r\n", "\r", "\t", "    ", " ", "  ", "   ", "name", "version", "target", "type",
          "include", "sqrt", "sin", "arcsinh", "exp", "log", ".", ",", ":", "\"", "(", ")", "[", "]", "{", "}", "|", "array", "float", "complex", "int", "str",
          "bool", "q0", "q12", "q", "MeasureX", "Measure", "Measure_x", "Sgate", "X8_01", "fock.v2", "3x", "x3", "#c", "# c d\n", "$", "@", "~", "µ", "e", "E", "j"]


def cases(rng, n, tier):
    for i in range(n):
        k = rng.randint(1, 6)
        text = "".join(rng.choice(PIECES) for _ in range(k))
        yield {"class": "lexer/random-pieces", "input": {"text": text}}


def check(case):
    text = case["input"]["text"]
    want, got = ref_tokens(text), real_tokens(text)
    if want != got:
        return {"expected": "tokens prescribed by blackbird.g4 (longest match, earliest rule): %r" % (want,), "actual": "shipped Python lexer: %r" % (got,)}
    return None


base.register(base.Family("lexer_tokens", ["C14", "C18"], cases, check, weight=0.3,
                          bound="concatenations of 1-6 pieces from a vocabulary of %d token texts / layout pieces / stray characters" % len(PIECES),
                          rule="shipped Python lexer vs NFA simulation of the g4 lexer rules (atnk/g4.py + lexer_eq.g4_lexer_nfa), maximal munch, first rule wins, skip dropped"))
