"""Sampling of the ASSUMED library contracts (pyvc/lib.py, DESIGN 2.3) against the real NumPy / SymPy / CPython installed here.

Not proof: it guards against an axiom that is simply wrong (which would make proofs vacuous or raise false alarms). A mismatch is reported
by the orchestrator as an ENGINE error ("assumed contract refuted"), never as a property violation.
Each case is {"axiom": id, "args": [...]}; check() evaluates the real library and the axiom's reading side by side.
"""
import cmath
import copy
import math
import os
import random
import re

from . import base


def _num(rng, kind):
    import numpy as np
    if kind == "pyint":
        return rng.randint(-9, 9)
    if kind == "npint":
        return np.int64(rng.randint(-9, 9))
    if kind == "pyfloat":
        return round(rng.uniform(-9, 9), 3)
    if kind == "npfloat":
        return np.float64(round(rng.uniform(-9, 9), 3))
    if kind == "pycomplex":
        return complex(rng.randint(-5, 5), rng.randint(1, 5))
    return np.complex128(complex(rng.randint(-5, 5), rng.randint(1, 5)))


KINDS = ["pyint", "npint", "pyfloat", "npfloat", "pycomplex", "npcomplex"]
AXIOMS = ["np.sum=ADD", "np.prod=MUL", "np.power/int-negint-raises", "np.power/-1=recip", "float(int)", "int-kind-closure", "flatten-rowmajor", "reshape-rowmajor",
          "np.insert", "np.array-dtype-complex-into-real", "lambdify-subst", "symbol-eq-by-name", "free_symbols-set", "deepcopy-independent", "dict-order",
          "format-float-roundtrip", "format-complex", "re-word-alternation", "os.path", "sorted-stable", "np.signbit", "np.isclose", "np.array-ragged",
          "elementary-functions", "int-float-complex-literals", "str-replace-quotes", "range-star", "class-hierarchy"]


def cases(rng, n, tier):
    for i in range(max(n, len(AXIOMS))):                        # every assumed contract is sampled at least once in every run
        ax = AXIOMS[i % len(AXIOMS)]
        yield {"class": "axiom/" + ax, "input": {"axiom": ax, "seed": rng.randrange(10 ** 9)}}


def check(case):
    import numpy as np
    import sympy as sym
    ax, rng = case["input"]["axiom"], random.Random(case["input"]["seed"])
    ka, kb = rng.choice(KINDS), rng.choice(KINDS)
    a, b = _num(rng, ka), _num(rng, kb)
    isint = lambda v: isinstance(v, (int, np.integer)) and not isinstance(v, (bool, np.bool_))
    bad = lambda exp, act: {"expected": "%s: %s" % (ax, exp), "actual": str(act)}

    if ax == "class-hierarchy":
        # pyvc/lib.py DISJOINT_CLASSES / SUBCLASSES, read from the verifier's own source so that the sampled facts are the assumed ones
        import ast as _ast
        from blackbird.listener import RegRefTransform
        src = open(os.path.join(os.path.dirname(os.path.dirname(os.path.abspath(__file__))), "pyvc", "lib.py")).read()
        env = {}
        for node in _ast.parse(src).body:
            if isinstance(node, _ast.Assign) and isinstance(node.targets[0], _ast.Name) and \
               node.targets[0].id in ("_CONTAINERS", "_NUMBERS", "_NUMBER_OVERLAPS", "DISJOINT_CLASSES", "SUBCLASSES"):
                exec(compile(_ast.Module(body=[node], type_ignores=[]), "lib.py", "exec"), env)
        cls = {"str": str, "list": list, "tuple": tuple, "dict": dict, "set": set, "np.ndarray": np.ndarray, "RegRefTransform": RegRefTransform, "sym.Expr": sym.Expr,
               "int": int, "float": float, "complex": complex, "np.integer": np.integer, "np.floating": np.floating, "np.complexfloating": np.complexfloating,
               "np.generic": np.generic, "sym.Symbol": sym.Symbol, "bool": bool}
        x = sym.Symbol("x")
        pool = [None, True, False, 0, -3, 2 ** 70, 0.5, float("inf"), 1j, "", "p0", [], [1], (), (1, 2), {}, {"a": 1}, set(), {1}, np.array([1.0]), np.array([[x]]),
                np.int64(3), np.int32(3), np.uint8(3), np.float64(0.5), np.float32(0.5), np.complex128(1j), np.complex64(1j), np.bool_(True), np.str_("a"),
                x, x + 1, sym.Integer(2), sym.Float(0.5), sym.I, sym.pi, sym.sin(x), RegRefTransform(sym.Symbol("q0")), a, b]
        for ca, cb in env["DISJOINT_CLASSES"]:
            A, B = cls[ca], cls[cb]
            if issubclass(A, B) or issubclass(B, A):
                return bad("%s and %s unrelated" % (ca, cb), "one is a subclass of the other")
            for v in pool:
                if isinstance(v, A) and isinstance(v, B):
                    return bad("no object is both %s and %s" % (ca, cb), repr(v))
        for dt in (np.int8, np.int64, np.uint16, np.float16, np.float32, np.float64, np.complex64, np.complex128, np.bool_, np.object_, np.str_, np.dtype("int32"),
                   np.array([1]).dtype, np.array([1.5]).dtype, np.array([1j]).dtype, np.array([x]).dtype):
            if sum(bool(np.issubdtype(dt, k)) for k in (np.integer, np.floating, np.complexfloating)) > 1:
                return bad("a dtype is a sub-dtype of at most one of integer / floating / complexfloating", dt)
        for sub, sup in env["SUBCLASSES"]:
            if not issubclass(cls[sub], cls[sup]):
                return bad("%s is a subclass of %s" % (sub, sup), "it is not")
        return None

    if ax == "np.sum=ADD":
        r = np.sum([a, b], axis=0)
        if not base.num_close(r, a + b):
            return bad("a+b", r)
        x = sym.Symbol("x")
        if np.sum([x, 2], axis=0) != x + 2 or np.sum([1.5, -x], axis=0) != 1.5 - x:
            return bad("object fallback calls __add__ for SymPy operands", np.sum([x, 2], axis=0))
    elif ax == "np.prod=MUL":
        r = np.prod([a, b], axis=0)
        if not base.num_close(r, a * b):
            return bad("a*b", r)
        x = sym.Symbol("x")
        if np.prod([x, 2], axis=0) != 2 * x:
            return bad("object fallback calls __mul__", np.prod([x, 2], axis=0))
    elif ax == "np.power/int-negint-raises":
        base_, e = rng.choice([2, np.int64(3), 5]), rng.choice([-1, -2, np.int64(-1)])
        try:
            np.power(base_, e)
            return bad("ValueError for integer ** negative integer", "no exception")
        except ValueError:
            pass
        for fb in (2.0, np.float64(3.0), 2 + 1j):
            np.power(fb, e)            # never raises
        np.power(base_, abs(int(e)))    # non-negative exponent never raises
    elif ax == "np.power/-1=recip":
        if a == 0 or isint(a):
            a = 2.5
        if not base.num_close(np.power(a, -1), 1 / a):
            return bad("1/a", np.power(a, -1))
    elif ax == "float(int)":
        v = rng.choice([rng.randint(-99, 99), np.int64(rng.randint(-99, 99))])
        f = float(v)
        if isinstance(f, (int, np.integer)) or f != v or not base.num_close(1 / f if f else 1.0, (1 / v) if v else 1.0):
            return bad("float(int) is a float equal to the int", f)
    elif ax == "int-kind-closure":
        x, y = rng.choice([3, np.int64(4)]), rng.choice([2, np.int64(5)])
        for r in (np.sum([x, y], axis=0), np.sum([x, -y], axis=0), np.prod([x, y], axis=0), np.power(x, y)):
            if not isint(r):
                return bad("+,-,*,** on integer kinds stay integer kinds", type(r))
        if isint(np.prod([x, np.power(float(y), -1)], axis=0)):
            return bad("division yields a float kind", "integer")
    elif ax in ("flatten-rowmajor", "reshape-rowmajor"):
        r_, c_ = rng.randint(1, 4), rng.randint(1, 4)
        vals = [rng.randint(0, 99) for _ in range(r_ * c_)]
        A = np.array(vals).reshape(r_, -1)
        if A.shape != (r_, c_) or any(A[i][j] != vals[i * c_ + j] for i in range(r_) for j in range(c_)) or list(A.flatten()) != vals:
            return bad("row-major", A)
        try:
            np.array([1, 2, 3]).reshape(2, -1)
            return bad("ValueError when rows do not divide the size", "no exception")
        except ValueError:
            pass
    elif ax == "np.insert":
        vals = [rng.randint(0, 9) for _ in range(rng.randint(0, 5))]
        k = rng.randint(0, len(vals))
        x = sym.Symbol("p")
        r = np.insert(np.array(vals, dtype=np.float64).astype(object), k, x)
        exp = [float(v) for v in vals]
        exp.insert(k, x)
        if list(r) != exp:
            return bad("list.insert on the flattened array", r)
    elif ax == "np.array-dtype-complex-into-real":
        for dt in (np.float64, np.int64):
            try:
                np.array([1, 2j], dtype=dt)
                return bad("TypeError for complex into int/float array", "no exception")
            except TypeError:
                pass
    elif ax == "lambdify-subst":
        x, y, z = sym.symbols("a ab q12")
        e = rng.choice([x - 2 * y, x / y + z, x ** 2 * y - z, (x + 1) / (y + 3)])
        L = list(e.free_symbols)
        vals = {str(s): round(rng.uniform(1, 3), 3) for s in L}
        f = sym.lambdify(L, e)
        want = float(e.subs({s: vals[str(s)] for s in L}))
        if not base.num_close(f(*[vals[str(s)] for s in L]), want, 1e-9) or not base.num_close(f(**vals), want, 1e-9):
            return bad("lambdify(L,e) binds positionally in the order of L and by name", f(*[vals[str(s)] for s in L]))
        rl = list(reversed(L))
        if not base.num_close(sym.lambdify(rl, e)(*[vals[str(s)] for s in rl]), want, 1e-9):
            return bad("any order of L", "differs")
    elif ax == "symbol-eq-by-name":
        if sym.Symbol("a") != sym.Symbol("a") or sym.Symbol("a") == sym.Symbol("ab") or (sym.Symbol("a") == "a"):
            return bad("Symbol equality by name, never equal to a str", "violated")
    elif ax == "free_symbols-set":
        x, y = sym.symbols("x y")
        if (x * y + x).free_symbols != {x, y} or not isinstance((x + 1).free_symbols, set):
            return bad("free_symbols is the set of symbols", (x * y + x).free_symbols)
    elif ax == "deepcopy-independent":
        d = {"ops": [{"modes": [1, 2], "args": [np.array([[1.0]])]}]}
        c = copy.deepcopy(d)
        c["ops"][0]["modes"].append(3)
        c["ops"][0]["args"][0][0][0] = 5
        if d["ops"][0]["modes"] != [1, 2] or d["ops"][0]["args"][0][0][0] != 1.0 or c["ops"][0]["modes"] != [1, 2, 3]:
            return bad("deepcopy shares no mutable cell", d)
    elif ax == "dict-order":
        ks = rng.sample(range(100), 6)
        d = {}
        for k in ks:
            d[k] = 1
        d2 = dict(d)
        d2.update({ks[0]: 2})
        if list(d) != ks or list(d2) != ks or list(d.items())[0][0] != ks[0]:
            return bad("dicts iterate in insertion order", list(d))
    elif ax == "format-float-roundtrip":
        v = rng.choice([rng.uniform(-1e3, 1e3), rng.uniform(-1, 1) * 10 ** rng.randint(-300, 300), 5e-324, -0.0, 1e22, 1e-7])
        for w in (v, np.float64(v)):
            t = "{}".format(w)
            if float(t) != v or (v == 0 and math.copysign(1, float(t)) != math.copysign(1, v)):
                return bad("float('{}'.format(x)) == x", t)
        if "{}".format(np.int64(7)) != "7" or "{}".format(True) != "True":
            return bad("ints / bools print plainly", "{}".format(np.int64(7)))
    elif ax == "format-complex":
        v = complex(rng.choice([-0.0, 0.0, 1.5, -2.25e-5]), rng.choice([-0.0, 0.0, 2.0, -3.5e10]))
        t = "{}{}{}j".format(v.real, "+-"[int(np.signbit(v.imag))], abs(v.imag))
        w = complex(t)
        if (w.real, w.imag) != (v.real, v.imag) or math.copysign(1, w.imag) != math.copysign(1, v.imag) or math.copysign(1, w.real) != math.copysign(1, v.real):
            return bad("complex('{re}{sign}{|im|}j') reproduces both parts and signs", t)
    elif ax == "re-word-alternation":
        names = sorted(["a", "ab", "a1", "p"], key=len, reverse=True)
        pattern = r"\b({})\b".format("|".join(re.escape(n) for n in names))
        t = re.sub(pattern, r"{\1}", "a*ab + a1**2 - pi*p + 1.0e-7*a")
        if t != "{a}*{ab} + {a1}**2 - pi*{p} + 1.0e-7*{a}":
            return bad("whole-word alternation braces exactly the names", t)
    elif ax == "os.path":
        if os.path.join("/x/y", "sub/lib.xbb") != "/x/y/sub/lib.xbb" or os.path.join("/x/y", "/abs/lib.xbb") != "/abs/lib.xbb" or \
           os.path.dirname("/x/y/main.xbb") != "/x/y" or os.path.dirname("main.xbb") != "":
            return bad("POSIX join / dirname", os.path.join("/x/y", "/abs/lib.xbb"))
    elif ax == "sorted-stable":
        names = ["ab", "zz", "a", "b", "abc"]
        if sorted(names, key=len, reverse=True) != ["abc", "ab", "zz", "a", "b"] or sorted({3, 10, 1}) != [1, 3, 10]:
            return bad("sorted is stable / increasing", sorted(names, key=len, reverse=True))
    elif ax == "np.signbit":
        if not (np.signbit(-0.0) and not np.signbit(0.0) and np.signbit(np.float64(-2.0)) and int(np.signbit(-0.0)) == 1):
            return bad("sign bit", "violated")
    elif ax == "np.isclose":
        v = rng.uniform(-10, 10)
        if not bool(np.isclose(v, v * (1 + 1e-12))) or bool(np.isclose(1.0, 1.1)):
            return bad("isclose tolerates rounding only", v)
    elif ax == "np.array-ragged":
        try:
            np.array([[1, 2], [3]], dtype=np.float64)
            return bad("ValueError for ragged nested lists", "no exception")
        except ValueError:
            pass
    elif ax == "elementary-functions":
        x = rng.uniform(0.1, 0.9)
        pairs = [(np.sin, math.sin), (np.cos, math.cos), (np.tan, math.tan), (np.arcsin, math.asin), (np.arccos, math.acos), (np.arctan, math.atan),
                 (np.sinh, math.sinh), (np.cosh, math.cosh), (np.tanh, math.tanh), (np.arcsinh, math.asinh), (np.arctanh, math.atanh), (np.sqrt, math.sqrt),
                 (np.log, math.log), (np.exp, math.exp)]
        for f, g in pairs:
            if not base.num_close(f(x), g(x), 1e-13):
                return bad("ufunc computes the named function", (f, x))
        if not base.num_close(np.arccosh(1 + x), math.acosh(1 + x), 1e-13) or np.pi != math.pi:
            return bad("arccosh / pi", "violated")
        try:
            np.sin(sym.Symbol("a"))
            return bad("ufunc on a Symbol raises TypeError (known finding F-04c)", "no exception")
        except TypeError:
            pass
    elif ax == "int-float-complex-literals":
        for t, v in (("007", 7), ("12", 12)):
            if int(t) != v:
                return bad("int(text)", t)
        for t, v in (("1.5E-2", 0.015), ("2e+3", 2000.0), ("01.50", 1.5)):
            if float(t) != v:
                return bad("float(text)", t)
        for t, v in (("2j", 2j), ("1+2j", 1 + 2j), ("-3-1J", -3 - 1j), ("1.5e1-2J", 15 - 2j)):
            if complex(t) != v:
                return bad("complex(text)", t)
    elif ax == "str-replace-quotes":
        if str('"abc def"'.replace('"', "")) != "abc def":
            return bad("quote stripping", "violated")
    elif ax == "range-star":
        if list(range(*[1, 7, 2])) != [1, 3, 5] or list(range(*[2, 2])) != [] or list(range(*[0, 3])) != [0, 1, 2]:
            return bad("range(a, b[, c]) = a, a+c, ... below b; empty allowed", "violated")
    return None


base.register(base.Family("axiom_sampling", ["C01", "C02", "C03", "C04", "C05", "C06", "C07", "C08", "C09", "C11", "C12", "C13", "C15", "C16", "C17", "C19"],
                          cases, check, weight=0.15,
                          bound="%d assumed library contracts x random arguments" % len(AXIOMS),
                          rule="the assumed contracts of pyvc/lib.py evaluated against the real NumPy/SymPy/CPython (a mismatch is an engine error: assumed contract refuted)"))
