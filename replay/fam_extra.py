"""Extra witness classes added after seeded changes slipped through the sampled families (DESIGN section 10: which check catches
which change). They reuse the oracles of the existing families; only the inputs are new and deliberately narrow:

 * template_subst_x  (C04, C15): a declared variable carrying the same name as a template parameter it was initialised from
                     (`float alpha = {alpha}`), read back by name; arrays whose entries are ALL bare parameters.
 * decl_types_x      (C05, C03): an array that is declared, indexed, declared again with other contents/shape and indexed again.
 * expr_value_x      (C03): integer ** 0 (stays an integer), chained powers with integer variables.
"""
from . import base
from . import fam_load as FL
from . import fam_sem as FS


def _x_tmpl_cases(rng, n, tier):
    names = ["alpha", "a", "ab", "p1", "Theta", "x_1", "A", "W"]
    for i in range(n):
        r = i % 4
        nm = names[rng.randrange(len(names))]
        other = [x for x in names if x != nm][rng.randrange(len(names) - 1)]
        va, vb = round(rng.uniform(0.2, 3.0), 3), round(rng.uniform(0.2, 3.0), 3)
        if r == 0:
            # scalar named like its own parameter, read by name afterwards
            script = "name t\nversion 1.0\n\nfloat %s = {%s}\nDgate(%s, 2*%s) | 0\nG(phi=%s) | 1\n" % (nm, nm, nm, nm, nm)
            vals = {nm: va}
            cls = "variable-named-like-parameter/scalar"
        elif r == 1:
            script = ("name t\nversion 1.0\n\nfloat array %s =\n    {%s}, 1.5\n    -2, {%s}\n\nGaussian(%s, cov=%s) | [0, 1]\nK(%s[0]) | 0\n"
                      % (nm, nm, other, nm, nm, nm))
            vals = {nm: va, other: vb}
            cls = "variable-named-like-parameter/array"
        elif r == 2:
            # every entry a bare parameter: must NOT be mistaken for a whole-array parameter
            script = "name t\nversion 1.0\n\nfloat array M[1, 2] =\n    {%s}, {%s}\n\nG(M[0], M[1]) | 0\n" % (nm, other)
            vals = {nm: va, other: vb}
            cls = "array-of-bare-parameters-only"
        else:
            script = ("name t\nversion 1.0\n\nfor int i in 1:3\n    float %s = {%s}\n    Dgate(%s*i) | i\nS(%s) | 0\n" % (nm, nm, nm, nm)) \
                if False else "name t\nversion 1.0\n\nfloat %s = {%s}*2\nfor int i in 1:3\n    Dgate(%s*i) | i\n" % (nm, nm, nm)
            vals = {nm: va}
            cls = "variable-named-like-parameter/loop"
        yield {"class": cls, "input": {"script": script, "values": [vals]}}


base.register(base.Family("template_subst_x", ["C04", "C15"], _x_tmpl_cases, FS._tmpl_check, weight=0.25,
                          bound="handcrafted shapes x random names/values", rule="see module docstring; oracle of template_subst"))


def _arr(rng, r, c, lo=1):
    return [[rng.randint(lo, lo + 60) for _ in range(c)] for _ in range(r)]


def _x_decl_cases(rng, n, tier):
    for i in range(n):
        r1, c1, r2, c2 = rng.randint(1, 3), rng.randint(1, 3), rng.randint(1, 3), rng.randint(1, 3)
        a1, a2 = _arr(rng, r1, c1), _arr(rng, r2, c2, lo=100)
        k1, k2 = rng.randrange(r1 * c1), rng.randrange(r2 * c2)
        def decl(a):
            return "int array A =\n" + "".join("    " + ", ".join(str(x) for x in row) + "\n" for row in a)
        script = "name t\nversion 1.0\n\n%s\nG(A[%d]) | 0\n%s\nG(A[%d]) | 1\n" % (decl(a1), k1, decl(a2), k2)
        flat1 = [x for row in a1 for x in row]
        flat2 = [x for row in a2 for x in row]
        exp = {"name": "t", "version": "1.0", "target": {"name": None, "options": []}, "type": {"name": None, "options": []},
               "operations": [{"op": "G", "modes": [0], "args": [flat1[k1]], "kwargs": []}, {"op": "G", "modes": [1], "args": [flat2[k2]], "kwargs": []}],
               "variables": [["A", {"arr": {"dtype": "int", "rows": a2}}]]}
        yield {"class": "array-redeclared-then-indexed", "input": {"script": script, "expected": exp}}


base.register(base.Family("decl_types_x", ["C05", "C03"], _x_decl_cases, FL.check_script, weight=0.2,
                          bound="arrays up to 3x3, one redeclaration", rule="declare, index, redeclare, index: A[k] is the k-th element of the CURRENT array"))


def _x_expr_cases(rng, n, tier):
    for i in range(n):
        b = rng.randint(1, 9)
        forms = [("%d**0" % b, 1), ("(%d+1)**(3-3)" % b, 1), ("7 - %d**0*2" % b, 5), ("n**z", 1), ("2**n**0", 2), ("n**2**1", 9)]
        text, val = forms[i % len(forms)]
        script = "name t\nversion 1.0\n\nint n = 3\nint z = 0\nG(%s) | 0\n" % text
        exp = {"name": "t", "version": "1.0", "target": {"name": None, "options": []}, "type": {"name": None, "options": []},
               "operations": [{"op": "G", "modes": [0], "args": [val], "kwargs": []}], "variables": [["n", 3], ["z", 0]]}
        yield {"class": "pow/int-zero-exponent-stays-int", "input": {"script": script, "expected": exp, "expression": text}}


base.register(base.Family("expr_value_x", ["C03"], _x_expr_cases, FL.check_script, weight=0.1,
                          bound="6 shapes", rule="integer ** 0 and chains over integer variables: value and integer kind"))


def _x_tdm_cases(rng, n, tier):
    """C15: only names of the exact form p<digits> are p-arrays; look-alikes (p1_mask, p2x, p_1, pp1) are ordinary variables passed by value"""
    for i in range(n):
        nm = ["p1_mask", "p2x", "p_1", "pp1", "p12a", "p0_"][i % 6]
        a, b = rng.randint(1, 9), rng.randint(1, 9)
        script = ("name t\nversion 1.0\ntype tdm (temporal_modes=2)\n\nint array p0 =\n    %d, %d\nint array %s =\n    %d, %d\n\n"
                  "Mask(%s) | 0\nRgate(p0) | 1\nK(m=%s) | 2\n" % (a, b, nm, b, a, nm, nm))
        yield {"class": "p-lookalike-name-passed-by-value", "input": {"script": script, "lookalike": nm, "rows": [[b, a]], "p0": [[a, b]]}}


def _x_tdm_check(case):
    import numpy as np
    import blackbird
    i = case["input"]
    p = blackbird.loads(i["script"])
    ops = p.operations
    a0 = ops[0]["args"][0]
    if not (isinstance(a0, np.ndarray) and a0.tolist() == i["rows"]):
        return {"expected": "argument of Mask is the array %r (an ordinary variable is passed by value)" % i["rows"], "actual": repr(a0)}
    if ops[1]["args"][0] != "p0":
        return {"expected": "argument of Rgate is the name 'p0'", "actual": repr(ops[1]["args"][0])}
    k = ops[2]["kwargs"]["m"]
    if not (isinstance(k, np.ndarray) and k.tolist() == i["rows"]):
        return {"expected": "keyword m is the array %r" % i["rows"], "actual": repr(k)}
    if p.parameters:
        return {"expected": "no free parameters", "actual": repr(p.parameters)}
    q = blackbird.loads(blackbird.dumps(p))
    d = base.program_diff(p, q, exact=True)
    if d:
        return {"expected": "round trip preserves the program", "actual": d}
    if "p0" not in q.variables or q.variables["p0"].tolist() != i["p0"]:
        return {"expected": "p0 preserved", "actual": repr(q.variables.get("p0"))}
    return None


base.register(base.Family("tdm_x", ["C15"], _x_tdm_cases, _x_tdm_check, weight=0.15, bound="6 look-alike names",
                          rule="tdm program with one real p-array and one array whose name merely starts with p<digits>"))


def _x_rt_cases(rng, n, tier):
    """C01: symbolic values whose SymPy form prints differently from Blackbird syntax (negated powers, imaginary unit, reciprocal powers),
    for template parameters and measured registers, positional / keyword / list; strings that look like p-array names"""
    from . import fam_prog as FP  # noqa
    names = ["a", "ab", "e", "p", "x1", "Theta", "E1"]
    for i in range(n):
        a, b = rng.sample(names, 2)
        k, c = rng.randint(2, 4), rng.randint(2, 9)
        shapes = [
            ("neg-power", "G(0-{%s}**%d) | 0" % (a, k)),
            ("neg-power-product", "G(%d-2*{%s}**%d*{%s}, x=0-{%s}**2) | 0" % (c, a, k, b, b)),
            ("neg-power-list", "G(y=[1, 0-{%s}**%d, {%s}]) | 0" % (a, k, b)),
            ("imaginary-coefficient", "G(%dj*{%s}, x=(1+2j)*{%s}) | 0" % (c, a, b)),
            ("reciprocal-power", "G(%d/{%s}**%d, {%s}**0.5*{%s}) | 0" % (c, a, k, a, b)),
            ("float-exponent-notation", "G(1e-07*{%s}, 2.5e+22*{%s}) | 0" % (a, b)),
            ("pi-and-p", "G(pi*{p}/4, {p}*pi**2) | 0"),
            ("regref-neg-power", "MeasureX | 0\nMeasureX | 1\nG(0-q0**%d, x=1-q1**2*q0, y=[0-q1**3]) | 2" % k),
        ]
        cls, body = shapes[i % len(shapes)]
        yield {"class": "sympy-print/" + cls, "input": {"script": "name t\nversion 1.0\n\n%s\n" % body}}
    for i in range(max(2, n // 8)):
        nm = ["p7", "p0", "p12"][i % 3]
        yield {"class": "tdm-string-looks-like-p-name", "input": {"script": "name t\nversion 1.0\ntype tdm (temporal_modes=2)\n\nint array p1 =\n    1, 2\n\n"
                                                                      "G(\"%s\", p1, tag=\"%s\") | 0\n" % (nm, nm)}}


def _x_rt_check(case):
    from . import fam_prog as FP
    return FP.rt_check(case)


base.register(base.Family("roundtrip_x", ["C01", "C09", "C15"], _x_rt_cases, _x_rt_check, weight=0.25, bound="9 shapes x random names",
                          rule="see docstring; oracle of roundtrip (3 generations, equal up to float printing)"))
