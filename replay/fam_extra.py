"""Extra witness classes added after seeded changes slipped through the sampled families (DESIGN section 10: which check catches
which change). They reuse the oracles of the existing families; only the inputs are new and deliberately narrow:

 * template_subst_x  (C04, C15): a declared variable carrying the same name as a template parameter it was initialised from
                     (`float alpha = {alpha}`), read back by name; arrays whose entries are ALL bare parameters.
 * decl_types_x      (C05, C03): an array that is declared, indexed, declared again with other contents/shape and indexed again.
 * expr_value_x      (C03): integer ** 0 (stays an integer), chained powers with integer variables.
"""
from . import base
from . import fam_load as FL
from . import fam_sem as FS


def _x_tmpl_cases(rng, n, tier):
    names = ["alpha", "a", "ab", "p1", "Theta", "x_1", "A", "W"]
    for i in range(n):
        r = i % 4
        nm = names[rng.randrange(len(names))]
        other = [x for x in names if x != nm][rng.randrange(len(names) - 1)]
        va, vb = round(rng.uniform(0.2, 3.0), 3), round(rng.uniform(0.2, 3.0), 3)
        if r == 0:
            # scalar named like its own parameter, read by name afterwards
            script = "name t\nversion 1.0\n\nfloat %s = {%s}\nDgate(%s, 2*%s) | 0\nG(phi=%s) | 1\n" % (nm, nm, nm, nm, nm)
            vals = {nm: va}
            cls = "variable-named-like-parameter/scalar"
        elif r == 1:
            script = ("name t\nversion 1.0\n\nfloat array %s =\n    {%s}, 1.5\n    -2, {%s}\n\nGaussian(%s, cov=%s) | [0, 1]\nK(%s[0]) | 0\n"
                      % (nm, nm, other, nm, nm, nm))
            vals = {nm: va, other: vb}
            cls = "variable-named-like-parameter/array"
        elif r == 2:
            # every entry a bare parameter: must NOT be mistaken for a whole-array parameter
            script = "name t\nversion 1.0\n\nfloat array M[1, 2] =\n    {%s}, {%s}\n\nG(M[0], M[1]) | 0\n" % (nm, other)
            vals = {nm: va, other: vb}
            cls = "array-of-bare-parameters-only"
        else:
            script = ("name t\nversion 1.0\n\nfor int i in 1:3\n    float %s = {%s}\n    Dgate(%s*i) | i\nS(%s) | 0\n" % (nm, nm, nm, nm)) \
                if False else "name t\nversion 1.0\n\nfloat %s = {%s}*2\nfor int i in 1:3\n    Dgate(%s*i) | i\n" % (nm, nm, nm)
            vals = {nm: va}
            cls = "variable-named-like-parameter/loop"
        yield {"class": cls, "input": {"script": script, "values": [vals]}}


base.register(base.Family("template_subst_x", ["C04", "C15"], _x_tmpl_cases, FS._tmpl_check, weight=0.25,
                          bound="handcrafted shapes x random names/values", rule="see module docstring; oracle of template_subst"))


def _arr(rng, r, c, lo=1):
    return [[rng.randint(lo, lo + 60) for _ in range(c)] for _ in range(r)]


def _x_decl_cases(rng, n, tier):
    for i in range(n):
        r1, c1, r2, c2 = rng.randint(1, 3), rng.randint(1, 3), rng.randint(1, 3), rng.randint(1, 3)
        a1, a2 = _arr(rng, r1, c1), _arr(rng, r2, c2, lo=100)
        k1, k2 = rng.randrange(r1 * c1), rng.randrange(r2 * c2)
        def decl(a):
            return "int array A =\n" + "".join("    " + ", ".join(str(x) for x in row) + "\n" for row in a)
        script = "name t\nversion 1.0\n\n%s\nG(A[%d]) | 0\n%s\nG(A[%d]) | 1\n" % (decl(a1), k1, decl(a2), k2)
        flat1 = [x for row in a1 for x in row]
        flat2 = [x for row in a2 for x in row]
        exp = {"name": "t", "version": "1.0", "target": {"name": None, "options": []}, "type": {"name": None, "options": []},
               "operations": [{"op": "G", "modes": [0], "args": [flat1[k1]], "kwargs": []}, {"op": "G", "modes": [1], "args": [flat2[k2]], "kwargs": []}],
               "variables": [["A", {"arr": {"dtype": "int", "rows": a2}}]]}
        yield {"class": "array-redeclared-then-indexed", "input": {"script": script, "expected": exp}}


base.register(base.Family("decl_types_x", ["C05", "C03"], _x_decl_cases, FL.check_script, weight=0.2,
                          bound="arrays up to 3x3, one redeclaration", rule="declare, index, redeclare, index: A[k] is the k-th element of the CURRENT array"))


def _x_expr_cases(rng, n, tier):
    for i in range(n):
        b = rng.randint(1, 9)
        forms = [("%d**0" % b, 1), ("(%d+1)**(3-3)" % b, 1), ("7 - %d**0*2" % b, 5), ("n**z", 1), ("2**n**0", 2), ("n**2**1", 9)]
        text, val = forms[i % len(forms)]
        script = "name t\nversion 1.0\n\nint n = 3\nint z = 0\nG(%s) | 0\n" % text
        exp = {"name": "t", "version": "1.0", "target": {"name": None, "options": []}, "type": {"name": None, "options": []},
               "operations": [{"op": "G", "modes": [0], "args": [val], "kwargs": []}], "variables": [["n", 3], ["z", 0]]}
        yield {"class": "pow/int-zero-exponent-stays-int", "input": {"script": script, "expected": exp, "expression": text}}


base.register(base.Family("expr_value_x", ["C03"], _x_expr_cases, FL.check_script, weight=0.1,
                          bound="6 shapes", rule="integer ** 0 and chains over integer variables: value and integer kind"))


def _x_tdm_cases(rng, n, tier):
    """C15: only names of the exact form p<digits> are p-arrays; look-alikes (p1_mask, p2x, p_1, pp1) are ordinary variables passed by value"""
    for i in range(n):
        nm = ["p1_mask", "p2x", "p_1", "pp1", "p12a", "p0_"][i % 6]
        a, b = rng.randint(1, 9), rng.randint(1, 9)
        script = ("name t\nversion 1.0\ntype tdm (temporal_modes=2)\n\nint array p0 =\n    %d, %d\nint array %s =\n    %d, %d\n\n"
                  "Mask(%s) | 0\nRgate(p0) | 1\nK(m=%s) | 2\n" % (a, b, nm, b, a, nm, nm))
        yield {"class": "p-lookalike-name-passed-by-value", "input": {"script": script, "lookalike": nm, "rows": [[b, a]], "p0": [[a, b]]}}


def _x_tdm_check(case):
    import numpy as np
    import blackbird
    i = case["input"]
    p = blackbird.loads(i["script"])
    ops = p.operations
    a0 = ops[0]["args"][0]
    if not (isinstance(a0, np.ndarray) and a0.tolist() == i["rows"]):
        return {"expected": "argument of Mask is the array %r (an ordinary variable is passed by value)" % i["rows"], "actual": repr(a0)}
    if ops[1]["args"][0] != "p0":
        return {"expected": "argument of Rgate is the name 'p0'", "actual": repr(ops[1]["args"][0])}
    k = ops[2]["kwargs"]["m"]
    if not (isinstance(k, np.ndarray) and k.tolist() == i["rows"]):
        return {"expected": "keyword m is the array %r" % i["rows"], "actual": repr(k)}
    if p.parameters:
        return {"expected": "no free parameters", "actual": repr(p.parameters)}
    q = blackbird.loads(blackbird.dumps(p))
    d = base.program_diff(p, q, exact=True)
    if d:
        return {"expected": "round trip preserves the program", "actual": d}
    if "p0" not in q.variables or q.variables["p0"].tolist() != i["p0"]:
        return {"expected": "p0 preserved", "actual": repr(q.variables.get("p0"))}
    return None


base.register(base.Family("tdm_x", ["C15"], _x_tdm_cases, _x_tdm_check, weight=0.15, bound="6 look-alike names",
                          rule="tdm program with one real p-array and one array whose name merely starts with p<digits>"))


def _x_rt_cases(rng, n, tier):
    """C01: symbolic values whose SymPy form prints differently from Blackbird syntax (negated powers, imaginary unit, reciprocal powers),
    for template parameters and measured registers, positional / keyword / list; strings that look like p-array names"""
    from . import fam_prog as FP  # noqa
    names = ["a", "ab", "e", "p", "x1", "Theta", "E1"]
    for i in range(n):
        a, b = rng.sample(names, 2)
        k, c = rng.randint(2, 4), rng.randint(2, 9)
        shapes = [
            ("neg-power", "G(0-{%s}**%d) | 0" % (a, k)),
            ("neg-power-product", "G(%d-2*{%s}**%d*{%s}, x=0-{%s}**2) | 0" % (c, a, k, b, b)),
            ("neg-power-list", "G(y=[1, 0-{%s}**%d, {%s}]) | 0" % (a, k, b)),
            ("imaginary-coefficient", "G(%dj*{%s}, x=(1+2j)*{%s}) | 0" % (c, a, b)),
            ("reciprocal-power", "G(%d/{%s}**%d, {%s}**0.5*{%s}) | 0" % (c, a, k, a, b)),
            ("float-exponent-notation", "G(1e-07*{%s}, 2.5e+22*{%s}) | 0" % (a, b)),
            ("pi-and-p", "G(pi*{p}/4, {p}*pi**2) | 0"),
            ("regref-neg-power", "MeasureX | 0\nMeasureX | 1\nG(0-q0**%d, x=1-q1**2*q0, y=[0-q1**3]) | 2" % k),
        ]
        cls, body = shapes[i % len(shapes)]
        yield {"class": "sympy-print/" + cls, "input": {"script": "name t\nversion 1.0\n\n%s\n" % body}}
    for i in range(max(2, n // 8)):
        nm = ["p7", "p0", "p12"][i % 3]
        yield {"class": "tdm-string-looks-like-p-name", "input": {"script": "name t\nversion 1.0\ntype tdm (temporal_modes=2)\n\nint array p1 =\n    1, 2\n\n"
                                                                      "G(\"%s\", p1, tag=\"%s\") | 0\n" % (nm, nm)}}


def _x_rt_check(case):
    from . import fam_prog as FP
    return FP.rt_check(case)


base.register(base.Family("roundtrip_x", ["C01", "C09", "C15"], _x_rt_cases, _x_rt_check, weight=0.25, bound="9 shapes x random names",
                          rule="see docstring; oracle of roundtrip (3 generations, equal up to float printing)"))


def _x_dg_cases(rng, n, tier):
    """C16: a measured register that FOLLOWS an ordinary positional argument, sits between others, or occurs only in a keyword
    of an operation with other operations on its own mode; an operation reading the register of its own mode"""
    for i in range(n):
        a, b = rng.sample(range(0, 4), 2)
        c = rng.choice([m for m in range(0, 5) if m not in (a, b)])
        shapes = [
            ("reg-after-plain-arg", ["MeasureX | %d" % a, "Dgate(0.3, q%d) | %d" % (a, b), "Sgate(0.1) | %d" % a],
             [("MeasureX", [a], []), ("Dgate", [b], [a]), ("Sgate", [a], [])]),
            ("reg-between-plain-args", ["MeasureX | %d" % a, "MeasureX | %d" % b, "S2gate(0.5, 2*q%d, 0.1, q%d+1) | %d" % (a, b, c), "Rgate(0.2) | %d" % b],
             [("MeasureX", [a], []), ("MeasureX", [b], []), ("S2gate", [c], [a, b]), ("Rgate", [b], [])]),
            ("kw-reg-with-own-mode-neighbours", ["Sgate(0.4) | %d" % b, "MeasureX | %d" % a, "MeasureHomodyne(phi=0.5, select=2*q%d) | %d" % (a, b), "Rgate(0.3) | %d" % b],
             [("Sgate", [b], []), ("MeasureX", [a], []), ("MeasureHomodyne", [b], [a]), ("Rgate", [b], [])]),
            ("reads-own-mode-register", ["MeasureX | %d" % a, "Dgate(q%d) | %d" % (a, a), "Vac | %d" % a],
             [("MeasureX", [a], []), ("Dgate", [a], [a]), ("Vac", [a], [])]),
            ("same-register-twice", ["MeasureX | %d" % a, "MeasureHomodyne(q%d, select=2*q%d) | %d" % (a, a, b), "Vac | %d" % b],
             [("MeasureX", [a], []), ("MeasureHomodyne", [b], [a]), ("Vac", [b], [])]),
        ]
        cls, lines, desc = shapes[i % len(shapes)]
        yield {"class": "regs/" + cls, "input": {"script": "name t\nversion 1.0\n\n" + "\n".join(lines) + "\n",
                                                  "ops": [{"op": o, "modes": m, "regs": r} for o, m, r in desc]}}


def _x_dg_check(case):
    from . import fam_prog as FP
    return FP.dg_check(case)


base.register(base.Family("digraph_x", ["C16", "C17"], _x_dg_cases, _x_dg_check, weight=0.15, bound="5 shapes x random modes",
                          rule="register dependencies in unusual argument positions; oracle of digraph (nodes, forward edges, reachability = chains sharing a wire)"))


def _x_inc_cases(rng, n, tier):
    """C11/C12/C07: names declared only inside an included file are NOT defined in the including script; an ungrammatical included file is a
    syntax error of the load"""
    for i in range(n):
        nm = ["alpha", "k", "W", "x1"][i % 4]
        slot = ["G(%s) | 0", "G(phi=%s) | 0", "G(y=[1, %s]) | 0", "float z = 2*%s\nG(z) | 0", "G | %s"][i % 5] % nm
        lib = "name Lib\nversion 1.0\n\nint %s = 1\nSgate(%s) | 0\n" % (nm, nm)
        main = "name main\nversion 1.0\ninclude \"lib.xbb\"\n\nLib | 2\n%s\n" % slot
        yield {"class": "include/name-declared-only-in-included-file", "input": {"files": {"lib.xbb": lib, "main.xbb": main}, "expect": "undefined", "name": nm}}
    for i in range(max(2, n // 6)):
        broken = ["name Lib\nversion 1.0\n\nSgate(0.1 | 0\n", "name Lib\nversion 1.0\n\nfloat array A =\n    1, 2 $\nSgate(1) | 0\n", "name Lib\n\nSgate(1) | 0\n"][i % 3]
        main = "name main\nversion 1.0\ninclude \"sub/lib.xbb\"\n\nLib | 2\n"
        yield {"class": "include/ungrammatical-included-file", "input": {"files": {"sub/lib.xbb": broken, "main.xbb": main}, "expect": "syntax"}}


def _x_inc_check(case):
    import os
    import shutil
    import tempfile
    import blackbird
    from blackbird.error import BlackbirdSyntaxError
    i = case["input"]
    d = tempfile.mkdtemp(prefix="verif_inc_")
    try:
        for rel, text in i["files"].items():
            path = os.path.join(d, rel)
            os.makedirs(os.path.dirname(path), exist_ok=True)
            with open(path, "w") as f:
                f.write(text)
        try:
            p = blackbird.load(os.path.join(d, "main.xbb"))
        except BlackbirdSyntaxError as e:
            if i["expect"] == "undefined" and ("'%s'" % i["name"]) not in str(e):
                return {"expected": "BlackbirdSyntaxError naming %r" % i["name"], "actual": base.describe_exc(e)}
            return None
        except Exception as e:
            return {"expected": "BlackbirdSyntaxError", "actual": base.describe_exc(e)}
        return {"expected": "load raises BlackbirdSyntaxError (%s)" % i["expect"], "actual": "a program was returned: %r" % (p.operations,)}
    finally:
        shutil.rmtree(d, ignore_errors=True)


base.register(base.Family("include_x", ["C11", "C12", "C07", "C10"], _x_inc_cases, _x_inc_check, weight=0.1, bound="4 names x 5 slots; 3 broken libraries",
                          rule="temp directory with main.xbb + included file; the load must be refused"))


def _x_load_cases(rng, n, tier):
    """C02/C15: in a program that is NOT of type tdm an array named p<digits> is an ordinary variable passed by value"""
    for i in range(n):
        nm = ["p1", "p22", "p0"][i % 3]
        a, b = rng.randint(1, 9), rng.randint(1, 9)
        ty = ["", "type simulation\n", "type TDM2 (copies=1)\n"][i % 3]
        script = "name t\nversion 1.0\n%s\nint array %s =\n    %d, %d\n\nGaussian(2, %s) | 0\nK(w=%s) | 1\n" % (ty, nm, a, b, nm, nm)
        arr = {"arr": {"dtype": "int", "rows": [[a, b]]}}
        exp = {"name": "t", "version": "1.0", "target": {"name": None, "options": []},
               "type": {"name": (None if not ty else ty.split()[1]), "options": ([] if "copies" not in ty else [["copies", 1]])},
               "operations": [{"op": "Gaussian", "modes": [0], "args": [2, arr], "kwargs": []}, {"op": "K", "modes": [1], "args": [], "kwargs": [["w", arr]]}],
               "variables": [[nm, arr]]}
        yield {"class": "non-tdm-array-named-like-p-array", "input": {"script": script, "expected": exp}}


base.register(base.Family("load_denote_x", ["C02", "C15"], _x_load_cases, FL.check_script, weight=0.1, bound="3 names x 3 program types",
                          rule="array named p<digits> in a non-tdm program is passed by value"))
