"""Extra witness classes added after seeded changes slipped through the sampled families (DESIGN section 10: which check catches
which change). They reuse the oracles of the existing families; only the inputs are new and deliberately narrow:

 * template_subst_x  (C04, C15): a declared variable carrying the same name as a template parameter it was initialised from
                     (`float alpha = {alpha}`), read back by name; arrays whose entries are ALL bare parameters.
 * decl_types_x      (C05, C03): an array that is declared, indexed, declared again with other contents/shape and indexed again.
 * expr_value_x      (C03): integer ** 0 (stays an integer), chained powers with integer variables.
"""
from . import base
from . import fam_load as FL
from . import fam_sem as FS


def _x_tmpl_cases(rng, n, tier):
    names = ["alpha", "a", "ab", "p1", "Theta", "x_1", "A", "W"]
    for i in range(n):
        r = i % 4
        nm = names[rng.randrange(len(names))]
        other = [x for x in names if x != nm][rng.randrange(len(names) - 1)]
        va, vb = round(rng.uniform(0.2, 3.0), 3), round(rng.uniform(0.2, 3.0), 3)
        if r == 0:
            # scalar named like its own parameter, read by name afterwards
            script = "name t\nversion 1.0\n\nfloat %s = {%s}\nDgate(%s, 2*%s) | 0\nG(phi=%s) | 1\n" % (nm, nm, nm, nm, nm)
            vals = {nm: va}
            cls = "variable-named-like-parameter/scalar"
        elif r == 1:
            script = ("name t\nversion 1.0\n\nfloat array %s =\n    {%s}, 1.5\n    -2, {%s}\n\nGaussian(%s, cov=%s) | [0, 1]\nK(%s[0]) | 0\n"
                      % (nm, nm, other, nm, nm, nm))
            vals = {nm: va, other: vb}
            cls = "variable-named-like-parameter/array"
        elif r == 2:
            # every entry a bare parameter: must NOT be mistaken for a whole-array parameter
            script = "name t\nversion 1.0\n\nfloat array M[1, 2] =\n    {%s}, {%s}\n\nG(M[0], M[1]) | 0\n" % (nm, other)
            vals = {nm: va, other: vb}
            cls = "array-of-bare-parameters-only"
        else:
            script = ("name t\nversion 1.0\n\nfor int i in 1:3\n    float %s = {%s}\n    Dgate(%s*i) | i\nS(%s) | 0\n" % (nm, nm, nm, nm)) \
                if False else "name t\nversion 1.0\n\nfloat %s = {%s}*2\nfor int i in 1:3\n    Dgate(%s*i) | i\n" % (nm, nm, nm)
            vals = {nm: va}
            cls = "variable-named-like-parameter/loop"
        yield {"class": cls, "input": {"script": script, "values": [vals]}}


base.register(base.Family("template_subst_x", ["C04", "C15"], _x_tmpl_cases, FS._tmpl_check, weight=0.25,
                          bound="handcrafted shapes x random names/values", rule="see module docstring; oracle of template_subst"))


def _arr(rng, r, c, lo=1):
    return [[rng.randint(lo, lo + 60) for _ in range(c)] for _ in range(r)]


def _x_decl_cases(rng, n, tier):
    for i in range(n):
        r1, c1, r2, c2 = rng.randint(1, 3), rng.randint(1, 3), rng.randint(1, 3), rng.randint(1, 3)
        a1, a2 = _arr(rng, r1, c1), _arr(rng, r2, c2, lo=100)
        k1, k2 = rng.randrange(r1 * c1), rng.randrange(r2 * c2)
        def decl(a):
            return "int array A =\n" + "".join("    " + ", ".join(str(x) for x in row) + "\n" for row in a)
        script = "name t\nversion 1.0\n\n%s\nG(A[%d]) | 0\n%s\nG(A[%d]) | 1\n" % (decl(a1), k1, decl(a2), k2)
        flat1 = [x for row in a1 for x in row]
        flat2 = [x for row in a2 for x in row]
        exp = {"name": "t", "version": "1.0", "target": {"name": None, "options": []}, "type": {"name": None, "options": []},
               "operations": [{"op": "G", "modes": [0], "args": [flat1[k1]], "kwargs": []}, {"op": "G", "modes": [1], "args": [flat2[k2]], "kwargs": []}],
               "variables": [["A", {"arr": {"dtype": "int", "rows": a2}}]]}
        yield {"class": "array-redeclared-then-indexed", "input": {"script": script, "expected": exp}}


base.register(base.Family("decl_types_x", ["C05", "C03"], _x_decl_cases, FL.check_script, weight=0.2,
                          bound="arrays up to 3x3, one redeclaration", rule="declare, index, redeclare, index: A[k] is the k-th element of the CURRENT array"))


def _x_expr_cases(rng, n, tier):
    for i in range(n):
        b = rng.randint(1, 9)
        forms = [("%d**0" % b, 1), ("(%d+1)**(3-3)" % b, 1), ("7 - %d**0*2" % b, 5), ("n**z", 1), ("2**n**0", 2), ("n**2**1", 9)]
        text, val = forms[i % len(forms)]
        script = "name t\nversion 1.0\n\nint n = 3\nint z = 0\nG(%s) | 0\n" % text
        exp = {"name": "t", "version": "1.0", "target": {"name": None, "options": []}, "type": {"name": None, "options": []},
               "operations": [{"op": "G", "modes": [0], "args": [val], "kwargs": []}], "variables": [["n", 3], ["z", 0]]}
        yield {"class": "pow/int-zero-exponent-stays-int", "input": {"script": script, "expected": exp, "expression": text}}
    for i in range(max(2, n // 6)):
        # wave 6 (C03f_2): the initialiser of a redeclaration is evaluated with the variable's CURRENT value
        a, m = rng.randint(2, 9), rng.randint(2, 5)
        ty, first, text, val = [("int", str(a), "x*%d+1" % m, a * m + 1), ("float", "%d.5" % a, "x*2-x", a + 0.5), ("int", str(a), "x**2-x", a * a - a)][i % 3]
        script = "name t\nversion 1.0\n\n%s x = %s\n%s x = %s\nG(x) | 0\n" % (ty, first, ty, text)
        exp = {"name": "t", "version": "1.0", "target": {"name": None, "options": []}, "type": {"name": None, "options": []},
               "operations": [{"op": "G", "modes": [0], "args": [val], "kwargs": []}], "variables": [["x", val]]}
        yield {"class": "redeclaration-in-terms-of-itself", "input": {"script": script, "expected": exp, "expression": text}}


base.register(base.Family("expr_value_x", ["C03"], _x_expr_cases, FL.check_script, weight=0.1,
                          bound="6 shapes", rule="integer ** 0 and chains over integer variables: value and integer kind"))


def _x_tdm_cases(rng, n, tier):
    """C15: only names of the exact form p<digits> are p-arrays; look-alikes (p1_mask, p2x, p_1, pp1) are ordinary variables passed by value"""
    for i in range(n):
        nm = ["p1_mask", "p2x", "p_1", "pp1", "p12a", "p0_"][i % 6]
        a, b = rng.randint(1, 9), rng.randint(1, 9)
        script = ("name t\nversion 1.0\ntype tdm (temporal_modes=2)\n\nint array p0 =\n    %d, %d\nint array %s =\n    %d, %d\n\n"
                  "Mask(%s) | 0\nRgate(p0) | 1\nK(m=%s) | 2\n" % (a, b, nm, b, a, nm, nm))
        yield {"class": "p-lookalike-name-passed-by-value", "input": {"script": script, "lookalike": nm, "rows": [[b, a]], "p0": [[a, b]]}}


def _x_tdm_check(case):
    import numpy as np
    import blackbird
    i = case["input"]
    p = blackbird.loads(i["script"])
    ops = p.operations
    a0 = ops[0]["args"][0]
    if not (isinstance(a0, np.ndarray) and a0.tolist() == i["rows"]):
        return {"expected": "argument of Mask is the array %r (an ordinary variable is passed by value)" % i["rows"], "actual": repr(a0)}
    if ops[1]["args"][0] != "p0":
        return {"expected": "argument of Rgate is the name 'p0'", "actual": repr(ops[1]["args"][0])}
    k = ops[2]["kwargs"]["m"]
    if not (isinstance(k, np.ndarray) and k.tolist() == i["rows"]):
        return {"expected": "keyword m is the array %r" % i["rows"], "actual": repr(k)}
    if p.parameters:
        return {"expected": "no free parameters", "actual": repr(p.parameters)}
    q = blackbird.loads(blackbird.dumps(p))
    d = base.program_diff(p, q, exact=True)
    if d:
        return {"expected": "round trip preserves the program", "actual": d}
    if "p0" not in q.variables or q.variables["p0"].tolist() != i["p0"]:
        return {"expected": "p0 preserved", "actual": repr(q.variables.get("p0"))}
    return None


base.register(base.Family("tdm_x", ["C15"], _x_tdm_cases, _x_tdm_check, weight=0.15, bound="6 look-alike names",
                          rule="tdm program with one real p-array and one array whose name merely starts with p<digits>"))


def _x_rt_cases(rng, n, tier):
    """C01: symbolic values whose SymPy form prints differently from Blackbird syntax (negated powers, imaginary unit, reciprocal powers),
    for template parameters and measured registers, positional / keyword / list; strings that look like p-array names"""
    from . import fam_prog as FP  # noqa
    names = ["a", "ab", "e", "p", "x1", "Theta", "E1"]
    for i in range(n):
        a, b = rng.sample(names, 2)
        k, c = rng.randint(2, 4), rng.randint(2, 9)
        shapes = [
            ("neg-power", "G(0-{%s}**%d) | 0" % (a, k)),
            ("neg-power-product", "G(%d-2*{%s}**%d*{%s}, x=0-{%s}**2) | 0" % (c, a, k, b, b)),
            ("neg-power-list", "G(y=[1, 0-{%s}**%d, {%s}]) | 0" % (a, k, b)),
            ("imaginary-coefficient", "G(%dj*{%s}, x=(1+2j)*{%s}) | 0" % (c, a, b)),
            ("reciprocal-power", "G(%d/{%s}**%d, {%s}**0.5*{%s}) | 0" % (c, a, k, a, b)),
            ("float-exponent-notation", "G(1e-07*{%s}, 2.5e+22*{%s}) | 0" % (a, b)),
            ("pi-and-p", "G(pi*{p}/4, {p}*pi**2) | 0"),
            ("regref-neg-power", "MeasureX | 0\nMeasureX | 1\nG(0-q0**%d, x=1-q1**2*q0, y=[0-q1**3]) | 2" % k),
        ]
        cls, body = shapes[i % len(shapes)]
        yield {"class": "sympy-print/" + cls, "input": {"script": "name t\nversion 1.0\n\n%s\n" % body}}
    for i in range(max(2, n // 8)):
        nm = ["p7", "p0", "p12"][i % 3]
        yield {"class": "tdm-string-looks-like-p-name", "input": {"script": "name t\nversion 1.0\ntype tdm (temporal_modes=2)\n\nint array p1 =\n    1, 2\n\n"
                                                                      "G(\"%s\", p1, tag=\"%s\") | 0\n" % (nm, nm)}}


    for i in range(max(2, n // 8)):
        # wave 6 (C01f_1): outside tdm programs an array called p<digits> is an ordinary variable and a STRING equal to its name stays a string
        nm = ["p0", "p3", "p10"][i % 3]
        ty = ["", "type simulation\n"][i % 2]
        yield {"class": "non-tdm-string-equals-name-of-array-called-like-p-array",
               "input": {"script": "name t\nversion 1.0\n%s\nint array %s =\n    1, 2\n\nG(\"%s\", %s, tag=\"%s\", l=[\"%s\", 1]) | 0\n" % (ty, nm, nm, nm, nm, nm)}}


def _x_rt_check(case):
    from . import fam_prog as FP
    return FP.rt_check(case)


base.register(base.Family("roundtrip_x", ["C01", "C09", "C15"], _x_rt_cases, _x_rt_check, weight=0.25, bound="9 shapes x random names",
                          rule="see docstring; oracle of roundtrip (3 generations, equal up to float printing)"))


def _x_dg_cases(rng, n, tier):
    """C16: a measured register that FOLLOWS an ordinary positional argument, sits between others, or occurs only in a keyword
    of an operation with other operations on its own mode; an operation reading the register of its own mode"""
    for i in range(n):
        a, b = rng.sample(range(0, 4), 2)
        c = rng.choice([m for m in range(0, 5) if m not in (a, b)])
        shapes = [
            ("reg-after-plain-arg", ["MeasureX | %d" % a, "Dgate(0.3, q%d) | %d" % (a, b), "Sgate(0.1) | %d" % a],
             [("MeasureX", [a], []), ("Dgate", [b], [a]), ("Sgate", [a], [])]),
            ("reg-between-plain-args", ["MeasureX | %d" % a, "MeasureX | %d" % b, "S2gate(0.5, 2*q%d, 0.1, q%d+1) | %d" % (a, b, c), "Rgate(0.2) | %d" % b],
             [("MeasureX", [a], []), ("MeasureX", [b], []), ("S2gate", [c], [a, b]), ("Rgate", [b], [])]),
            ("kw-reg-with-own-mode-neighbours", ["Sgate(0.4) | %d" % b, "MeasureX | %d" % a, "MeasureHomodyne(phi=0.5, select=2*q%d) | %d" % (a, b), "Rgate(0.3) | %d" % b],
             [("Sgate", [b], []), ("MeasureX", [a], []), ("MeasureHomodyne", [b], [a]), ("Rgate", [b], [])]),
            ("reads-own-mode-register", ["MeasureX | %d" % a, "Dgate(q%d) | %d" % (a, a), "Vac | %d" % a],
             [("MeasureX", [a], []), ("Dgate", [a], [a]), ("Vac", [a], [])]),
            ("same-register-twice", ["MeasureX | %d" % a, "MeasureHomodyne(q%d, select=2*q%d) | %d" % (a, a, b), "Vac | %d" % b],
             [("MeasureX", [a], []), ("MeasureHomodyne", [b], [a]), ("Vac", [b], [])]),
        ]
        cls, lines, desc = shapes[i % len(shapes)]
        yield {"class": "regs/" + cls, "input": {"script": "name t\nversion 1.0\n\n" + "\n".join(lines) + "\n",
                                                  "ops": [{"op": o, "modes": m, "regs": r} for o, m, r in desc]}}


def _x_dg_check(case):
    from . import fam_prog as FP
    return FP.dg_check(case)


base.register(base.Family("digraph_x", ["C16", "C17"], _x_dg_cases, _x_dg_check, weight=0.15, bound="5 shapes x random modes",
                          rule="register dependencies in unusual argument positions; oracle of digraph (nodes, forward edges, reachability = chains sharing a wire)"))


def _x_inc_cases(rng, n, tier):
    """C11/C12/C07: names declared only inside an included file are NOT defined in the including script; an ungrammatical included file is a
    syntax error of the load"""
    for i in range(n):
        nm = ["alpha", "k", "W", "x1"][i % 4]
        slot = ["G(%s) | 0", "G(phi=%s) | 0", "G(y=[1, %s]) | 0", "float z = 2*%s\nG(z) | 0", "G | %s"][i % 5] % nm
        lib = "name Lib\nversion 1.0\n\nint %s = 1\nSgate(%s) | 0\n" % (nm, nm)
        main = "name main\nversion 1.0\ninclude \"lib.xbb\"\n\nLib | 2\n%s\n" % slot
        yield {"class": "include/name-declared-only-in-included-file", "input": {"files": {"lib.xbb": lib, "main.xbb": main}, "expect": "undefined", "name": nm}}
    for i in range(max(2, n // 6)):
        broken = ["name Lib\nversion 1.0\n\nSgate(0.1 | 0\n", "name Lib\nversion 1.0\n\nfloat array A =\n    1, 2 $\nSgate(1) | 0\n", "name Lib\n\nSgate(1) | 0\n"][i % 3]
        main = "name main\nversion 1.0\ninclude \"sub/lib.xbb\"\n\nLib | 2\n"
        yield {"class": "include/ungrammatical-included-file", "input": {"files": {"sub/lib.xbb": broken, "main.xbb": main}, "expect": "syntax"}}


def _x_inc_check(case):
    import os
    import shutil
    import tempfile
    import blackbird
    from blackbird.error import BlackbirdSyntaxError
    i = case["input"]
    d = tempfile.mkdtemp(prefix="verif_inc_")
    try:
        for rel, text in i["files"].items():
            path = os.path.join(d, rel)
            os.makedirs(os.path.dirname(path), exist_ok=True)
            with open(path, "w") as f:
                f.write(text)
        try:
            p = blackbird.load(os.path.join(d, "main.xbb"))
        except BlackbirdSyntaxError as e:
            if i["expect"] == "undefined" and ("'%s'" % i["name"]) not in str(e):
                return {"expected": "BlackbirdSyntaxError naming %r" % i["name"], "actual": base.describe_exc(e)}
            return None
        except Exception as e:
            return {"expected": "BlackbirdSyntaxError", "actual": base.describe_exc(e)}
        return {"expected": "load raises BlackbirdSyntaxError (%s)" % i["expect"], "actual": "a program was returned: %r" % (p.operations,)}
    finally:
        shutil.rmtree(d, ignore_errors=True)


base.register(base.Family("include_x", ["C11", "C12", "C07", "C10"], _x_inc_cases, _x_inc_check, weight=0.1, bound="4 names x 5 slots; 3 broken libraries",
                          rule="temp directory with main.xbb + included file; the load must be refused"))


def _x_load_cases(rng, n, tier):
    """C02/C15: in a program that is NOT of type tdm an array named p<digits> is an ordinary variable passed by value"""
    for i in range(n):
        nm = ["p1", "p22", "p0"][i % 3]
        a, b = rng.randint(1, 9), rng.randint(1, 9)
        ty = ["", "type simulation\n", "type TDM2 (copies=1)\n"][i % 3]
        script = "name t\nversion 1.0\n%s\nint array %s =\n    %d, %d\n\nGaussian(2, %s) | 0\nK(w=%s) | 1\n" % (ty, nm, a, b, nm, nm)
        arr = {"arr": {"dtype": "int", "rows": [[a, b]]}}
        exp = {"name": "t", "version": "1.0", "target": {"name": None, "options": []},
               "type": {"name": (None if not ty else ty.split()[1]), "options": ([] if "copies" not in ty else [["copies", 1]])},
               "operations": [{"op": "Gaussian", "modes": [0], "args": [2, arr], "kwargs": []}, {"op": "K", "modes": [1], "args": [], "kwargs": [["w", arr]]}],
               "variables": [[nm, arr]]}
        yield {"class": "non-tdm-array-named-like-p-array", "input": {"script": script, "expected": exp}}


base.register(base.Family("load_denote_x", ["C02", "C15"], _x_load_cases, FL.check_script, weight=0.1, bound="3 names x 3 program types",
                          rule="array named p<digits> in a non-tdm program is passed by value"))


# =====================================================================================================================
# Second round of extra input classes (seeded changes whose violation was reported without a concrete failing input).
# Same rule as above: the oracles are the property statements; only the inputs are new.  Every generator below cycles through
# its classes by case index, so that even the smallest quick-tier share (8 cases) meets every class at least once.
#
#  * decl_types_y   (C05): ragged arrays whose element count still fills a rows x columns grid; arrays WITH template parameters:
#                    numbers written in a narrower form than the declared type, arrays made of bare parameters only, read back
#                    element by element (kind, value, position), through A[k] and after instantiation.

def _y_cell_text(rng, ty, narrow):
    """(text, value) of one numeric array cell of declared type ty; narrow = written in a narrower form than ty"""
    if ty == "int" or (narrow and (ty == "float" or rng.random() < 0.5)):
        v = rng.randint(-9, 40)
        return str(v), v
    if ty == "float" or narrow:
        v = rng.choice([round(rng.uniform(-9, 9), rng.choice([1, 2, 3])), rng.randint(1, 9) * 10.0 ** rng.randint(-4, 5)])
        return repr(v), v
    re_, im = rng.randint(0, 9), rng.randint(1, 9)
    sgn = rng.choice("+-")
    return "%d%s%dj" % (re_, sgn, im), complex(re_, im if sgn == "+" else -im)


def _y_ragged(rng):
    ty = rng.choice(["int", "float", "complex"])
    while True:
        r, c = rng.randint(2, 4), rng.randint(1, 4)
        lens = [c] + [rng.randint(1, 5) for _ in range(r - 1)]
        if len(set(lens)) > 1 and sum(lens) == r * c:
            break
    name = rng.choice(["A", "M_1", "Arr", "B2", "w"])
    par_at = (rng.randrange(r), None) if rng.random() < 0.25 else None
    rows = []
    for i, n in enumerate(lens):
        cells = [_y_cell_text(rng, ty, rng.random() < 0.3)[0] for _ in range(n)]
        if par_at and par_at[0] == i:
            cells[rng.randrange(n)] = "{%s}" % rng.choice(["a", "p_1", "Theta"])
        rows.append("    " + ", ".join(cells))
    shape = "[%d, %d]" % (r, c) if rng.random() < 0.4 else ""
    lines = ["name %s" % rng.choice(["t", "prog", "ragged_1"]), "version 1.0", "", "%s array %s%s =" % (ty, name, shape)] + rows
    if rng.random() < 0.5:
        lines += ["", "G(%s[0]) | 0" % name]
    return {"class": "neg/ragged-rows-filling-the-grid" + ("/with-parameter" if par_at else ""),
            "input": {"script": "\n".join(lines) + "\n", "expected": {"error": "any"}, "note": "row lengths %r: %d elements = %d x %d" % (lens, sum(lens), r, c)}}


def _y_tarray(rng, variant):
    """array with bare template parameters among (or as all of) its elements"""
    ty = rng.choice(["float", "float", "complex"]) if variant == "narrow-literals" else rng.choice(["int", "float", "complex"])
    nr, nc = rng.randint(1, 3), rng.randint(1, 4)
    if nr * nc < 2:
        nc = rng.randint(2, 4)
    cells = [(i, j) for i in range(nr) for j in range(nc)]
    pool = rng.sample(["a", "b", "ab", "x_1", "Theta", "p1", "gam", "E"], rng.randint(2, 4))
    if variant == "all-bare-parameters":
        where = {c: pool[k % len(pool)] if k < len(pool) or rng.random() < 0.6 else rng.choice(pool) for k, c in enumerate(cells)}
    else:
        where = {c: rng.choice(pool) for c in rng.sample(cells, rng.randint(1, min(3, len(cells) - 1)))}
    rows_t, grid = [], []
    for i in range(nr):
        rt, rg = [], []
        for j in range(nc):
            if (i, j) in where:
                rt.append("{%s}" % where[(i, j)])
                rg.append({"par": where[(i, j)]})
            else:
                t, v = _y_cell_text(rng, ty, variant == "narrow-literals" or rng.random() < 0.3)
                rt.append(t)
                rg.append({"num": FS.G.enc(v)})
        rows_t.append(rt)
        grid.append(rg)
    name = rng.choice(["A", "M_1", "Arr", "B2", "w"])
    lines = ["name %s" % rng.choice(["t", "tmpl", "prog_2"]), "version 1.0", ""] + FS.G.array_decl(ty, name, rows_t, shape=rng.random() < 0.4) + [""]
    reads = sorted(rng.sample(range(nr * nc), min(nr * nc, rng.randint(1, 4))))
    op = rng.choice(["G", "Dgate", "Sgate"])
    if rng.random() < 0.5:
        lines.append("%s(%s) | 0" % (op, ", ".join("%s[%d]" % (name, k) for k in reads)))
        read_ops = [reads]
    else:
        lines += ["%s(%s[%d]) | %d" % (op, name, k, n) for n, k in enumerate(reads)]
        read_ops = [[k] for k in reads]
    used = sorted({w for w in where.values()})
    vals = {}
    for p in used:
        vals[p] = rng.randint(-20, 20) if ty == "int" else round(rng.uniform(-5, 5), 3) if ty == "float" else complex(rng.randint(-3, 3), rng.randint(1, 4))
    return {"class": "template-array/" + variant, "input": {"script": "\n".join(lines) + "\n", "tarray": {"name": name, "type": ty, "grid": grid, "reads": read_ops,
                                                                                                         "values": {k: FS.G.enc(v) for k, v in vals.items()}}}}


def _y_decl_cases(rng, n, tier):
    for i in range(n):
        k = i % 4
        if k == 0:
            yield _y_ragged(rng)
        else:
            yield _y_tarray(rng, ["narrow-literals", "all-bare-parameters", "mixed"][k - 1])


def _y_decl_check(case):
    import numpy as np
    import sympy as sym
    import blackbird
    i = case["input"]
    if "tarray" not in i:
        return FL.check_script(case)
    t = i["tarray"]
    ty, grid, name = t["type"], t["grid"], t["name"]
    nr, nc = len(grid), len(grid[0])
    try:
        p = blackbird.loads(i["script"])
    except Exception as e:
        return {"expected": "the declaration is valid (bare template parameters are allowed as array elements): the script loads", "actual": base.describe_exc(e)}

    def cell_diff(x, d, where):
        if "par" in d:
            if not (isinstance(x, sym.Symbol) and str(x) == d["par"]):
                return {"expected": "%s is the template parameter %s" % (where, d["par"]), "actual": "%r (%s)" % (x, type(x).__name__)}
            return None
        want = FS.G.dec(d["num"])
        if isinstance(x, sym.Expr) or base.kind(x) != ty or complex(x) != complex(want):
            return {"expected": "%s is the %s %r" % (where, ty, {"int": int, "float": float, "complex": complex}[ty](want)),
                    "actual": "%r (%s)" % (x, base.kind(x))}
        return None
    a = p.variables.get(name)
    if not isinstance(a, np.ndarray) or a.ndim != 2 or a.shape != (nr, nc):
        return {"expected": "variable %s is a two-dimensional array of shape %r" % (name, (nr, nc)),
                "actual": "%r" % (a if not isinstance(a, np.ndarray) else (a.shape, a.tolist()),)}
    for r in range(nr):
        for c in range(nc):
            res = cell_diff(a[r, c], grid[r][c], "element (%d, %d) of %s" % (r, c, name))
            if res:
                return res
    pars = {d["par"] for row in grid for d in row if "par" in d}
    if set(p.parameters) != pars:
        return {"expected": "free parameters %r" % sorted(pars), "actual": "%r" % sorted(p.parameters)}
    flat = [d for row in grid for d in row]
    if len(p.operations) != len(t["reads"]):
        return {"expected": "%d operations" % len(t["reads"]), "actual": repr(p.operations)}
    for o, ks in zip(p.operations, t["reads"]):
        if len(o["args"]) != len(ks):
            return {"expected": "%d arguments" % len(ks), "actual": repr(o)}
        for x, k in zip(o["args"], ks):
            res = cell_diff(x, flat[k], "%s[%d] (row-major)" % (name, k))
            if res:
                return res
    vals = {k: FS.G.dec(v) for k, v in t["values"].items()}
    try:
        q = p(**vals)
    except Exception as e:
        return {"expected": "instantiation with %r succeeds" % vals, "actual": base.describe_exc(e)}
    b = q.variables.get(name)
    kindch = {"int": "i", "float": "f", "complex": "c"}[ty]
    if not isinstance(b, np.ndarray) or b.shape != (nr, nc) or b.dtype.kind != kindch:
        return {"expected": "after instantiation %s is a %s array of shape %r" % (name, ty, (nr, nc)),
                "actual": "%r" % (b if not isinstance(b, np.ndarray) else (str(b.dtype), b.shape, b.tolist()),)}
    for r in range(nr):
        for c in range(nc):
            d = grid[r][c]
            want = vals[d["par"]] if "par" in d else FS.G.dec(d["num"])
            if complex(b[r, c]) != complex(want):
                return {"expected": "after instantiation element (%d, %d) of %s is %r" % (r, c, name, want), "actual": repr(b.tolist())}
    return None


base.register(base.Family("decl_types_y", ["C05"], _y_decl_cases, _y_decl_check, weight=0.12,
                          bound="arrays up to 4 rows x 5 columns; 1 ragged class, 3 parameterised classes, cycled",
                          rule="ragged rows whose total still equals rows x len(first row) must be rejected; arrays with bare {p} elements: element (r, c) "
                               "is the c-th entry of the r-th written row (parameters as symbols, numbers with the declared type), A[k] row-major, "
                               "declared type and shape kept by the instance"))


#  * expr_value_y   (C03): integer literals between 2**53 and 2**63 that no double represents exactly, as an argument, in differences and
#                    products whose exact value is small, through an int variable and through an int array element.

def _y_bigint(rng):
    while True:
        n = rng.randrange(2 ** 53 + 1, 2 ** 63 - 1) if rng.random() < 0.7 else 2 ** rng.randint(53, 62) + rng.randint(1, 99)
        if int(float(n)) != n:
            return n


def _y_expr_cases(rng, n, tier):
    none = {"name": None, "options": []}
    for i in range(n):
        N = _y_bigint(rng)
        d = rng.randint(1, 9)
        M = N - d
        k = rng.randint(2, 7)
        q, r = divmod(N, k)
        shape = i % 6
        decl, variables = "", []
        if shape == 0:
            cls, text, val = "literal", str(N), N
        elif shape == 1:
            cls, text, val = "difference-of-literals", "%d - %d" % (N, M), d
        elif shape == 2:
            cls, text, val = "product-and-difference", "%d - %d*%d" % (N, k, q), r
        elif shape == 3:
            cls, text, val = "via-int-variable", "big - %d" % M, d
            decl, variables = "int big = %d\n" % N, [["big", N]]
        elif shape == 4:
            cls, text, val = "via-int-array-element", "B[1] - B[0]", d
            decl, variables = "int array B =\n    %d, %d\n" % (M, N), [["B", {"arr": {"dtype": "int", "rows": [[M, N]]}}]]
        else:
            cls, text, val = "sum-below-2**63", "%d + %d" % (N // 2, d), N // 2 + d
        slot = ["G(%s) | 0", "G(1, %s) | 0", "G(phi=%s) | 0"][rng.randrange(3)] % text
        args, kwargs = ([val], []) if "phi=" not in slot else ([], [["phi", val]])
        if slot.startswith("G(1, "):
            args = [1, val]
        script = "name t\nversion 1.0\n\n%s%s\n" % (decl, slot)
        exp = {"name": "t", "version": "1.0", "target": none, "type": none, "operations": [{"op": "G", "modes": [0], "args": args, "kwargs": kwargs}],
               "variables": variables}
        yield {"class": "int-literal-above-2**53/" + cls, "input": {"script": script, "expected": exp, "expression": text}}


base.register(base.Family("expr_value_y", ["C03"], _y_expr_cases, FL.check_script, weight=0.08, bound="6 shapes x random 54..63-bit integers",
                          rule="integer literals within int64 that are not exactly representable as a double denote themselves; + - * on them stay exact integers"))


#  * forloop_unroll_x (C06): value lists of MIXED kinds -- at least one value of the loop type next to a value of another kind (number or
#                    bool in a str loop, string in an int/float loop, ...) must be refused; an int loop listing integers above 2**53 next to
#                    an integral float runs with exactly the written integers.

def _x_loop_cases(rng, n, tier):
    none = {"name": None, "options": []}
    strs = ['"one"', '"a b"', '"x"', '"2"', '""', '"True"']
    for i in range(n):
        var = rng.choice(["s", "i", "k", "mm", "idx"])
        style = rng.choice(["[%s]", "[%s]", "(%s)", "%s"])
        if i % 3 != 2:
            lt = ["str", "str", "int", "float", "str", "bool"][(i // 3) % 6] if i % 3 == 0 else rng.choice(["str", "str", "int", "float"])
            good = {"str": lambda: rng.choice(strs), "int": lambda: str(rng.randint(0, 9)), "float": lambda: "%d.%d" % (rng.randint(0, 9), rng.randint(1, 9)),
                    "bool": lambda: rng.choice(["True", "False"])}[lt]
            bads = {"str": ["2", "3.5", "True", "0", "1j"], "int": ['"two"', '"2"', "2.5"], "float": ['"x"', '"1.5"', "2j"], "bool": ['"yes"', '"True"', "2"]}[lt]
            items = [good() for _ in range(rng.randint(1, 3))]
            bad = rng.choice(bads)
            items.insert(rng.randint(0, len(items)), bad)
            body = "    G(%s) | 0" % var if lt != "int" or rng.random() < 0.5 else "    G | %s" % var
            lines = ["name t", "version 1.0", "", "for %s %s in %s" % (lt, var, style % ", ".join(items)), body]
            if rng.random() < 0.5:
                lines.append("Vac | 1")
            kind = "string" if bad.startswith('"') else "complex" if bad.endswith("j") else "bool" if bad in ("True", "False") else "number"
            yield {"class": "refuse/mixed-kinds/%s-in-%s-loop" % (kind, lt), "input": {"script": "\n".join(lines) + "\n", "expected": {"error": "any"}}}
        else:
            bigs = [_y_bigint(rng) for _ in range(rng.randint(1, 2))]
            fl = rng.randint(0, 9)
            vals = [(str(b), b) for b in bigs] + [("%d.0" % fl, fl)]
            rng.shuffle(vals)
            use = rng.choice(["G(%s) | 0", "G(1, %s) | 0", "G(%s - 3) | 0"])
            off = -3 if "- 3" in use else 0
            lines = ["name t", "version 1.0", "", "for int %s in %s" % (var, style % ", ".join(t for t, _v in vals)), "    " + use % var, "Vac | 1"]
            unrolled = ["name t", "version 1.0", ""] + [use % str(v) for _t, v in vals] + ["Vac | 1"]
            ops = [{"op": "G", "modes": [0], "args": ([1] if use.startswith("G(1,") else []) + [v + off], "kwargs": []} for _t, v in vals] + [{"op": "Vac", "modes": [1]}]
            exp = {"name": "t", "version": "1.0", "target": none, "type": none, "operations": ops, "variables": []}
            yield {"class": "list-int/above-2**53-next-to-integral-float", "input": {"script": "\n".join(lines) + "\n", "unrolled": "\n".join(unrolled) + "\n", "expected": exp}}


base.register(base.Family("forloop_unroll_x", ["C06"], _x_loop_cases, FL.check_forloop, weight=0.1, bound="lists of 2-4 values, 3 bracket styles",
                          rule="a listed value that is not of the loop type is refused also when other values are; converted values are the written ones exactly"))


#  * regref_transform_x (C08): statements INSIDE a for loop whose measured-register arguments also use the loop variable (coefficient, divisor,
#                    exponent), positional and keyword, next to register arguments outside the loop and loop-variable arguments without registers.

def _x_subst_var(ast, name, lit):
    if not isinstance(ast, list):
        return ast
    if ast[0] == "var" and ast[1] == name:
        return ["num", lit]
    return [ast[0]] + [_x_subst_var(c, name, lit) for c in ast[1:]]


def _x_rr_build(rng):
    G = FS.G
    lines = G.header(rng)
    numvars = {}
    for vn, ty in rng.sample([("x", "float"), ("n", "int"), ("gain", "float")], rng.randint(0, 2)):
        numvars[vn] = rng.choice([2, 3, 4]) if ty == "int" else rng.choice([0.5, 1.25, 2.5])
        lines.append("%s %s = %s" % (ty, vn, G.fmt_num(numvars[vn])))
    ops = []
    pool = rng.sample(FS._REG_POOL[:10], rng.randint(2, 4))
    if rng.random() < 0.6:
        for r in pool:
            lines.append("%s | %d" % (rng.choice(["MeasureX", "MeasureP", "MeasureHomodyne"]), r))
            ops.append({"args": [], "kwargs": {}, "noargs": True})

    def rrt(ast, regs, env=None):
        pts = FS._rr_points(rng, ast, regs, dict(numvars, **(env or {})))
        if len(pts) < 2:
            raise G.Unfit("no well-conditioned measurement points")
        return {"t": "rrt", "ast": ast, "regs": sorted(regs), "meas": pts}

    def outside():
        regs = rng.sample(pool, rng.randint(1, min(3, len(pool))))
        ast = FS._rr_expr(rng, regs, numvars)
        lines.append(G.call_text(rng.choice(G.OPS), [G.show(ast)], [], str(rng.choice([20, 21]))))
        ops.append({"args": [rrt(ast, regs)], "kwargs": {}})
    if rng.random() < 0.5:
        outside()
    lv = rng.choice(["i", "k", "m2", "idx"])
    if rng.random() < 0.75:
        a0 = rng.randint(1, 3)
        vals = list(range(a0, a0 + rng.randint(2, 4)))
        head = "for int %s in %d:%d" % (lv, vals[0], vals[-1] + 1) if rng.random() < 0.6 else "for int %s in [%s]" % (lv, ", ".join(map(str, vals)))
        lits = [str(v) for v in vals]
    else:
        vals = rng.sample([0.5, 1.5, 2.0, 0.25, 3.5], rng.randint(2, 3))
        head = "for float %s in [%s]" % (lv, ", ".join(repr(v) for v in vals))
        lits = [repr(v) for v in vals]
    body = []
    for _ in range(rng.randint(1, 2)):
        pos, kw = [], []
        for ai in range(rng.randint(1, 3)):
            r = rng.random()
            if ai == 0 or r < 0.6:
                regs = rng.sample(pool, rng.randint(1, min(3, len(pool))))
                inner = FS._rr_expr(rng, regs, numvars)
                L = ["var", lv]
                how = rng.choice(["coef", "coef", "sum", "div", "pow", "coef-of-one"])
                if how == "coef":
                    ast = ["mul", L, ["br", inner]] if inner[0] in ("add", "sub", "neg") else ["mul", L, inner]
                elif how == "sum":
                    ast = ["add", ["mul", L, ["reg", regs[0]]], inner]
                elif how == "div":
                    ast = ["div", ["br", inner], L]
                elif how == "pow":
                    ast = ["add", ["pow", ["reg", regs[0]], L], inner] if all(isinstance(v, int) for v in vals) else ["mul", L, ["br", inner]]
                else:
                    ast = ["sub", inner, ["mul", ["reg", regs[-1]], L]]
                d = ("rrt", ast, regs)
            elif r < 0.8:
                ast = rng.choice([["var", lv], ["mul", ["var", lv], ["num", "2"]], ["add", ["var", lv], ["num", "0.5"]]])
                d = ("num", ast, None)
            else:
                ast = ["num", G.number_text(rng)]
                d = ("num", ast, None)
            if ai > 0 and (kw or rng.random() < 0.4):
                kw.append(("k%d" % ai if rng.random() < 0.5 else G.KWNAMES[ai], d))
            else:
                pos.append(d)
        mode = lv if (rng.random() < 0.4 and all(isinstance(v, int) for v in vals)) else str(rng.choice([20, 21, 22]))
        body.append((G.call_text(rng.choice(G.OPS), [G.show(d[1]) for d in pos], [(k, G.show(d[1])) for k, d in kw], mode), pos, kw))
    lines.append(head)
    lines += ["    " + t for t, _p, _k in body]
    for v, lit in zip(vals, lits):
        for _t, pos, kw in body:
            def conc(d):
                ast = _x_subst_var(d[1], lv, lit)
                return rrt(ast, d[2]) if d[0] == "rrt" else {"t": "num", "ast": ast}
            ops.append({"args": [conc(d) for d in pos], "kwargs": {k: conc(d) for k, d in kw}})
    if rng.random() < 0.4:
        outside()
    return {"class": "loop/register-argument-uses-loop-variable/" + ("int" if isinstance(vals[0], int) else "float"),
            "input": {"script": "\n".join(lines) + "\n", "ops": ops, "vars": numvars}}


def _x_rr_cases(rng, n, tier):
    out = 0
    while out < n:
        try:
            c = _x_rr_build(rng)
        except FS.G.Unfit:
            continue
        out += 1
        yield c


base.register(base.Family("regref_transform_x", ["C08"], _x_rr_cases, FS._rr_check, weight=0.1, bound="loops of 2-4 values, bodies of 1-2 statements, 1-3 registers per argument",
                          rule="textual unrolling: in iteration v the transform computes the written formula with the loop variable replaced by v; oracle of regref_transform"))


#  * roundtrip_y    (C01): array arguments that are different arrays with identical memory contents (same data in another shape, all-zero
#                    arrays of another element type); zeros of both signs (float, real and imaginary parts) in one script.
#  * api_serialize_x (C09): SymPy arguments that contain the constant pi next to a parameter whose name is a prefix of "pi" (p), in
#                    positional / keyword / list / option position.

def _y_rt_cases(rng, n, tier):
    def decl(ty, name, rows, shape):
        def t(x):
            return str(x) if ty == "int" else repr(float(x)) if ty == "float" else "%s+%sj" % (repr(float(x.real)), repr(float(x.imag)))
        return ["%s array %s%s =" % (ty, name, "[%d, %d]" % (len(rows), len(rows[0])) if shape else "")] + ["    " + ", ".join(t(x) for x in r) for r in rows]
    for i in range(n):
        lines = ["name %s" % rng.choice(["prog", "t", "rt_2"]), "version 1.0", ""]
        if i % 3 != 2:
            if i % 3 == 0:
                m = rng.choice([2, 3, 4, 6])
                ty = rng.choice(["float", "int", "complex"])
                data = [rng.randint(-9, 9) if ty == "int" else round(rng.uniform(-4, 4), 2) if ty == "float" else complex(rng.randint(-3, 3), rng.randint(1, 5))
                        for _ in range(m)]
                shapes = rng.sample([(a, m // a) for a in range(1, m + 1) if m % a == 0], 2)
                arrs = [(ty, [data[r * c:(r + 1) * c] for r in range(nr)]) for nr, c in shapes]
                cls = "arrays/same-data-different-shape"
            else:
                nr, nc = rng.choice([(1, 2), (2, 2), (2, 3), (1, 4)])
                tys = rng.sample(["int", "float"], 2)
                arrs = [(t, [[0] * nc for _ in range(nr)]) for t in tys]
                if rng.random() < 0.3:
                    arrs.append(("complex", [[0j] * (nc // 2) for _ in range(nr)]) if nc % 2 == 0 else ("float", [[0] * nr for _ in range(nc)]))
                cls = "arrays/all-zero-different-type"
            names = rng.sample(["A", "B", "M", "U", "Zr"], len(arrs))
            for nm, (ty, rows) in zip(names, arrs):
                lines += decl(ty, nm, rows, rng.random() < 0.5)
            lines.append("")
            uses = list(names) + [rng.choice(names) for _ in range(rng.randint(0, 2))]
            rng.shuffle(uses)
            while uses:
                k = rng.randint(1, min(2, len(uses)))
                part, uses = uses[:k], uses[k:]
                if len(part) == 2 and rng.random() < 0.6:
                    lines.append("%s(%s, %s=%s) | [0, 1]" % (rng.choice(["Prepare", "Gaussian", "Interferometer"]), part[0], rng.choice(["means", "adj", "U"]), part[1]))
                elif rng.random() < 0.3:
                    lines.append("%s(%s) | 0" % (rng.choice(["Graph", "G"]), ", ".join("%s=%s" % (kw, a) for kw, a in zip(["adj", "cov"], part))))
                else:
                    lines.append("%s(%s) | [0, 1]" % (rng.choice(["Prepare", "Gaussian"]), ", ".join(part)))
        else:
            cls = "zeros-of-both-signs"
            pool = ["0.0", "-0.0", "0.0+1j", "-0.0+1j", "1-0.0j", "1+0.0j", "-0.0-0.0j", "0.0", "-0.0", "2.5"]
            for _ in range(rng.randint(1, 3)):
                vals = list(rng.choice([("0.0", "-0.0"), ("-0.0", "0.0"), ("1+0.0j", "1-0.0j"), ("1-0.0j", "1+0.0j"), ("0.0+1j", "-0.0+1j"), ("-0.0+1j", "0.0+1j")]))
                vals += [rng.choice(pool) for _ in range(rng.randint(0, 2))]                 # both signs of one zero in every statement
                kw = rng.random() < 0.5
                lines.append("%s(%s%s) | %d" % (rng.choice(["Rgate", "Dgate", "G"]), ", ".join(vals[:-1] if kw else vals), ", phi=%s" % vals[-1] if kw else "", rng.randint(0, 3)))
        yield {"class": cls, "input": {"script": "\n".join(lines) + "\n"}}


def _y_rt_check(case):
    import blackbird
    from . import fam_prog as FP
    res = FP.rt_check(case)
    if res is not None:
        return res
    p = blackbird.loads(case["input"]["script"])
    t = blackbird.dumps(p)
    q = blackbird.loads(t)
    for (w, a), (_w, b) in zip(FP._values_of(p), FP._values_of(q)):
        z = FP._zero_sign_diff(a, b)
        if z:
            return {"class": "negative-zero/" + sorted(z)[0], "expected": "%s comes back exactly (sign of zero): %r" % (w, a), "actual": "%r; text:\n%s" % (b, t)}
    return None


base.register(base.Family("roundtrip_y", ["C01"], _y_rt_cases, _y_rt_check, weight=0.1, bound="2-3 arrays of <= 6 elements; 1-3 statements of signed zeros",
                          rule="oracle of roundtrip (arrays come back with their own shape, element type and elements); numbers come back exactly incl. the sign of zero"))


def _x_api_cases(rng, n, tier):
    forms = ["pi*P0/4", "P0*pi + P1", "pi*(P0 - P1)", "P0**2*pi", "2*pi*P0*P1", "P0/pi", "pi - P0", "P1*(P0 + pi)/3"]
    for i in range(n):
        others = rng.sample(["theta", "p1", "pp", "x", "a", "phi", "pix"], rng.randint(0, 2))
        def symv():
            f = rng.choice(forms if others else [f for f in forms if "P1" not in f])
            o = rng.choice(others) if others else None
            return {"kind": "sym", "expr": f.replace("P0", "p").replace("P1", o or ""), "params": sorted({"p"} | ({o} if (o and "P1" in f) else set()))}
        where = ["arg", "kw", "list", "option"][i % 4]
        used = set()
        def note(s):
            used.update(s["params"])
            return s
        rec = {"name": rng.choice(["prog", "Main", "a"]), "version": "1.0", "target": None, "type": None, "ops": [], "params": []}
        plain = lambda: {"kind": "float", "repr": repr(round(rng.uniform(-3, 3), 2))}
        op = {"op": rng.choice(["Rgate", "BSgate", "Dgate", "G"]), "modes": rng.sample(range(6), rng.randint(1, 2)), "args": [plain() for _ in range(rng.randint(0, 2))], "kwargs": []}
        if where == "arg":
            op["args"].insert(rng.randint(0, len(op["args"])), note(symv()))
            if rng.random() < 0.5:
                op["kwargs"].append(["phi", note(symv())])
        elif where == "kw":
            op["kwargs"].append([rng.choice(["phi", "k", "r"]), note(symv())])
        elif where == "list":
            op["kwargs"].append(["opt", {"kind": "list", "items": [plain(), note(symv())] + ([note(symv())] if rng.random() < 0.5 else [])}])
        else:
            rec["target"] = {"name": rng.choice(["X8_01", "gaussian"]), "options": [["shots", {"kind": "int", "v": 10}], ["phi", note(symv())]]}
            op["args"].append(note(symv()))
        rec["ops"].append(op)
        if rng.random() < 0.4:
            rec["ops"].append({"op": "Vac", "modes": [7], "args": None})
        rec["params"] = sorted(used)
        yield {"class": "sym-pi/parameter-name-prefix-of-pi/" + where, "input": {"recipe": rec}}


def _x_api_check(case):
    from . import fam_prog as FP
    return FP.api_check(case)


base.register(base.Family("api_serialize_x", ["C09"], _x_api_cases, _x_api_check, weight=0.08, bound="8 forms x 4 positions, parameter p next to 0-2 others",
                          rule="oracle of api_serialize: the serialised script is accepted and denotes the same program (symbolic values equal as expressions)"))


#  * syntax_errors_x (C10): one fault placed directly in a STATEMENT, for every statement kind (gate / Measure..., with and without arguments,
#                    keyword arguments) x every fault around the '|' and the modes, at top level, inside a for loop and after declarations.

def _x_syn_cases(rng, n, tier):
    meas = ["MeasureX", "MeasureFock", "MeasureHomodyne", "Measure", "MeasureHD", "MeasureP", "MeasureThreshold"]
    gates = ["Sgate", "Vac", "BSgate", "op_1", "G"]
    faults = ["pipe-missing", "pipe-doubled", "pipe-replaced", "modes-missing", "cut-after-name", "cut-after-arguments", "modes-unclosed", "name-doubled",
              "token-before-pipe"]
    kinds = ["measure", "measure-call", "measure-kwargs", "gate", "gate-call", "measure", "measure-call"]
    for i in range(n):
        kind = kinds[i % len(kinds)]
        fault = faults[(i // len(kinds) + i) % len(faults)]
        name = rng.choice(meas if kind.startswith("measure") else gates)
        args = {"measure": "", "gate": "", "measure-call": rng.choice(["()", "(0.5)"]), "gate-call": rng.choice(["(0.1)", "(0.4, 2)"]),
                "measure-kwargs": rng.choice(["(phi=0.5)", "(select=1, phi=pi/2)", "(0.1, select=q1)"])}[kind]
        modes = rng.choice(["0", "[0, 1]", "(2, 3)", "1, 2"])
        ctx = ["top", "loop", "after-declarations", "between-statements"][rng.randrange(4)]
        good = "%s%s | %s" % (name, args, modes)
        bad = {"pipe-missing": "%s%s %s" % (name, args, modes),
               "pipe-doubled": "%s%s | | %s" % (name, args, modes),
               "pipe-replaced": "%s%s %s %s" % (name, args, rng.choice(["=", ":", "-", "in", "/"]), modes),
               "modes-missing": "%s%s |" % (name, args),
               "cut-after-name": name,
               "cut-after-arguments": "%s%s" % (name, args or "()"),
               "modes-unclosed": "%s%s | [0, 1" % (name, args),
               "name-doubled": "%s %s%s | %s" % (name, name, args, modes),
               "token-before-pipe": "%s%s %s | %s" % (name, args, rng.choice(["1", "x", '"s"', "True"]), modes)}[fault]
        head = "name %s\nversion 1.0\n" % rng.choice(["t", "prog_1"])
        if ctx == "after-declarations":
            head += "\nfloat alpha = 0.5\nint array B =\n    1, 2\n\n"
        elif ctx == "between-statements":
            head += "Sgate(0.1) | 0\n"
        tail = "Vac | 3\n" if ctx == "between-statements" or rng.random() < 0.4 else ""
        if fault.startswith("cut") and rng.random() < 0.5:
            tail = ""
        ind = ""
        if ctx == "loop":
            head += "for int i in 0:2\n"
            ind = "    "
            if rng.random() < 0.5:
                head += "    Rgate(i) | i\n"
        nl = "" if (not tail and rng.random() < 0.3) else "\n"
        yield {"class": "statement-fault|%s|%s|%s" % (kind, fault, ctx),
               "input": {"text": head + ind + bad + nl + tail, "base": head + ind + good + "\n" + tail}}


base.register(base.Family("syntax_errors_x", ["C10"], _x_syn_cases, FS._syn_check, weight=0.1, bound="5 statement kinds x 9 faults x 4 contexts",
                          rule="oracle of syntax_errors: BlackbirdSyntaxError (no other type) at the line/column of the first parser report, not before the edit"))


#  * syntax_errors_ws (C10): whitespace that IS a token: a script indented as a whole (4 blanks / a tab / 1-3 blanks before every line), an
#                    indentation-only line between statements or inside a loop body, a statement indented outside any loop. TAB is a token of
#                    the grammar, so these texts are ungrammatical (or, for 1-3 blanks, grammatical with shifted columns) and the position of
#                    the report is the one the parser gives for the text AS WRITTEN.

def _ws_syn_cases(rng, n, tier):
    kinds = ["all-indented-4", "all-indented-tab", "all-indented-1to3", "indent-only-line", "indent-only-line-in-loop", "statement-indented", "trailing-indent-line"]
    for i in range(n):
        kind = kinds[i % len(kinds)]
        nm = rng.choice(["t", "prog_1", "main"])
        body = ["Sgate(0.%d) | 0" % rng.randrange(1, 9), "BSgate(0.1, 0.2) | [0, 1]", "MeasureX | 1"][:rng.randrange(1, 4)]
        loop = ["for int i in 0:2", "    Rgate(i) | i", "    Vac | i"]
        lines = ["name " + nm, "version 1.0", ""] + body
        if kind.endswith("in-loop") or rng.random() < 0.3:
            lines += loop
        base_text = "\n".join(lines) + "\n"
        if kind.startswith("all-indented"):
            pre = {"all-indented-4": "    ", "all-indented-tab": "\t", "all-indented-1to3": " " * rng.randrange(1, 4)}[kind]
            fault = rng.choice(["", "", "missing-pipe"])
            ls = list(lines)
            if fault:
                ls[3] = ls[3].replace(" |", "", 1)
            text = "\n".join((pre + l) if l else l for l in ls) + "\n"
        elif kind == "indent-only-line":
            k = rng.randrange(3, len(lines))
            text = "\n".join(lines[:k] + [rng.choice(["    ", "\t", "        "])] + lines[k:]) + "\n"
        elif kind == "indent-only-line-in-loop":
            k = lines.index(loop[0]) + rng.randrange(1, 3)
            text = "\n".join(lines[:k] + [rng.choice(["    ", "\t"])] + lines[k:]) + "\n"
        elif kind == "statement-indented":
            k = rng.randrange(3, 3 + len(body))
            ls = list(lines)
            ls[k] = rng.choice(["    ", "\t"]) + ls[k]
            text = "\n".join(ls) + "\n"
        else:
            text = base_text + rng.choice(["    ", "\t", "    \n"])
        yield {"class": "whitespace-token|" + kind, "input": {"text": text, "base": None}}


base.register(base.Family("syntax_errors_ws", ["C10"], _ws_syn_cases, FS._syn_check, weight=0.08, bound="7 kinds of indentation that is a token, 1-3 statements, with and without a loop",
                          rule="oracle of syntax_errors: what the shipped parser reports for the text as written decides (grammatical: no syntax-stage error; "
                               "ungrammatical: BlackbirdSyntaxError at that line/column)"))


#  * include_y      (C11): ill-formed CALLS of an included program: every template parameter given plus one more keyword (scalar number, expression,
#                    variable, misspelt duplicate), a missing keyword, keywords to a non-template, too many / too few modes; at top level and in a loop body.

def _y_inc_cases(rng, n, tier):
    faults = ["extra-keyword", "extra-keyword-misspelt", "missing-keyword", "extra-keyword", "too-many-modes", "too-few-modes", "keywords-to-non-template",
              "extra-keyword-expression"]
    for i in range(n):
        fault = faults[i % len(faults)]
        lname = rng.choice(["Prep", "MachZehnder", "Lib_1", "sub"])
        pars = rng.sample(["alpha", "phi", "theta", "r", "x1"], rng.randint(1, 3)) if fault != "keywords-to-non-template" else []
        k = rng.randint(1, 3) if fault != "too-few-modes" else rng.randint(2, 3)
        ms = sorted(rng.sample(range(0, 6), k))
        lib = ["name %s" % lname, "version 1.0", ""]
        for j, m in enumerate(ms):
            a = "{%s}" % pars[j % len(pars)] if pars else "0.%d" % rng.randint(1, 9)
            lib.append("%s(%s) | %d" % (rng.choice(["Sgate", "Rgate", "Dgate"]), a, m))
        for p in pars[len(ms):]:
            lib.append("Zgate(2*{%s}) | %d" % (p, ms[0]))
        if k > 1:
            lib.append("BSgate(0.1, 0.2) | [%d, %d]" % (ms[0], ms[-1]))
        val = lambda: rng.choice(["0.3", "2", "-1.5", "1e-2", "a"])
        kw = ["%s=%s" % (p, val()) for p in pars]
        nm = k
        if fault == "extra-keyword":
            kw.insert(rng.randint(0, len(kw)), "%s=%s" % (rng.choice(["zz", "r2", "gain", "k"]), val()))
        elif fault == "extra-keyword-misspelt":
            kw.append("%s=%s" % (pars[0].capitalize() if pars[0].capitalize() != pars[0] else pars[0] + "_", val()))
        elif fault == "extra-keyword-expression":
            kw.append("%s=%s" % (rng.choice(["zz", "gain"]), rng.choice(["2*a", "a + 1", "sqrt(2)", "pi/2", "-a"])))
        elif fault == "missing-keyword":
            kw.pop(rng.randrange(len(kw)))
        elif fault == "too-many-modes":
            nm = k + rng.randint(1, 2)
        elif fault == "too-few-modes":
            nm = k - 1
        else:
            kw = ["%s=%s" % (rng.choice(["zz", "phi"]), val())]
        cm = rng.sample(range(0, 9), nm)
        call = "%s%s | %s" % (lname, "(%s)" % ", ".join(kw) if kw else "", cm[0] if nm == 1 and rng.random() < 0.5 else "[%s]" % ", ".join(map(str, cm)))
        sub = rng.choice(["", "", "lib/"])
        main = ["name main", "version 1.0", 'include "%s%s.xbb"' % (sub, lname.lower()), "", "float a = 0.25"]
        if rng.random() < 0.5:
            main.append("Vac | 0")
        if rng.random() < 0.3:
            main += ["for int i in 0:2", "    Vac | i", "    " + call]
            ctx = "loop-body"
        else:
            main.append(call)
            ctx = "top"
        if rng.random() < 0.5:
            main.append("Vac | 1")
        yield {"class": "include-call/%s/%s" % (fault, ctx), "input": {"files": {"%s%s.xbb" % (sub, lname.lower()): "\n".join(lib) + "\n", "main.xbb": "\n".join(main) + "\n"},
                                                                      "fault": fault}}


def _y_inc_check(case):
    import os
    import shutil
    import tempfile
    import blackbird
    i = case["input"]
    d = tempfile.mkdtemp(prefix="verif_incy_")
    try:
        for rel, text in i["files"].items():
            path = os.path.join(d, rel)
            os.makedirs(os.path.dirname(path), exist_ok=True)
            with open(path, "w") as f:
                f.write(text)
        try:
            p = blackbird.load(os.path.join(d, "main.xbb"))
        except Exception:                                          # refused, as the property demands (any exception type)
            return None
        shown = "\n".join("### %s\n%s" % kv for kv in sorted(i["files"].items()))
        return {"expected": "load raises an exception: the call of the included program is ill-formed (%s)\n%s" % (i["fault"], shown),
                "actual": "a program was returned: %r" % (p.operations,)}
    finally:
        shutil.rmtree(d, ignore_errors=True)


base.register(base.Family("include_y", ["C11"], _y_inc_cases, _y_inc_check, weight=0.08, bound="7 faults x templates of 1-3 parameters on 1-3 modes",
                          rule="temp directory with main.xbb + included file; a call with wrong keyword arguments or a wrong number of modes is never turned into a program"))


#  * tdm_y          (C15): p-arrays whose declaration contains template parameters (among the elements, or the whole array as one {x} with a
#                    declared shape), used as arguments; references to p-arrays written inside brackets: (p1), phi=(p2), [p0, (p1)], ((p0)).

def _y_tdm_cases(rng, n, tier):
    for i in range(n):
        typ = "tdm" + rng.choice(["", " (temporal_modes=2)", " (temporal_modes=3, copies=10)"])
        lines = ["name %s" % rng.choice(["t", "tdm_prog", "prog_1"]), "version 1.0", "type " + typ, ""]
        pn = rng.sample(["p0", "p1", "p2", "p12", "p007"], rng.randint(2, 3))
        decl, pars = {}, set()
        variant = ["parameter-among-elements", "whole-array-parameter", "reference-in-brackets"][i % 3]
        for j, nm in enumerate(pn):
            ty = rng.choice(["float", "float", "int"])
            nr, nc = rng.choice([1, 1, 2]), rng.randint(2, 4)
            grid = [[(rng.randint(1, 9) if ty == "int" else round(rng.uniform(0.1, 3), 2)) for _ in range(nc)] for _ in range(nr)]
            cells = [[(str(v) if ty == "int" else repr(v)) for v in row] for row in grid]
            if j == 0 and variant == "parameter-among-elements":
                for (r, c) in rng.sample([(r, c) for r in range(nr) for c in range(nc)], rng.randint(1, 2)):
                    p = rng.choice(["x", "ab", "theta_1", "y"])
                    cells[r][c], grid[r][c] = "{%s}" % p, {"par": p}
                    pars.add(p)
                lines += FS.G.array_decl(ty, nm, cells, shape=rng.random() < 0.4)
            elif j == 0 and variant == "whole-array-parameter":
                p = rng.choice(["x", "ab", "w"])
                lines += ["%s array %s[%d, %d] =" % (ty, nm, nr, nc), "    {%s}" % p]
                grid = [[{"par": "%s_%d_%d" % (p, r, c)} for c in range(nc)] for r in range(nr)]
                pars |= {"%s_%d_%d" % (p, r, c) for r in range(nr) for c in range(nc)}
            else:
                lines += FS.G.array_decl(ty, nm, cells, shape=rng.random() < 0.3)
            decl[nm] = {"type": ty, "grid": grid}
        lines.append("")
        ops = []
        br = (lambda s: rng.choice(["(%s)", "(%s)", "((%s))"]) % s) if variant == "reference-in-brackets" else (lambda s: s)
        order = list(pn) + [rng.choice(pn) for _ in range(rng.randint(0, 2))]
        rng.shuffle(order)
        if pn[0] not in order[:2]:
            order.insert(0, pn[0])
        while order:
            a = order.pop()
            r = rng.random()
            mode = rng.randint(0, 3)
            if r < 0.4 or not order:
                lines.append("%s(%s%s) | %d" % (rng.choice(["Rgate", "Sgate", "Mask"]), br(a), rng.choice(["", ", 0.5"]), mode))
                ops.append({"args": [a], "kwargs": {}})
            elif r < 0.7:
                b = order.pop()
                lines.append("%s(%s, %s=%s) | %d" % (rng.choice(["BSgate", "MeasureHomodyne"]), rng.choice([a, br(a)]), rng.choice(["phi", "k"]), br(b), mode))
                ops.append({"args": [a], "kwargs": {"kw": b}})
            else:
                b = order.pop()
                lines.append("G(y=[%s, %s]) | %d" % (rng.choice([a, br(a)]), br(b), mode))
                ops.append({"args": [], "kwargs": {"kw": [a, b]}})
        if pars and rng.random() < 0.4:
            p = sorted(pars)[0]
            lines.append("Dgate({%s}) | 1" % p) if variant != "whole-array-parameter" else None
        vals = {p: (float(k) + 0.5) for k, p in enumerate(sorted(pars))}
        yield {"class": "tdm/p-array/" + variant, "input": {"script": "\n".join(l for l in lines if l is not None) + "\n", "parrays": decl, "ops": ops,
                                                              "parameters": sorted(pars), "values": vals}}


def _y_tdm_check(case):
    import numpy as np
    import blackbird
    i = case["input"]
    try:
        p = blackbird.loads(i["script"])
    except Exception as e:
        return {"expected": "the tdm script loads", "actual": base.describe_exc(e)}

    def same(x, want):                                            # a name is a str; never compare arrays with ==
        if isinstance(want, list):
            return isinstance(x, list) and len(x) == len(want) and all(same(a, b) for a, b in zip(x, want))
        return isinstance(x, str) and x == want

    def ops_diff(prog, where):
        for n, d in enumerate(i["ops"]):
            if n >= len(prog.operations):
                return {"expected": "%s: at least %d operations" % (where, len(i["ops"])), "actual": repr(prog.operations)}
            o = prog.operations[n]
            got = list(o.get("args", []))[:len(d["args"])]
            if len(got) != len(d["args"]) or not all(same(x, w) for x, w in zip(got, d["args"])):
                return {"expected": "%s: operation %d receives the p-array(s) by NAME: %r" % (where, n, d["args"]), "actual": repr(o)}
            if d["kwargs"]:
                kv = [v for k, v in o.get("kwargs", {}).items()]
                want = d["kwargs"]["kw"]
                if len(kv) != 1 or not same(kv[0], want):
                    return {"expected": "%s: operation %d keyword receives the p-array(s) by NAME: %r" % (where, n, want), "actual": repr(o)}
        return None

    def arrays_diff(prog, where, vals):
        for nm, d in i["parrays"].items():
            a = prog.variables.get(nm)
            g = d["grid"]
            if not isinstance(a, np.ndarray) or a.shape != (len(g), len(g[0])):
                return {"expected": "%s: variables[%r] is the declared %dx%d array" % (where, nm, len(g), len(g[0])), "actual": repr(a)}
            for r, row in enumerate(g):
                for c, x in enumerate(row):
                    if isinstance(x, dict):
                        if vals is None:
                            ok = str(a[r, c]) == x["par"] and not isinstance(a[r, c], (int, float, str))
                            want = "the parameter " + x["par"]
                        else:
                            want = vals[x["par"]]
                            ok = base.kind(a[r, c]) in ("int", "float") and float(a[r, c]) == float(want)
                    else:
                        want = x
                        ok = base.kind(a[r, c]) in ("int", "float") and float(a[r, c]) == float(x)
                    if not ok:
                        return {"expected": "%s: %s[%d, %d] is %r" % (where, nm, r, c, want), "actual": "%r in %r" % (a[r, c], a.tolist())}
        return None
    res = ops_diff(p, "loaded") or arrays_diff(p, "loaded", None)
    if res:
        return res
    pars = set(i["parameters"])
    if set(p.parameters) != pars or bool(p.is_template()) != bool(pars):
        return {"expected": "free parameters %r (p-array names are never free parameters); is_template %r" % (sorted(pars), bool(pars)),
                "actual": "%r, is_template %r" % (sorted(p.parameters), p.is_template())}
    q = p
    if pars:
        try:
            q = p(**i["values"])
        except Exception as e:
            return {"expected": "the tdm template instantiates with %r" % i["values"], "actual": base.describe_exc(e)}
        res = ops_diff(q, "instance") or arrays_diff(q, "instance", i["values"])
        if res:
            return res
        if q.parameters:
            return {"expected": "instance has no free parameters", "actual": repr(sorted(q.parameters))}
    try:
        text = blackbird.dumps(q)
        r = blackbird.loads(text)
    except Exception as e:
        return {"expected": "the %s serialises and re-loads" % ("instance" if pars else "program"), "actual": base.describe_exc(e)}
    res = ops_diff(r, "re-loaded") or arrays_diff(r, "re-loaded", i["values"])
    if res:
        res["expected"] += "\nserialised text:\n" + text
        return res
    if r.programtype["name"] != "tdm" or r.parameters:
        return {"expected": "re-loaded program is of type tdm without free parameters", "actual": "%r %r" % (r.programtype, sorted(r.parameters))}
    return None


base.register(base.Family("tdm_y", ["C15"], _y_tdm_cases, _y_tdm_check, weight=0.1, bound="2-3 p-arrays up to 2x4, 3 variants cycled",
                          rule="p-array used as an argument (also written in brackets, also when its declaration holds template parameters) is delivered as its "
                               "name; its array is kept under that name (after instantiation: with the values bound); serialise/re-load keeps names and arrays"))


#  * digraph_y      (C16): SEVERAL conversions of one program object: the returned graph is taken apart by the caller (layer scheduling: peel
#                    off the nodes without predecessors) or the program's operation list is edited in place (append / remove / retarget an
#                    operation) between two conversions; every conversion must give the graph of the program as it is then.

def _y_dg_cases(rng, n, tier):
    from . import gen_prog as GP
    out = 0
    while out < n:
        c = GP.gen_digraph_case(rng, tier)
        ops = c["input"]["ops"]
        if len(ops) < 2:
            continue
        steps = []
        pool = sorted({m for o in ops for m in o["modes"]})
        for _ in range(rng.randint(1, 3)):
            k = [["peel-graph"], ["damage-graph"], ["append-op"], ["pop-op"], ["retarget-op"], ["peel-graph", "append-op"]][(out + len(steps)) % 6]
            for how in k:
                st = {"do": how}
                if how == "append-op":
                    st["op"] = {"op": rng.choice(["Sgate", "Vac", "MeasureX"]), "modes": rng.sample(pool, rng.randint(1, min(2, len(pool)))), "regs": []}
                    st["args"] = rng.choice([None, [0.5], []])
                elif how == "retarget-op":
                    st["index"] = rng.randrange(len(ops))
                    st["modes"] = rng.sample(range(0, 9), rng.randint(1, 2))
                steps.append(st)
        out += 1
        yield {"class": "reconversion/" + "+".join(sorted({s["do"] for s in steps})), "input": {"script": c["input"]["script"], "ops": ops, "steps": steps}}


def _y_dg_check(case):
    import blackbird
    from blackbird.utils import to_DiGraph
    from . import fam_prog as FP
    inp = case["input"]
    desc = [dict(d) for d in inp["ops"]]
    p = blackbird.loads(inp["script"])
    if len(p.operations) != len(desc) or any(o["op"] != d["op"] or [int(m) for m in o["modes"]] != d["modes"] for o, d in zip(p.operations, desc)):
        return {"class": "precondition/load-differs-from-description", "expected": desc, "actual": repr(p.operations)[:800]}
    g = to_DiGraph(p)
    res = FP.dg_graph_check(p, g, desc, inp["script"])
    if res:
        return res
    for n, st in enumerate(inp["steps"]):
        do = st["do"]
        if do == "peel-graph":                                     # Kahn layering on the graph object the caller received
            while len(g):
                g.remove_nodes_from([v for v in list(g.nodes) if g.in_degree(v) == 0])
        elif do == "damage-graph":
            first = sorted(g.nodes)[0]
            g.nodes[first]["name"] = "changed_by_caller"
            g.add_edge(len(desc) + 5, first)
            g.remove_node(sorted(g.nodes)[-2])
        elif do == "append-op":
            o = {"op": st["op"]["op"], "modes": list(st["op"]["modes"])}
            if st["args"] is not None:
                o["args"], o["kwargs"] = list(st["args"]), {}
            p.operations.append(o)
            desc.append(dict(st["op"]))
        elif do == "pop-op" and len(desc) > 1:
            p.operations.pop()
            desc.pop()
        elif do == "retarget-op":
            k = st["index"] % len(desc)
            p.operations[k]["modes"] = list(st["modes"])
            desc[k] = dict(desc[k], modes=list(st["modes"]))
        g = to_DiGraph(p)
        res = FP.dg_graph_check(p, g, desc, inp["script"])
        if res:
            res["expected"] = "conversion after step %d (%s) of %r: %s" % (n, do, [s["do"] for s in inp["steps"]], res["expected"])
            return res
    return None


base.register(base.Family("digraph_y", ["C16"], _y_dg_cases, _y_dg_check, weight=0.1, bound="scripts of 2-12 operations; 1-4 steps between conversions",
                          rule="oracle of digraph applied to EVERY conversion of the same program object, after the caller took the previous graph apart or "
                               "edited program.operations in place"))


#  * history_y      (C12, C07): histories of loads over FILES in one fresh interpreter (replay/_history_driver.py): an included file that is
#                    rewritten (other operations, now a template, other number of modes, now ungrammatical, removed) between two loads of the
#                    same path; two projects with the same relative file names loaded by relative path from their own directories; an
#                    operation spelled like a program that an EARLIER script included; the identical text / file loaded twice with the caller
#                    modifying the first result in between; option-less `target X` / `type Y` declarations with such modifications.

_Y_HIST_FUT = {}
_Y_HIST_POOL = []


def _y_hist_run(payload):
    import os
    import subprocess
    import sys
    env = dict(os.environ)
    env["PYTHONPATH"] = os.pathsep.join(p for p in sys.path if p)
    env["PYTHONHASHSEED"] = "0"
    env["PYTHONDONTWRITEBYTECODE"] = "1"
    p = subprocess.run([sys.executable, "-m", "replay._history_driver"], input=payload.encode(), stdout=subprocess.PIPE, stderr=subprocess.PIPE, env=env,
                       timeout=300, cwd=os.path.dirname(os.path.dirname(os.path.abspath(__file__))))
    out = p.stdout.decode("utf-8", "replace").strip().splitlines()
    if p.returncode != 0 or not out:
        raise RuntimeError("history driver failed (exit %d): %s" % (p.returncode, p.stderr.decode("utf-8", "replace")[-800:]))
    import json
    return json.loads(out[-1])


def _y_hist_submit(req):
    import json
    from concurrent.futures import ThreadPoolExecutor
    key = json.dumps(req, sort_keys=True)
    if key not in _Y_HIST_FUT:
        if not _Y_HIST_POOL:
            _Y_HIST_POOL.append(ThreadPoolExecutor(12))
        _Y_HIST_FUT[key] = _Y_HIST_POOL[0].submit(_y_hist_run, key)
    return _Y_HIST_FUT[key]


def _y_hist_requests(steps):
    """the history itself and, per load, the same load alone in a pristine process with the files as they are at that moment"""
    reqs = [{"steps": steps, "sharing": True}]
    files, cwd = {}, None
    for st in steps:
        files.update(st.get("files") or {})
        if st.get("cwd") is not None:
            cwd = st["cwd"]
        if "text" in st or "path" in st:
            alone = {k: st[k] for k in ("text", "path", "how") if k in st}
            alone["files"] = dict(files)
            alone["cwd"] = cwd
            reqs.append({"steps": [alone], "sharing": False})
    return reqs


def _y_lib(rng, name, k, params=(), shift=0):
    ms = sorted(rng.sample(range(0, 6), k))
    lines = ["name %s" % name, "version 1.0", ""]
    gates = ["Sgate", "Rgate", "Dgate", "Zgate", "Xgate"]
    for j, m in enumerate(ms):
        a = "{%s}" % params[j % len(params)] if params else "0.%d" % rng.randint(1, 9)
        lines.append("%s(%s) | %d" % (gates[(j + shift) % len(gates)], a, m))
    for p in list(params)[len(ms):]:
        lines.append("Kgate({%s}) | %d" % (p, ms[0]))
    if k > 1:
        lines.append("%s(0.%d, 0.2) | [%d, %d]" % (rng.choice(["BSgate", "MZgate"]), rng.randint(1, 9), ms[-1], ms[0]))
    return "\n".join(lines) + "\n"


def _y_hist_build(rng, variant):
    nm = rng.choice(["Sub", "Lib1", "MachZehnder", "prep"])
    k = rng.randint(1, 3)
    cm = lambda kk: ("[%s]" % ", ".join(map(str, rng.sample(range(0, 9), kk)))) if kk > 1 or rng.random() < 0.5 else str(rng.randint(0, 8))
    sub = rng.choice(["", "lib/", "a/b/"])
    inc = "%s%s.xbb" % (sub, nm.lower())
    main = lambda call, extra="": "name main\nversion 1.0\ninclude \"%s\"\n\nVac | 0\n%s\n%s" % (inc, call, extra)
    if variant == "include-file-rewritten":
        lib1 = _y_lib(rng, nm, k)
        how2 = rng.choice(["other-operations", "other-operations", "now-a-template", "other-number-of-modes", "now-ungrammatical", "removed"])
        lib2 = {"other-operations": _y_lib(rng, nm, k, shift=2), "now-a-template": _y_lib(rng, nm, k, params=["alpha"]),
                "other-number-of-modes": _y_lib(rng, nm, k + 1), "now-ungrammatical": "name %s\nversion 1.0\n\nSgate(0.1 | 0\n" % nm, "removed": None}[how2]
        m1 = main("%s | %s" % (nm, cm(k)))
        m2 = m1 if rng.random() < 0.5 else main("%s | %s" % (nm, cm(k)), "Vac | 1\n")
        style = rng.choice(["abs", "rel"])
        d = rng.choice(["", "proj/"])
        steps = [{"files": {d + "main.xbb": m1, d + inc: lib1}, "cwd": d or ".", "path": d + "main.xbb", "how": style},
                 {"files": {d + "main2.xbb": m2, d + inc: lib2}, "path": d + "main2.xbb", "how": style, "mutate_earlier": rng.random() < 0.3}]
        if rng.random() < 0.3:
            steps.append({"files": {d + inc: lib1}, "path": d + "main.xbb", "how": style})
        return "include-file-rewritten/" + how2, steps
    if variant == "failed-load-then-file-load":
        # wave 6 (C12f_1): what a load that failed during the walk left behind must not reach a later load of a FILE (load(path) has its own entry path)
        bad = "name bad\nversion 1.0\n\nint n = 7\nfloat w = 0.25\nSgate({alpha}, n) | 0\nDgate(%s) | 1\n" % rng.choice(["zz", "w*undefined_name", "A[3]"])
        plain = "name plain\nversion 1.0\n\nVac | 0\nSgate(0.5) | 1\n"
        opts = "name opts\nversion 1.0\ntarget somedevice (shots=%s)\n\nVac | 0\n" % rng.choice(["n", "w"])
        how = rng.choice(["abs", "rel"])
        steps = [{"text": bad}, {"files": {"plain.xbb": plain, "opts.xbb": opts}, "cwd": ".", "path": "plain.xbb", "how": how}, {"path": "opts.xbb", "how": how}]
        if rng.random() < 0.5:
            steps.insert(1, {"files": {"bad.xbb": bad}, "cwd": ".", "path": "bad.xbb", "how": how})
        return "failed-load-then-file-load", steps
    if variant == "same-relative-names-in-two-directories":
        libs = [_y_lib(rng, nm, k, shift=s) for s in (0, 2)]
        dirs = rng.sample(["proj_one", "proj_two", "x/y", "other"], 2)
        call = "%s | %s" % (nm, cm(k))
        steps = []
        for d, lib in zip(dirs, libs):
            st = {"files": {d + "/main.xbb": main(call), d + "/" + inc: lib}, "cwd": d}
            if rng.random() < 0.7:
                st.update({"path": d + "/main.xbb", "how": "rel"})
            else:
                st["text"] = main(call)                              # loads(): include path relative to the working directory
            steps.append(st)
        if rng.random() < 0.3:
            steps.append({"cwd": dirs[0], "path": dirs[0] + "/main.xbb", "how": "rel"})
        return "same-relative-names-in-two-directories", steps
    if variant == "operation-named-like-earlier-include":
        lib = _y_lib(rng, nm, k, params=(["theta"] if rng.random() < 0.4 else []))
        call = "%s%s | %s" % (nm, "(theta=0.3)" if "{theta}" in lib else "", cm(k))
        later = rng.choice(["%s | %s" % (nm, cm(k)), "%s(0.5) | %s" % (nm, cm(1)), "%s | %s" % (nm, cm(k + 1)), "%s(theta=0.1) | %s" % (nm, cm(k))])
        steps = [{"files": {"main.xbb": main(call), inc: lib}, "cwd": ".", "path": "main.xbb", "how": rng.choice(["abs", "rel"])},
                 {"text": "name later\nversion 1.0\n\nSgate(0.1) | 0\n%s\n" % later}]
        if rng.random() < 0.4:
            steps.insert(1, {"text": "name between\nversion 1.0\n\nVac | 2\n"})
        return "operation-named-like-earlier-include", steps
    if variant == "same-script-twice-modified-between":
        body = rng.choice(["float alpha = 0.5\nSgate(alpha, 2) | 0\nBSgate(phi=[1, 2]) | [0, 1]\n", "target X8_01 (shots=10)\n\nint array A =\n    1, 2\nG(A, k=3) | 2\n",
                           "type tdm (temporal_modes=2)\n\nfloat array p0 =\n    1, 2\nRgate(p0) | 1\n", "Sgate({a}, 1) | 0\nDgate(y=[{b}, 2]) | 1\n"])
        text = "name twice\nversion 1.0\n" + body
        if rng.random() < 0.5:
            steps = [{"text": text}, {"text": text, "mutate_earlier": True}]
        else:
            steps = [{"files": {"s.xbb": text}, "cwd": ".", "path": "s.xbb", "how": rng.choice(["abs", "rel"])}, {"path": "s.xbb", "how": "abs", "mutate_earlier": True}]
            steps[1]["how"] = steps[0]["how"]
        if rng.random() < 0.4:
            steps.append(dict(steps[1]))
        return "same-script-twice-modified-between", steps
    # option-less declarations
    dev, ty = rng.choice(["X8_01", "fock", "gaussian"]), rng.choice(["tdm", "custom", "batch_1"])
    heads = ["target %s\n" % dev, "type %s\n" % ty, "target %s\ntype %s\n" % (dev, ty), "target %s\ntype %s (copies=1)\n" % (dev, ty)]
    texts = ["name o%d\nversion 1.0\n%s\nVac | %d\n" % (j, rng.choice(heads), j) for j in range(rng.randint(2, 3))]
    steps = [{"text": t, "mutate_earlier": j > 0} for j, t in enumerate(texts)]
    return "option-less-target-or-type-modified-between", steps


_Y_HIST_VARIANTS = ["include-file-rewritten", "failed-load-then-file-load", "same-relative-names-in-two-directories", "operation-named-like-earlier-include", "same-script-twice-modified-between",
                    "option-less-declarations", "include-file-rewritten", "same-relative-names-in-two-directories"]


def _y_hist_cases(rng, n, tier):
    n = min(n, 21 if tier == "quick" else 140)
    cases = []
    for i in range(n):
        cls, steps = _y_hist_build(rng, _Y_HIST_VARIANTS[i % len(_Y_HIST_VARIANTS)])
        cases.append({"class": cls, "input": {"steps": steps}})
    for c in cases:
        for r in _y_hist_requests(c["input"]["steps"]):
            _y_hist_submit(r)
    return cases


def _y_hist_check(case):
    steps = case["input"]["steps"]
    reqs = _y_hist_requests(steps)
    futs = [_y_hist_submit(r) for r in reqs]
    seq = futs[0].result()
    shown = "\n".join("--- step %d: %s" % (k, {kk: vv for kk, vv in st.items()}) for k, st in enumerate(steps))[:2500]
    k = 0
    for n, st in enumerate(steps):
        if "text" not in st and "path" not in st:
            continue
        alone = futs[1 + k].result()["outcomes"][0]
        got = seq["outcomes"][k]
        k += 1
        if got != alone:
            return {"expected": "load #%d of the history (step %d) has the outcome it has in a pristine process with the same files and working directory: %s\n%s"
                                % (k - 1, n, FS._short(alone), shown), "actual": "after %d earlier load(s): %s" % (k - 1, FS._short(got))}
    if seq["sharing"]:
        return {"expected": "programs returned by different loads share no mutable state\n" + shown, "actual": "; ".join(seq["sharing"][:4])}
    return None


base.register(base.Family("history_y", ["C12", "C07"], _y_hist_cases, _y_hist_check, weight=0.1, parallel=False,
                          bound="histories of 2-3 loads (load by absolute / relative path, loads of text) over a private directory tree; quick tier: at most 21 histories",
                          rule="oracle of history: every load == the same load alone in a fresh interpreter with the files and working directory as they are at "
                               "that moment (exact image / exception type + message); results share no mutable object; 5 variants cycled"))


#  * include_sym    (C07): templates that include templates (depth 2-3) and hand their own parameters on under the CALLEE's names in another
#                    arrangement (swap, shift, identity, fresh names, constants, simple expressions), where the callee's arguments depend on two
#                    or three of its parameters; applied on shuffled modes.  Oracle: inlining by own evaluation of the written expressions.

def _sym_expr(rng, ps):
    P = [["par", p] for p in ps]
    c = lambda: ["num", rng.choice(["2", "3", "0.5", "4", "1.5"])]
    if len(P) == 1:
        return rng.choice([P[0], ["mul", c(), P[0]], ["add", P[0], c()], ["sub", c(), P[0]]])
    a, b = P[0], P[1]
    forms = [["sub", a, ["mul", c(), b]], ["add", ["mul", a, b], b], ["div", b, ["add", a, ["num", "7"]]], ["sub", ["pow", a, ["num", "2"]], b],
             ["sub", ["mul", c(), a], ["div", b, c()]], ["mul", a, ["add", b, c()]]]
    e = rng.choice(forms)
    if len(P) > 2:
        e = rng.choice([["add", e, ["mul", c(), P[2]]], ["sub", ["mul", e, P[2]], a]])
    return e


def _sym_build(rng):
    G = FS.G
    pool = ["a", "b", "c", "theta", "phi"]
    depth = rng.choice([2, 2, 3])
    libs = []
    for lv in range(depth):
        name = ["Inner", "Mid", "Outer"][lv] if depth == 3 else ["Inner", "Outer"][lv]
        params = rng.sample(pool[:3] if rng.random() < 0.7 else pool, rng.randint(2, 3))
        k = rng.randint(1, 3) if not libs else rng.randint(len(libs[-1]["modes"]), 3)
        modes = sorted(rng.sample(range(0, 7), k))
        ops, used = [], set()
        def plain_op():
            ps = rng.sample(params, rng.randint(1, len(params)))
            used.update(ps)
            args = [_sym_expr(rng, ps)] + ([["num", "0.25"]] if rng.random() < 0.3 else [])
            kw = {"phi": _sym_expr(rng, rng.sample(params, 2))} if rng.random() < 0.3 else {}
            ops.append({"op": rng.choice(["BSgate", "Dgate", "Rgate", "Sgate"]), "modes": rng.sample(modes, rng.randint(1, min(2, k))), "args": args, "kwargs": kw})
        for _ in range(rng.randint(1, 2)):
            plain_op()
        if libs:
            callee = libs[-1]
            how = rng.choice(["swap", "shift", "swap", "identity", "fresh", "mixed"])
            cp = callee["params"]
            mine = list(params)
            # every callee parameter gets a DIFFERENT caller parameter (or a constant): two callee parameters fed from one caller parameter
            # let SymPy cancel float-coefficient terms before binding (int where the inlined text gives a float) -- reported, kept out here
            if how in ("identity", "fresh"):
                spare = [q for q in mine if how == "fresh" or q not in cp]
                rng.shuffle(spare)
                src = [p if (how == "identity" and p in mine) else (spare.pop() if spare else None) for p in cp]
            else:
                common = [p for p in cp if p in mine]
                base_ = common if len(common) >= 2 else mine
                rot = base_[1:] + base_[:1] if how == "shift" else list(reversed(base_))
                m = dict(zip(base_, rot))
                spare = [q for q in mine if q not in m.values()]
                rng.shuffle(spare)
                src = [m[p] if p in m else (spare.pop() if spare else None) for p in cp]
            seen = set()
            for j, q in enumerate(src):
                if q in seen:
                    src[j] = None
                seen.add(q)
            bind = {}
            for p, q in zip(cp, src):
                r = rng.random()
                if q is None or (how == "mixed" and r < 0.3):
                    bind[p] = ["num", rng.choice(["0.5", "2", "3"])]
                elif r < 0.15:
                    bind[p] = ["mul", ["num", "2"], ["par", q]]
                else:
                    bind[p] = ["par", q]
            used.update(x for e in bind.values() for x in G.leaves(e, "par"))
            ops.insert(rng.randint(0, len(ops)), {"call": callee["name"], "modes": rng.sample(modes, len(callee["modes"])), "bind": bind, "how": how})
        while set(params) - used:
            plain_op()
        libs.append({"name": name, "params": params, "modes": sorted({m for o in ops for m in o["modes"]}), "ops": ops, "file": "%s%s.xbb" % (rng.choice(["", "lib/"]), name.lower())})
    top = libs[-1]
    # values are non-integral floats: with integer values SymPy's cancellation of float constants ((0.25 - b)*2 - 0.5 -> -2*b) turns a value the
    # inlined text computes as a float into an int (numerically equal; reported, kept out of this class)
    vals = dict(zip(top["params"], rng.sample([0.5, 2.5, 1.25, -1.5, 0.75, 3.5, 10.5, -0.25], len(top["params"]))))
    main_ops = [{"call": top["name"], "modes": rng.sample(range(0, 9), len(top["modes"])), "bind": {p: ["num", G.fmt_num(v)] for p, v in vals.items()}}]
    if rng.random() < 0.4:
        main_ops.insert(rng.randint(0, 1), {"op": "Vac", "modes": [rng.randint(0, 8)], "args": None, "kwargs": None})
    how = "+".join(sorted({o["how"] for l in libs for o in l["ops"] if "call" in o}))
    return {"class": "nested-template/depth%d/forwarding-%s" % (depth, how), "input": {"libs": libs, "main": main_ops}}


def _sym_files(inp):
    import posixpath
    G = FS.G
    libs = {l["name"]: l for l in inp["libs"]}

    def line(o):
        m = str(o["modes"][0]) if len(o["modes"]) == 1 else "[%s]" % ", ".join(map(str, o["modes"]))
        if "call" in o:
            return "%s(%s) | %s" % (o["call"], ", ".join("%s=%s" % (k, G.show(e)) for k, e in o["bind"].items()), m)
        if o["args"] is None:
            return "%s | %s" % (o["op"], m)
        return "%s(%s) | %s" % (o["op"], ", ".join([G.show(e) for e in o["args"]] + ["%s=%s" % (k, G.show(e)) for k, e in o["kwargs"].items()]), m)
    files = {}
    for l in inp["libs"]:
        lines = ["name %s" % l["name"], "version 1.0"]
        for c in sorted({o["call"] for o in l["ops"] if "call" in o}):
            lines.append('include "%s"' % posixpath.relpath(libs[c]["file"], posixpath.dirname(l["file"]) or "."))
        files[l["file"]] = "\n".join(lines + [""] + [line(o) for o in l["ops"]]) + "\n"
    top = inp["libs"][-1]
    files["main.xbb"] = "\n".join(["name main", "version 1.0", 'include "%s"' % top["file"], ""] + [line(o) for o in inp["main"]]) + "\n"
    return files


def _sym_expected(inp):
    G = FS.G
    libs = {l["name"]: l for l in inp["libs"]}

    def expand(ops, env, ren):
        out = []
        for o in ops:
            modes = [ren[m] for m in o["modes"]]
            if "call" in o:
                lib = libs[o["call"]]
                out += expand(lib["ops"], {p: G.ev(e, env)[0] for p, e in o["bind"].items()}, dict(zip(sorted(lib["modes"]), modes)))
            elif o["args"] is None:
                out.append({"op": o["op"], "modes": modes})
            else:
                out.append({"op": o["op"], "modes": modes, "args": [G.ev(e, env)[0] for e in o["args"]], "kwargs": {k: G.ev(e, env)[0] for k, e in o["kwargs"].items()}})
        return out
    ident = {m: m for m in range(0, 64)}
    return expand(inp["main"], {}, ident)


def _sym_cases(rng, n, tier):
    out = 0
    while out < n:
        c = _sym_build(rng)
        try:
            _sym_expected(c["input"])
        except FS.G.Unfit:
            continue
        out += 1
        yield c


def _sym_check(case):
    import os
    import shutil
    import tempfile
    import types
    import blackbird
    inp = case["input"]
    files = _sym_files(inp)
    d = os.path.realpath(tempfile.mkdtemp(prefix="verif_incs_"))
    try:
        for rel, text in files.items():
            path = os.path.join(d, rel)
            os.makedirs(os.path.dirname(path), exist_ok=True)
            with open(path, "w") as f:
                f.write(text)
        shown = "\n".join("### %s\n%s" % kv for kv in sorted(files.items()))
        try:
            p = blackbird.load(os.path.join(d, "main.xbb"))
        except Exception as e:
            return {"expected": "the include tree loads\n" + shown, "actual": base.describe_exc(e).replace(d, "@ROOT@")}
        ops = _sym_expected(inp)
        none = {"name": None, "options": {}}
        exp = types.SimpleNamespace(name="main", version="1.0", target=none, programtype=none, parameters=set(), operations=ops, modes={m for o in ops for m in o["modes"]})
        diff = base.program_diff(exp, p, exact=False, rel=1e-9)
        if diff:
            return {"expected": "the textually inlined program (parameters bound simultaneously, call by call): %r\n%s" % (ops, shown), "actual": diff}
        return None
    finally:
        shutil.rmtree(d, ignore_errors=True)


base.register(base.Family("include_sym", ["C07"], _sym_cases, _sym_check, weight=0.15, bound="2-3 nested templates of 2-3 parameters each on 1-3 modes; 6 two/three-parameter forms",
                          rule="abstract tree; oracle = inlining computed from the description with exact Python arithmetic (rel 1e-9)"))


#  * hashseed_y     (C19): bundles of include trees / scripts whose content passes through sets of NAMES: included templates with several
#                    parameters in one (non-symmetric) argument, bound by keyword at the call; the same with stray positional values next to
#                    the keywords; included programs whose arguments are expressions over several measured registers, applied to shifted or
#                    swapped modes; tdm scripts with several p-arrays and further variables (order of the declarations in the dumps text).
#  * include_own_modes (C19, C07): an included program applied to a PERMUTATION OF ITS OWN modes (e.g. a program on {7, 8} applied to [8, 7]),
#                    for mode sets whose iteration order is not the increasing one.

def _hsy_item(rng, kind):
    pnames = rng.sample(["alpha", "beta", "theta", "phi", "a", "ab", "r", "x1", "gam"], rng.randint(2, 4))
    P = lambda: "{%s}" % rng.choice(pnames)
    lname = rng.choice(["Shift", "MachZehnder", "Lib1", "prep"])
    k = rng.randint(1, 3)
    ms = sorted(rng.sample(range(0, 5), k))
    mtxt = lambda m: str(m[0]) if len(m) == 1 else "[%s]" % ", ".join(map(str, m))
    if kind in ("multi-param-template", "positional-next-to-keywords"):
        a, b = rng.sample(pnames, 2)
        forms = ["{%s} - 2*{%s}", "{%s}/{%s}", "{%s}**2 - {%s}", "3*{%s} + {%s}/7", "{%s}*{%s} + {%s}", "{%s} - {%s}*{%s}"]
        lines = ["name %s" % lname, "version 1.0", ""]
        used = set()
        for j in range(rng.randint(2, 4)):
            f = rng.choice(forms if j else forms[:4])
            ps = (rng.sample(pnames, 2) if f.count("%s") == 2 else [rng.choice(pnames)] + rng.sample(pnames, 2)) if j else [a, b]
            used.update(ps)
            arg = f % tuple(ps)
            extra = ", k=%s" % (rng.choice(forms[:4]) % tuple(rng.sample(pnames, 2))) if rng.random() < 0.4 else ""
            lines.append("%s(%s%s) | %s" % (rng.choice(["BSgate", "Dgate", "Rgate", "Sgate"]), arg, extra, mtxt(rng.sample(ms, rng.randint(1, min(2, k))))))
        for p in pnames:
            if "{%s}" % p not in "\n".join(lines):
                lines.append("Zgate({%s}) | %d" % (p, ms[0]))
        for m in ms:
            if not any(("| %d" % m) in l or ("%d]" % m) in l or ("[%d," % m) in l for l in lines):
                lines.append("Vac | %d" % m)
        vals = rng.sample(["8", "3", "0.54", "0.1", "2.5", "-1", "7", "0.25"], len(pnames))
        kw = ["%s=%s" % (p, v) for p, v in zip(pnames, vals)]
        rng.shuffle(kw)
        if kind == "positional-next-to-keywords":
            kw = [rng.choice(["0.3", "5", "-2.5"]) for _ in range(rng.randint(1, 2))] + kw
        call = "%s(%s) | %s" % (lname, ", ".join(kw), mtxt(rng.sample(range(0, 8), k)))
        sub = rng.choice(["", "lib/"])
        main = ["name main", "version 1.0", 'include "%s%s.xbb"' % (sub, lname.lower()), "", "Vac | 0", call]
        return {"class": "include/" + kind, "files": {"%s%s.xbb" % (sub, lname.lower()): "\n".join(lines) + "\n", "main.xbb": "\n".join(main) + "\n"}, "main": "main.xbb"}
    if kind == "register-expressions-on-shifted-modes":
        k = rng.randint(2, 4)
        ms = list(range(k)) if rng.random() < 0.6 else sorted(rng.sample(range(0, 6), k))
        Q = lambda: "q%d" % rng.choice(ms)
        lines = ["name %s" % lname, "version 1.0", ""] + ["%s | %d" % (rng.choice(["MeasureX", "MeasureP", "MeasureHomodyne(phi=0.5)"]), m) for m in ms[:-1]]
        for _ in range(rng.randint(1, 3)):
            r1, r2 = rng.sample(ms, 2)
            f = rng.choice(["q%d - 2*q%d" % (r1, r2), "q%d*q%d + q%d" % (r1, r2, r2), "q%d/(q%d + 3)" % (r2, r1), "2*q%d + 3*q%d - %s" % (r1, r2, Q())])
            kwd = ", phi=q%d - q%d" % (r2, r1) if rng.random() < 0.4 else ""
            lines.append("%s(%s%s) | %d" % (rng.choice(["Dgate", "Zgate", "Xgate"]), f, kwd, ms[-1]))
        how = rng.choice(["shift", "shift", "swap", "permutation"])
        if how == "shift":
            cm = ms[1:] + ms[:1]
        elif how == "swap":
            cm = list(ms)
            cm[0], cm[1] = cm[1], cm[0]
        else:
            cm = rng.sample(ms, k)
        main = ["name main", "version 1.0", 'include "%s.xbb"' % lname.lower(), "", "%s | %s" % (lname, mtxt(cm))]
        if rng.random() < 0.3:
            main.append("%s | %s" % (lname, mtxt([m + 10 for m in ms])))
        return {"class": "include/register-expressions-on-%s-modes" % ("shifted" if how == "shift" else "swapped" if how == "swap" else "permuted"),
                "files": {"%s.xbb" % lname.lower(): "\n".join(lines) + "\n", "main.xbb": "\n".join(main) + "\n"}, "main": "main.xbb"}
    # tdm with several p-arrays and further variables
    lines = ["name %s" % rng.choice(["tdm_prog", "t"]), "version 1.0", "type tdm (temporal_modes=%d)" % rng.randint(2, 3), ""]
    pn = rng.sample(["p0", "p1", "p2", "p3", "p12", "p007", "p5"], rng.randint(2, 5))
    other = rng.sample(["alpha", "n", "B", "zz", "U_1"], rng.randint(0, 3))
    decls = [(nm, True) for nm in pn] + [(nm, False) for nm in other]
    rng.shuffle(decls)
    for nm, isp in decls:
        if isp or nm in ("B", "U_1"):
            ty = rng.choice(["float", "int"])
            lines += ["%s array %s =" % (ty, nm), "    " + ", ".join(str(rng.randint(0, 9)) if ty == "int" else "%d.%d" % (rng.randint(0, 9), rng.randint(0, 9)) for _ in range(rng.randint(2, 4)))]
        else:
            lines.append("%s %s = %s" % (("int", nm, str(rng.randint(1, 9))) if nm == "n" else ("float", nm, "0.%d" % rng.randint(1, 9))))
    lines.append("")
    for nm in pn:
        lines.append("%s(%s) | %d" % (rng.choice(["Sgate", "Rgate", "BSgate"]), rng.choice([nm, "%s, 0.5" % nm, "0.1, phi=%s" % nm]), rng.randint(0, 2)))
    return {"class": "tdm/several-p-arrays", "script": "\n".join(lines) + "\n"}


_HSY_KINDS = ["multi-param-template", "positional-next-to-keywords", "register-expressions-on-shifted-modes", "tdm"]


def _hsy_cases(rng, n, tier):
    thorough = tier != "quick"
    for _ in range(min(n, 6 if thorough else 2)):
        items = [_hsy_item(rng, _HSY_KINDS[j % 4]) for j in range(24 if thorough else 16)]
        seeds = sorted(rng.sample(range(1, 100000), 12 if thorough else 5))
        yield {"class": "+".join(sorted({it["class"].split("/")[0] for it in items})), "input": {"items": items, "seeds": seeds}}


def _hsy_check(case):
    from . import fam_prog as FP
    return FP.hs_check(case)


base.register(base.Family("hashseed_y", ["C19"], _hsy_cases, _hsy_check, parallel=False, weight=0.3,
                          bound="quick: 2 bundles x 16 items x 5 PYTHONHASHSEED values; thorough: 6 x 24 x 12",
                          rule="oracle of hashseed: one canonical description (dumps text, operations, transforms bound by register, parameters, variables) for all seeds"))


def _own_modes_cases(rng, n, tier):
    from . import gen_prog as GP
    pool = list(range(0, 10)) + [15, 16, 17, 24, 31, 32, 33, 64]
    for i in range(n):
        k = rng.choice([2, 2, 2, 3])
        while True:
            ms = rng.sample(pool, k)
            if max(ms) >= 8 or i % 2:
                break
        params = rng.sample(["theta", "phi", "a"], rng.randint(1, 2)) if rng.random() < 0.4 else []
        lib = GP.gen_lib(rng, rng.choice(GP.LIB_NAMES), ms, params, [], 1)
        lib.update({"dir": rng.choice(["", "sub"]), "file": "lib_0.xbb", "includes": []})
        own = list(lib["modeset"])
        perms = [list(reversed(own)), own[1:] + own[:1], rng.sample(own, len(own))]
        ops = []
        for cm in perms[:rng.randint(1, 3)]:
            ops.append({"call": lib["name"], "modes": cm, "bind": {p: {"const": rng.choice(["0.54", "0.1", "2"])} for p in lib["params"]}})
            if rng.random() < 0.3:
                ops.append({"op": "Vac", "modes": [rng.choice(own)], "args": None, "kwargs": None})
        inp = {"libs": [lib], "main": {"dir": "", "file": "main.xbb", "name": "test_include", "version": "0.0", "includes": [{"lib": lib["name"], "style": "rel"}], "ops": ops,
                                       "loop_call": None}, "nest_styles": {lib["name"]: {}}, "cwd": "unrelated", "load": "abs", "negative": None}
        yield {"class": "own-modes-permuted/%d-modes" % len(own), "input": inp}


def _own_modes_check(case):
    from . import fam_prog as FP
    return FP.inc_check(case)


base.register(base.Family("include_own_modes", ["C19", "C07"], _own_modes_cases, _own_modes_check, weight=0.1,
                          bound="programs on 2-3 modes out of 0..9, 15-17, 24, 31-33, 64, applied 1-3 times to permutations of exactly these modes",
                          rule="oracle of include_inline (inlining with the modes, in increasing order, renamed to the modes listed at the call): the loaded content must not "
                               "depend on the order in which the SET of modes happens to be iterated"))


#  * serialize_repr (C09, C01): the text dumps() writes depends on the VALUES of a program only -- not on how an array is laid out in memory
#                    (C order, Fortran order, a transposed view of the transposed data) and not on NumPy's print options of the process
#                    (legacy mode, low precision, suppress): metamorphic checks on API-built programs with arrays and NumPy scalars.

def _repr_cases(rng, n, tier):
    from . import gen_prog as GP
    foci = ["arrays-multi", "arrays-multi", "mixed", "lists-kw", "sym-positional"]
    for i in range(n):
        cls, rec = GP.gen_api_recipe(rng, foci[i % len(foci)])
        yield {"class": "repr-independence/" + ("layout" if i % 2 == 0 else "print-options") + "/" + cls.split("/")[0],
               "input": {"recipe": rec, "how": "layout" if i % 2 == 0 else "print-options"}}


def _relayout(v):
    import numpy as np
    if isinstance(v, np.ndarray) and v.ndim == 2:
        w = np.asfortranarray(v) if v.flags["C_CONTIGUOUS"] else np.ascontiguousarray(v)
        if min(v.shape) >= 2:
            w = np.ascontiguousarray(v.T).T          # a transposed view: equal values, strides swapped
        return w
    if isinstance(v, list):
        return [_relayout(x) for x in v]
    return v


def _repr_check(case):
    import numpy as np
    import blackbird
    from . import gen_prog as GP
    rec, how = case["input"]["recipe"], case["input"]["how"]
    p = GP.build_program(rec)
    try:
        ref = blackbird.dumps(p)
    except Exception as e:                                   # noqa: what dumps refuses is the business of api_serialize
        return None
    q = GP.build_program(rec)
    if how == "layout":
        for op in q.operations:
            if "args" in op:
                op["args"][:] = [_relayout(a) for a in op["args"]]
                for k in list(op.get("kwargs", {})):
                    op["kwargs"][k] = _relayout(op["kwargs"][k])
        for k in list(q.variables):
            q.variables[k] = _relayout(q.variables[k])
        try:
            got = blackbird.dumps(q)
        except Exception as e:
            return {"expected": "dumps succeeds for equal values in another memory layout", "actual": "%s: %s" % (type(e).__name__, e)}
        if got != ref:
            return {"expected": "the same text for arrays with equal values in Fortran order / as transposed views:\n" + ref[:500], "actual": got[:500]}
        return None
    saved = np.get_printoptions()
    try:
        np.set_printoptions(precision=3, suppress=True, floatmode="fixed", legacy="1.13")
        got = blackbird.dumps(q)
    except Exception as e:
        return {"expected": "dumps succeeds whatever NumPy's print options are", "actual": "%s: %s" % (type(e).__name__, e)}
    finally:
        np.set_printoptions(**{k: v for k, v in saved.items() if k != "legacy"})
        np.set_printoptions(legacy=saved.get("legacy") or False)
    if got != ref:
        return {"expected": "the same text under np.set_printoptions(precision=3, suppress=True, floatmode='fixed', legacy='1.13'):\n" + ref[:500], "actual": got[:500]}
    return None


base.register(base.Family("serialize_repr", ["C09", "C01"], _repr_cases, _repr_check, weight=0.08, parallel=False,
                          bound="API-built programs with arrays / NumPy scalars; every 2-D array re-laid out (Fortran order, transposed view) or the process's NumPy print options changed",
                          rule="metamorphic: dumps() text is a function of the values alone"))


#  * loop_header_scope (C02): the values listed in a for-loop header are the values of the written expressions where the header stands: a
#                    header that mentions a variable declared earlier -- also one with the NAME of the loop variable -- is evaluated before the
#                    first iteration binds the loop variable. Only the operations are compared (what happens to a shadowed outer variable
#                    after the loop is outside the statements: C06 speaks about loop variables "not declared elsewhere").

def _lhs_cases(rng, n, tier):
    for i in range(n):
        outer = rng.choice(["m", "k", "idx", "n0"])
        loopv = outer if i % 2 == 0 else rng.choice(["j", "t"])
        a = rng.randint(0, 6)
        offs = [rng.randint(0, 4) for _ in range(rng.randint(2, 4))]
        items = [outer if o == 0 else "%s+%d" % (outer, o) for o in offs]
        style = rng.choice(["[%s]", "(%s)", "%s"])
        use = rng.choice(["G(%s) | 0", "G | %s", "G(1, x=%s) | 0"])
        lines = ["name t", "version 1.0", "", "int %s = %d" % (outer, a), "for int %s in %s" % (loopv, style % ", ".join(items)), "    " + use % loopv, "Vac | 9"]
        ops = []
        for o in offs:
            v = a + o
            if use.startswith("G |"):
                ops.append({"op": "G", "modes": [v], "args": None, "kwargs": None})
            elif "x=" in use:
                ops.append({"op": "G", "modes": [0], "args": [1], "kwargs": {"x": v}})
            else:
                ops.append({"op": "G", "modes": [0], "args": [v], "kwargs": {}})
        ops.append({"op": "Vac", "modes": [9], "args": None, "kwargs": None})
        yield {"class": "header-mentions-%s" % ("the-shadowed-outer-variable" if loopv == outer else "an-outer-variable"),
               "input": {"script": "\n".join(lines) + "\n", "ops": ops}}


def _lhs_check(case):
    import blackbird
    try:
        p = blackbird.loads(case["input"]["script"])
    except Exception as e:
        return {"expected": "the script loads: %r" % case["input"]["ops"], "actual": "%s: %s" % (type(e).__name__, e)}
    got = [{"op": o["op"], "modes": [int(m) for m in o["modes"]], "args": ([int(a) for a in o["args"]] if "args" in o else None),
            "kwargs": ({k: int(v) for k, v in o["kwargs"].items()} if "kwargs" in o else None)} for o in p.operations]
    if got != case["input"]["ops"]:
        return {"expected": repr(case["input"]["ops"]), "actual": repr(got)}
    return None


base.register(base.Family("loop_header_scope", ["C02"], _lhs_cases, _lhs_check, weight=0.06, bound="one int variable, one loop over 2-4 header expressions var+k, 3 bracket styles, 3 uses",
                          rule="header expressions are evaluated with the variables declared before the loop; operations compared exactly"))
