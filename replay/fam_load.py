"""Witness families for loading (C02, C03, C05, C06, C18): generated scripts vs the program they were printed from.

Every case carries the script text and the expected outcome as plain data (see replay/gen.py); check() depends on
case["input"] only.  The oracle is the abstract program / the property statement, never blackbird itself.

  input["expected"] is either a program {name, version, target, type, operations, variables}
                    or an error spec   {"error": "any" | "<exception class name>", "match": "<substring>"}
"""
from . import base
from . import gen as G

REL = 1e-12

try:                                                               # import once, before replay/run.py forks its pool: otherwise
    import blackbird as _warm                                      # every worker pays the sympy/antlr import (~0.7 s x 16)
    _warm.loads("name a\nversion 1.0\nfloat array A[1, 2] =\n    1, 2\nfor int i in 0:2\n    G(A[i] / 2, k=[1, 2j]) | [i, 1]\n")
except Exception:                                                  # a broken tree shows up in check() as an engine error
    _warm = None


# ---------------------------------------------------------------------------------------------------------------------
# running the real code / comparing

def _load(script):
    import blackbird                                               # whichever tree PYTHONPATH points at
    try:
        return blackbird.loads(script), None
    except Exception as e:                                         # noqa: the outcome *is* the exception
        return None, e


class _View:
    """expected program in the shape base.program_diff reads"""

    def __init__(self, exp):
        self.name, self.version = exp["name"], exp["version"]
        self.target = {"name": exp["target"]["name"], "options": {k: G.dec(v) for k, v in exp["target"]["options"]}}
        self.programtype = {"name": exp["type"]["name"], "options": {k: G.dec(v) for k, v in exp["type"]["options"]}}
        self.parameters = set()
        self.operations = []
        for o in exp["operations"]:
            d = {"op": o["op"], "modes": list(o["modes"])}
            if "args" in o:
                d["args"] = [G.dec(a) for a in o["args"]]
                d["kwargs"] = {k: G.dec(v) for k, v in o["kwargs"]}
            self.operations.append(d)
        self.modes = set(m for o in self.operations for m in o["modes"])          # union of all modes used
        self.variables = {k: G.dec(v) for k, v in exp.get("variables", [])}


def _vars_diff(actual, expected):
    import numpy as np
    if set(actual) != set(expected):
        return "variables %r vs %r" % (sorted(actual), sorted(expected))
    for k, b in expected.items():
        a = actual[k]
        if isinstance(b, np.ndarray):
            if not isinstance(a, np.ndarray):
                return "variable %s: not an array: %r" % (k, a)
            if a.ndim != 2 or a.shape != b.shape:
                return "variable %s: shape %r vs %r" % (k, a.shape, b.shape)
            if a.dtype.kind != b.dtype.kind:
                return "variable %s: dtype %s vs %s" % (k, a.dtype, b.dtype)
            for r in range(b.shape[0]):
                for c in range(b.shape[1]):
                    x, y = a[r, c], b[r, c]
                    ok = (int(x) == int(y)) if b.dtype.kind == "i" else base.num_close(x, y, REL)
                    if not ok:
                        return "variable %s: element (%d, %d) %r vs %r" % (k, r, c, x, y)
        elif not base.value_equiv(a, b, False, REL):
            return "variable %s: %r (%s) vs %r (%s)" % (k, a, base.kind(a), b, base.kind(b))
    return None


def _program_vs_expected(p, exp, check_vars=True):
    v = _View(exp)
    d = base.program_diff(p, v, exact=False, rel=REL)
    if d:
        return d
    if len(p) != len(v.operations):
        return "len() %d vs %d operations" % (len(p), len(v.operations))
    if any(base.kind(m) != "int" for m in p.modes):
        return "mode set holds non-integers: %r" % (p.modes,)
    if check_vars:
        return _vars_diff(p.variables, v.variables)
    return None


def _short(exp):
    if "error" in exp:
        return "rejected (%s%s)" % (exp["error"], (": ..." + exp["match"] + "...") if exp.get("match") else "")
    return "program %s" % ({"operations": exp["operations"], "variables": exp.get("variables", [])},)


def _check_outcome(script, exp, check_vars=True):
    """None or failure dict: the real outcome of loading `script` against the expected program / error spec"""
    p, err = _load(script)
    if "error" in exp:
        if err is None:
            return {"expected": _short(exp), "actual": "accepted: operations %r variables %r" % (p.operations, p.variables)}
        if exp["error"] != "any" and type(err).__name__ != exp["error"]:
            return {"expected": _short(exp), "actual": base.describe_exc(err)}
        if exp.get("match") and exp["match"] not in str(err):
            return {"expected": _short(exp), "actual": base.describe_exc(err)}
        return None
    if err is not None:
        return {"expected": _short(exp)[:1500], "actual": base.describe_exc(err)}
    d = _program_vs_expected(p, exp, check_vars)
    if d:
        return {"expected": _short(exp)[:1500], "actual": d}
    return None


def check_script(case):
    i = case["input"]
    r = _check_outcome(i["script"], i["expected"])
    if r is None and i.get("strict_rel") is not None:
        # C03 "relative 1e-12": for results of tiny magnitude the mixed absolute/relative tolerance of base.num_close says nothing
        p, _ = _load(i["script"])
        actual = complex(p.operations[-1]["args"][0])
        want = complex(*i["strict_rel"])
        if abs(actual - want) > 1e-12 * abs(want):
            return {"expected": "value %r within relative 1e-12" % (want,), "actual": "%r (relative error %.3g)" % (actual, abs(actual - want) / abs(want))}
    return r


# ---------------------------------------------------------------------------------------------------------------------
# load_denote (C02, part of C06)

def _prog_class(prog):
    order = ["target-options", "type", "scalars", "arrays", "loop", "loop-empty", "measure"]
    tags = [t for t in order if t in prog.feats]
    return "program/" + ("+".join(tags) if tags else "plain")


def cases_load_denote(rng, n, tier):
    big = tier != "quick"
    for _ in range(n):
        prog = G.gen_program(rng, max_items=9 if big else 7, depth=3 if big else 2)
        yield {"class": _prog_class(prog), "input": {"script": prog.script(), "expected": prog.expected}}


base.register(base.Family(
    "load_denote", ["C02", "C06"], cases_load_denote, check_script,
    bound="random abstract programs: <= 9 top-level items, <= 2 loops, expression depth <= 3, modes <= 12",
    rule="script printed from an abstract program (metadata with options, typed scalars, arrays, statements in every "
         "argument/mode style, Measure*, range and list loops); distinct = distinct script text; oracle = the abstract "
         "program evaluated exactly (Fraction/mpmath), compared with rel 1e-12, integer kinds exact",
    weight=1.0))


# ---------------------------------------------------------------------------------------------------------------------
# expr_value (C03)

def _expr_case(rng, deep):
    prog = G.Prog()
    G.gen_metadata(rng, prog, minimal=True)
    env = prog.env
    if rng.random() < 0.5:
        for _ in range(rng.randint(1, 3)):
            if rng.random() < 0.6:
                G.gen_scalar(rng, prog, t=rng.choice(["int", "float", "complex"]), depth=1)
            else:
                G.gen_array(rng, prog, rows=rng.choice([1, 2, 3]), cols=rng.choice([1, 2, 3]))
    pos = rng.choice(["arg", "arg", "arg", "arg", "arg", "arg", "kwarg", "kwlist", "init-float", "init-complex", "init-int", "arg2"])
    want = {"init-float": "real", "init-int": "int"}.get(pos, "any")
    r = rng.random()
    strict = False
    if r < 0.06:
        pos, want = "arg", "any"
    if r < 0.06 and want != "int":
        strict = True
        # a named function at an argument where the RELATIVE accuracy of the result matters: tiny arguments, arguments near zeros
        # of the function, many significant digits (absolute rounding / truncation of results shows up only here)
        f = rng.choice(["sin", "tan", "sinh", "tanh", "arcsin", "arctan", "arcsinh", "arctanh", "sin", "cos", "tan", "exp", "log", "sqrt"])
        if f == "cos":
            t = rng.choice(["1.5707", "1.57079", "4.7123", "1.570796"])
        elif f == "log":
            t = rng.choice(["1.0000001234567", "1.00001234", "0.99999912345"])
        elif f in ("exp", "sqrt"):
            t = "%d.%de-%d" % (rng.randint(1, 9), rng.randint(100000, 999999999), rng.randint(5, 9))
        else:
            t = rng.choice(["%d.%de-%d" % (rng.randint(1, 9), rng.randint(100000, 999999999), rng.randint(4, 12)), "3.1415", "3.14159", "6.2831"]) \
                if f in ("sin", "tan") else "%d.%de-%d" % (rng.randint(1, 9), rng.randint(100000, 999999999), rng.randint(4, 12))
        val = G.Fraction(t)
        e = ("fn", f, ("num", t, G.V("float", val, G.ZERO, G.lit_err(val)), "float-smallarg"))
        try:
            v = G.ev(e, env)
        except G.Bad:
            strict = False
            e, v = G.gen_expr(rng, env, 3, want)
    elif r < 0.22 and want != "int":
        e, _ = G.special_tree(rng, env)
        v = G.ev(e, env)
        if want == "real" and v.k == "complex":
            e, v = G.gen_expr(rng, env, 3, want)
    elif r < 0.30:
        e = G.literal(rng, want)
        v = e[2]
    else:
        e, v = G.gen_expr(rng, env, (5 if deep else 4), want, mindepth=1)
    cls = G.classify(e, env)
    text = G.show(e)
    if pos in ("arg", "arg2", "kwarg", "kwlist"):
        s = G.Stmt()
        s.op, s.has_args, s.args, s.kwargs, s.style = rng.choice(["G", "Sgate", "MeasureX"]), True, [], [], ""
        s.modes = [G._ilit(0)]
        if pos == "arg":
            s.args = [e]
        elif pos == "arg2":
            s.args = [G._ilit(1), e]
        elif pos == "kwarg":
            s.kwargs = [("phi", e)]
        else:
            s.kwargs = [("phi", ("list", [G._ilit(7), e]))]
        prog.add("stmt", s.text())
        prog.expected["operations"].append(s.denote(env))
    else:
        t = pos.split("-")[1]
        name = "val" if "val" not in env else "val_1"
        prog.add("decl", "%s %s = %s" % (t, name, text))
        prog.expected["variables"].append([name, G.enc(G.cast(v, t))])
    inp = {"script": prog.script(), "expected": prog.expected, "expression": text, "position": pos}
    if strict and v.k in ("int", "float") and v.re != 0:
        # the literal denotes the double CPython reads from it; the function of THAT number, to 50 digits
        import mpmath as _mp
        _mp.mp.dps = 50
        fn = {"arcsin": "asin", "arccos": "acos", "arctan": "atan", "arcsinh": "asinh", "arccosh": "acosh", "arctanh": "atanh"}.get(e[1], e[1])
        inp["strict_rel"] = [float(getattr(_mp, fn)(_mp.mpf(float(e[2][1])))), 0.0]
    return {"class": cls, "input": inp}


def cases_expr_value(rng, n, tier):
    for _ in range(n):
        yield _expr_case(rng, tier != "quick")


base.register(base.Family(
    "expr_value", ["C03"], cases_expr_value, check_script,
    bound="expression depth <= 4 (thorough 5), |value| < 1e15, integers within int64, function arguments real and inside "
          "the domains, running rounding-error bound <= 1e-13 (well-conditioned expressions only)",
    rule="one expression printed with minimal parentheses under the stated binding order, in argument / keyword / list / "
         "initialiser position; leaves: every literal form, pi, declared scalars, array elements; oracle: exact rational / "
         "160-bit mpmath value of the tree, kind int iff built from + - * ** (non-negative exponent) on integers; rel 1e-12",
    weight=1.0))


# ---------------------------------------------------------------------------------------------------------------------
# decl_types (C05)

def _decl_positive(rng):
    prog = G.Prog()
    G.gen_metadata(rng, prog, minimal=True)
    labels = []
    for _ in range(rng.randint(1, 3)):
        if rng.random() < 0.5:
            labels.append(G.gen_scalar(rng, prog))
        else:
            labels.append(G.gen_array(rng, prog, depth=rng.choice([0, 1, 1, 2])))
        if rng.random() < 0.2:
            prog.add("blank", "")
    env = prog.env
    # read every declared thing back through statements: scalars by name, arrays element by element (row-major A[k])
    budget = 6
    for name in list(env):
        if budget <= 0:
            break
        v = env[name]
        s = G.Stmt()
        s.op, s.has_args, s.kwargs, s.style, s.modes = "G", True, [], "", [G._ilit(0)]
        if isinstance(v, dict):
            size = len(v["rows"]) * len(v["rows"][0])
            ks = list(range(size)) if size <= 6 else sorted(rng.sample(range(size), 6))
            s.args = [("idx", name, G._ilit(k)) for k in ks]
            labels.append("index/row-major")
        else:
            s.args = [("var", name)]
        prog.add("stmt", s.text())
        prog.expected["operations"].append(s.denote(env))
        budget -= 1
    labels = [l for l in labels if l]
    cls = labels[0] if labels else "scalar/none"
    arr = [l for l in labels if l.startswith("array/")]
    if arr:
        cls = arr[0]
    return {"class": cls, "input": {"script": prog.script(), "expected": prog.expected}}


def _rows_text(rng, t, lens):
    rows = []
    for n in lens:
        cells = []
        for _ in range(n):
            if t == "int":
                cells.append(str(rng.randint(0, 9)))
            elif t == "float":
                cells.append(rng.choice([str(rng.randint(0, 9)), "%d.%d" % (rng.randint(0, 9), rng.randint(0, 9))]))
            else:
                cells.append(rng.choice([str(rng.randint(0, 9)), "%d+%dj" % (rng.randint(0, 9), rng.randint(0, 9)), "%dj" % rng.randint(1, 9)]))
        rows.append("    " + ", ".join(cells))
    return rows


def _decl_negative(rng):
    t = rng.choice(["int", "float", "complex"])
    name = rng.choice(G.ARR_NAMES)
    kind = rng.choice(["ragged", "ragged", "ragged-divisible", "shape-transposed", "shape-same-count", "shape-other", "ragged-declared"])
    shape = None
    if kind.startswith("ragged"):
        r = rng.randint(2, 4)
        while True:
            lens = [rng.randint(1, 4) for _ in range(r)]
            if len(set(lens)) > 1 and (kind != "ragged-divisible" or sum(lens) % r == 0):
                break
        if kind == "ragged-declared":                               # declared shape that the element count would even fit
            tot = sum(lens)
            shape = (r, tot // r) if tot % r == 0 else (r, max(lens))
    else:
        r, c = rng.randint(1, 4), rng.randint(1, 4)
        if kind == "shape-transposed":
            while r == c:
                c = rng.randint(1, 4)
            shape = (c, r)
        elif kind == "shape-same-count":
            n = r * c
            cands = [(a, n // a) for a in range(1, n + 1) if n % a == 0 and (a, n // a) != (r, c)]
            if not cands:                                           # 1x1: no other factorisation
                r, c = 2, 3
                cands = [(1, 6), (6, 1), (3, 2)]
            shape = rng.choice(cands)
        else:
            shape = rng.choice([(r + 1, c), (r, c + 1), (r + 1, c + 1), (max(1, r - 1), c + 1)])
            if shape == (r, c):
                shape = (r + 1, c)
        lens = [c] * r
    lines = ["name %s" % rng.choice(G.PROG_NAMES), "version 1.0", "",
             "%s array %s%s =" % (t, name, "[%d, %d]" % shape if shape else "")] + _rows_text(rng, t, lens)
    if rng.random() < 0.6:
        lines += ["", "G(%s[0]) | 0" % name]
    return {"class": "neg/" + kind, "input": {"script": "\n".join(lines) + "\n", "expected": {"error": "any"},
                                               "note": "rows %r, declared shape %r" % (lens, shape)}}


def cases_decl_types(rng, n, tier):
    for _ in range(n):
        yield _decl_negative(rng) if rng.random() < 0.3 else _decl_positive(rng)


base.register(base.Family(
    "decl_types", ["C05"], cases_decl_types, check_script,
    bound="1-3 declarations per script; arrays up to 4x4; initialiser depth <= 2; negative cases: 2-4 ragged rows, "
          "declared shapes up to 5x5",
    rule="typed scalar (int/float/complex/bool/str) and array (int/float/complex, with/without shape) declarations with "
         "type-compatible parameter-free initialisers, read back via program.variables and via G(x) / G(A[k]) for every k "
         "(row-major); negative: rows of different lengths, declared shape != rows x cols (transposed, same element count, "
         "other) must raise",
    weight=1.0))


# ---------------------------------------------------------------------------------------------------------------------
# forloop_unroll (C06)

def _loop_prog(rng, header=None, post=True):
    prog = G.Prog()
    G.gen_metadata(rng, prog, minimal=rng.random() < 0.7)
    if rng.random() < 0.5:
        G.gen_scalar(rng, prog, t=rng.choice(["int", "int", "float"]), depth=1)
    if rng.random() < 0.5:
        G.gen_array(rng, prog, t=rng.choice(["int", "float", "float", "complex"]), rows=rng.choice([1, 2]), cols=rng.choice([2, 3, 4]), depth=0)
    if rng.random() < 0.5:
        G.add_stmt(rng, prog, 1)
    info = G.gen_loop(rng, prog, header=header)
    if post:
        for _ in range(rng.choice([0, 1, 1, 2])):
            if rng.random() < 0.25:
                prog.add("blank", "")
            G.add_stmt(rng, prog, 1)
    return prog, info


def _loop_positive(rng):
    prog, (cls, var, t, values) = _loop_prog(rng)
    if rng.random() < 0.12:                                          # a second loop re-using nothing of the first
        G.gen_loop(rng, prog)
        cls += "+second-loop"
    return {"class": cls, "input": {"script": prog.script(), "unrolled": prog.unrolled_script(), "expected": prog.expected}}


def _loop_scope(rng):
    prog, (cls, var, t, values) = _loop_prog(rng, header=rng.choice(["range2", "range3", "range-empty", "list-int", "list-float", "list-bool", "list-str"]),
                                             post=rng.random() < 0.4)
    where = rng.choice(["arg", "arg-expr", "mode", "kwarg", "kwlist", "index"]) if t == "int" else rng.choice(["arg", "kwarg", "kwlist"])
    if where == "index" and not prog.env.arrays(("int", "float", "complex")):
        where = "arg"
    use = {"arg": "G(%s) | 0" % var, "arg-expr": "G(2 * %s + 1) | 0" % var, "mode": "G | %s" % var, "kwarg": "G(phi=%s) | 0" % var,
           "kwlist": "G(phi=[1, %s]) | 0" % var}
    if where == "index":
        use["index"] = "G(%s[%s]) | 0" % (rng.choice(prog.env.arrays(("int", "float", "complex"))), var)
    prog.add("stmt", use[where])
    return {"class": "scope/after-%sloop/%s" % ("empty-" if not values else "", where),
            "input": {"script": prog.script(), "expected": {"error": "BlackbirdSyntaxError", "match": "not defined"}}}


def _loop_refuse(rng):
    kind = rng.choice(["float-in-int", "float-in-int", "str-in-int", "int-in-str", "complex-in-int", "complex-in-float", "str-in-float",
                       "computed-float-in-int"])
    t = kind.split("-in-")[1]
    good = {"int": lambda: str(rng.randint(0, 5)), "float": lambda: "%d.%d" % (rng.randint(0, 5), rng.randint(0, 9)),
            "str": lambda: '"%s"' % rng.choice(["a", "b c", "x"])}[t]
    bad = {"float": lambda: "%d.%s" % (rng.randint(0, 5), rng.choice(["5", "25", "1"])), "str": lambda: '"%s"' % rng.choice(["a", "2", "x y"]),
           "int": lambda: str(rng.randint(0, 5)), "complex": lambda: rng.choice(["2j", "1+2j", "0.5j"]),
           "computed-float": lambda: rng.choice(["1 / 2", "3 * 0.5", "7 / 2", "2 ** -1"])}[kind.split("-in-")[0]]
    items = [good() for _ in range(rng.randint(0, 2))]
    items.insert(rng.randint(0, len(items)), bad())
    style = rng.choice(["[]", "()", ""])
    h = ", ".join(items)
    if style:
        h = style[0] + h + style[1]
    var = rng.choice(G.LOOP_NAMES)
    body = "    G(%s) | 0" % var if t != "int" or rng.random() < 0.5 else "    G(0.5) | 0"
    lines = ["name %s" % rng.choice(G.PROG_NAMES), "version 1.0", "", "for %s %s in %s" % (t, var, h), body]
    if rng.random() < 0.5:
        lines.append("Vac | 1")
    return {"class": "refuse/" + kind, "input": {"script": "\n".join(lines) + "\n", "expected": {"error": "any"}}}


def cases_forloop_unroll(rng, n, tier):
    for _ in range(n):
        r = rng.random()
        if r < 0.72:
            yield _loop_positive(rng)
        elif r < 0.87:
            yield _loop_scope(rng)
        else:
            yield _loop_refuse(rng)


def check_forloop(case):
    i = case["input"]
    exp = i["expected"]
    if "error" in exp:
        return _check_outcome(i["script"], exp)
    p, err = _load(i["script"])
    if err is not None:
        return {"expected": _short(exp)[:1500], "actual": base.describe_exc(err)}
    d = _program_vs_expected(p, exp)
    if d:
        return {"expected": _short(exp)[:1500], "actual": d}
    q, err = _load(i["unrolled"])
    if err is not None:
        return {"expected": "the unrolled script loads (it denotes the same program)", "actual": "unrolled script: " + base.describe_exc(err)}
    d = _program_vs_expected(q, exp)
    if d:
        return {"expected": _short(exp)[:1500], "actual": "unrolled script: " + d}
    d = base.program_diff(p, q, exact=False, rel=REL, check_vars=True)
    if d:
        return {"expected": "loop script and unrolled script give the same program", "actual": d}
    return None


base.register(base.Family(
    "forloop_unroll", ["C06"], cases_forloop_unroll, check_forloop,
    bound="ranges a:b[:c] with 0 <= a <= 5, b <= a+6, 1 <= c <= 3 (incl. empty); lists of 1-3 values; bodies of 1-3 "
          "statements; <= 2 loops; statements before/after",
    rule="loop script vs its textual unrolling (loop variable replaced by the literal of the converted value) vs the "
         "abstract program; int/float ranges, bracketed/parenthesised/bare int/float/bool/str lists, expression-valued and "
         "converted values (2.0 in an int list); loop variable in modes, arguments, keyword arguments, lists, array "
         "indices; negative: use of the loop variable after the loop -> BlackbirdSyntaxError 'not defined'; listed value "
         "not of the loop type -> exception",
    weight=1.0))


# ---------------------------------------------------------------------------------------------------------------------
# layout_edits (C18)

def cases_layout_edits(rng, n, tier):
    for _ in range(n):
        prog = G.gen_program(rng, max_items=5, depth=1, p_blank=0.1)
        tail = rng.random() < 1.0 / 40
        if tail:
            if prog.lines[-1][0] == "blank":
                prog.lines.pop()
            if prog.lines[-1][0] != "arrrow":
                G.gen_array(rng, prog, rows=rng.choice([1, 2]), cols=rng.choice([1, 2, 3]), depth=0)
            tail = prog.lines[-1][0] == "arrrow"
        text, edits, tail_hit = G.layout_variant(rng, prog.lines, force_array_tail=tail)
        assert tail_hit == tail
        if tail:
            cls = "final-newline-after-array-row"
        else:
            cls = "layout/" + ("crlf" if "crlf" in edits else "cr" if "cr" in edits else "lf")
        yield {"class": cls, "input": {"script": text, "base": prog.script(), "edits": edits}}


def check_layout(case):
    i = case["input"]
    p, err = _load(i["base"])
    if err is not None:
        return {"expected": "the base script loads", "actual": "base script: " + base.describe_exc(err), "class": "layout/base-rejected"}
    q, err = _load(i["script"])
    if err is not None:
        return {"expected": "same program as the base layout (operations %r)" % (p.operations,), "actual": base.describe_exc(err)}
    d = base.program_diff(p, q, exact=True, check_vars=True)
    if d:
        return {"expected": "same program as the base layout", "actual": d}
    return None


base.register(base.Family(
    "layout_edits", ["C18"], cases_layout_edits, check_layout,
    bound="scripts of <= 6 top-level items; per script one random combination of the edits (probabilities 0-0.5 per "
          "boundary/line)",
    rule="metamorphic: generated valid script vs the same script with # comments (line ends, own lines outside array "
         "bodies), blank lines (between statements, before the metadata), runs of 1-3 spaces at token boundaries and line "
         "ends (never next to indentation), LF/CRLF/CR, tab vs four spaces, final newline present/absent; programs must be "
         "identical (exact). 1 case in 40: last line an array row without final newline "
         "(class final-newline-after-array-row)",
    weight=1.0))
