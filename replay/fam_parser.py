"""Witness family for C14/C10: the shipped Python parser's accept/reject verdict against an independent reading of the PARSER rules of
src/blackbird.g4.

Reference side: the EBNF alternatives of the g4 TEXT (atnk/g4.py, never the shipped ATN) are lowered to plain BNF and membership of a token
sequence is decided by an Earley recogniser over token-type names (the left-recursive rule `expression` is used as written; precedence and
associativity do not change the language). Real side: blackbirdParser(...).start() with a collecting error listener; accept = no syntax error.
Both sides see the token sequence of the SHIPPED lexer (default channel), so this family isolates the parser (the lexer: family lexer_tokens).
"""
import os
import re

from . import base

# ------------------------------------------------------------------------------------------------------ g4 parser rules -> BNF
_BNF = {}
_UNKNOWN_TERMINAL = -(10 ** 6)


class _Bnf(object):
    """symbols are ints: nonterminal >= 0, terminal < 0 (EOF = -1, k-th token rule of the g4 = -(k+1)).
    Dotted rules are numbered consecutively per production: state s has NEXT[s] (symbol after the dot, None at the end), LHS[s];
    advancing the dot is s + 1."""

    def __init__(self, grammar):
        from atnk import g4 as G4
        self.G4 = G4
        self.grammar = grammar
        self.term = {"EOF": -1}
        for k, r in enumerate(grammar.token_rules(), 1):
            self.term[r.name] = -(k + 1)
        self.term_name = dict((v, k) for k, v in self.term.items())
        self.nt = {}
        self.nt_name = []
        self.prods = []                                   # (lhs, tuple of symbols)
        for r in grammar.parser_rules:
            self._new_nt(r.name)
        for r in grammar.parser_rules:
            for a in r.alts:
                self.prods.append((self.nt[r.name], tuple(self._seq(a["items"], r.name))))
        if "start" not in self.nt:
            raise G4.G4Error("the grammar has no rule `start`")
        self.goal = self._new_nt("<goal>")
        self.prods.append((self.goal, (self.nt["start"],)))
        self._tables()

    def _new_nt(self, name):
        self.nt[name] = len(self.nt_name)
        self.nt_name.append(name)
        return self.nt[name]

    def _fresh(self, owner, what):
        return self._new_nt("%s/%s#%d" % (owner, what, len(self.nt_name)))

    def _seq(self, items, owner):
        out = []
        for it in items:
            out.extend(self._lower(it, owner))
        return out

    def _alternatives(self, node, owner):
        """the alternatives (symbol lists) of a sub-expression"""
        if node[0] == "alt":
            return [self._seq(s[1], owner) for s in node[1]]
        return [self._lower(node, owner)]

    def _lower(self, node, owner):
        """-> list of symbols standing for the element; fresh nonterminals are created for sub-blocks and ? * +"""
        k = node[0]
        if k == "tok":
            if node[1] not in self.term:
                raise self.G4.G4Error("parser rule %s uses unknown token %s" % (owner, node[1]))
            return [self.term[node[1]]]
        if k == "littok":
            for r in self.grammar.token_rules():
                if self.G4.single_literal(r) == node[1]:
                    return [self.term[r.name]]
            raise self.G4.G4Error("parser rule %s uses literal '%s' that no token rule defines" % (owner, node[1]))
        if k == "ref":
            if node[1] not in self.nt:
                raise self.G4.G4Error("parser rule %s references unknown rule %s" % (owner, node[1]))
            return [self.nt[node[1]]]
        if k == "seq":
            return self._seq(node[1], owner)
        if k == "alt":
            alts = self._alternatives(node, owner)
            if len(alts) == 1:
                return alts[0]
            n = self._fresh(owner, "block")
            for a in alts:
                self.prods.append((n, tuple(a)))
            return [n]
        if k == "?":
            n = self._fresh(owner, "opt")
            self.prods.append((n, ()))
            for a in self._alternatives(node[1], owner):
                self.prods.append((n, tuple(a)))
            return [n]
        if k == "*":
            n = self._fresh(owner, "star")
            self.prods.append((n, ()))
            for a in self._alternatives(node[1], owner):
                self.prods.append((n, tuple([n] + a)))
            return [n]
        if k == "+":
            n = self._fresh(owner, "plus")
            for a in self._alternatives(node[1], owner):
                self.prods.append((n, tuple(a)))
                self.prods.append((n, tuple([n] + a)))
            return [n]
        raise self.G4.G4Error("parser rule element %r is outside the supported subset" % (k,))

    def _tables(self):
        nnt = len(self.nt_name)
        null = [False] * nnt
        changed = True
        while changed:
            changed = False
            for lhs, rhs in self.prods:
                if not null[lhs] and all(s >= 0 and null[s] for s in rhs):
                    null[lhs] = changed = True
        self.NULL = null
        self.NEXT, self.LHS = [], []
        self.STARTS = [[] for _ in range(nnt)]
        for lhs, rhs in self.prods:
            self.STARTS[lhs].append(len(self.NEXT))
            for s in rhs:
                self.NEXT.append(s)
                self.LHS.append(lhs)
            self.NEXT.append(None)
            self.LHS.append(lhs)
        self.STARTS = [tuple(x) for x in self.STARTS]
        self.GOAL_END = self.STARTS[self.goal][0] + 1

    def show(self):
        def sym(s):
            return self.nt_name[s] if s >= 0 else self.term_name[s]
        return ["%s ::= %s" % (self.nt_name[l], " ".join(sym(s) for s in r) or "<empty>") for l, r in self.prods]


def bnf():
    if "x" not in _BNF:
        from vlib import common as C
        from atnk import g4 as G4
        with open(os.path.join(C.REPO, "src", "blackbird.g4")) as f:
            _BNF["x"] = _Bnf(G4.parse(f.read()))
    return _BNF["x"]


# ------------------------------------------------------------------------------------------------------ Earley recogniser
def earley(names):
    """names: token-type names WITHOUT the end marker. -> (accepted, index of the first token at which no viable continuation exists
    (len(names) = the end of input), or None when accepted)"""
    g = bnf()
    NEXT, LHS, STARTS, NULL = g.NEXT, g.LHS, g.STARTS, g.NULL
    term = g.term
    toks = [term.get(x, _UNKNOWN_TERMINAL) for x in names] + [-1]
    n = len(toks)
    items = [(s, 0) for s in STARTS[g.goal]]
    seen = set(items)
    wait = []
    for i in range(n + 1):
        w = {}
        wait.append(w)
        tok = toks[i] if i < n else None
        nxt, nxt_seen = [], set()
        k = 0
        while k < len(items):
            it = items[k]
            k += 1
            s, o = it
            sym = NEXT[s]
            if sym is None:                                  # completion (an empty span was already credited at prediction time)
                if o != i:
                    for s2, o2 in wait[o].get(LHS[s], ()):
                        new = (s2 + 1, o2)
                        if new not in seen:
                            seen.add(new)
                            items.append(new)
            elif sym >= 0:                                   # prediction
                lst = w.get(sym)
                if lst is None:
                    w[sym] = [it]
                    for st in STARTS[sym]:
                        new = (st, i)
                        if new not in seen:
                            seen.add(new)
                            items.append(new)
                else:
                    lst.append(it)
                if NULL[sym]:
                    new = (s + 1, o)
                    if new not in seen:
                        seen.add(new)
                        items.append(new)
            elif sym == tok:                                 # scan
                new = (s + 1, o)
                if new not in nxt_seen:
                    nxt_seen.add(new)
                    nxt.append(new)
        if i == n:
            return ((g.GOAL_END, 0) in seen), (None if (g.GOAL_END, 0) in seen else n - 1)
        if not nxt:
            return False, i
        items, seen = nxt, nxt_seen
    return False, n - 1


# ------------------------------------------------------------------------------------------------------ the shipped side
def real_token_names(text):
    import antlr4
    from blackbird.blackbirdLexer import blackbirdLexer
    lx = blackbirdLexer(antlr4.InputStream(text))
    lx.removeErrorListeners()
    names = blackbirdLexer.symbolicNames
    return [names[t.type] if 0 < t.type < len(names) else "<type %d>" % t.type for t in lx.getAllTokens() if t.channel == 0]


def real_verdict(text):
    """-> (accepted, [first syntax error messages])"""
    import antlr4
    from antlr4.error.ErrorListener import ErrorListener
    from blackbird.blackbirdLexer import blackbirdLexer
    from blackbird.blackbirdParser import blackbirdParser

    class Collect(ErrorListener):
        def __init__(self):
            super().__init__()
            self.errors = []

        def syntaxError(self, recognizer, offendingSymbol, line, column, msg, e):
            self.errors.append("line %s:%s %s" % (line, column, msg))

    col = Collect()
    lx = blackbirdLexer(antlr4.InputStream(text))
    lx.removeErrorListeners()
    ps = blackbirdParser(antlr4.CommonTokenStream(lx))
    ps.removeErrorListeners()
    ps.addErrorListener(col)
    ps.start()
    return (not col.errors), col.errors


def check(case):
    text = case["input"]["text"]
    names = real_token_names(text)
    want, where = earley(names)
    got, errors = real_verdict(text)
    if want == got:
        return None
    word = " ".join(names)
    if want:
        exp = "ACCEPT: the token sequence is derivable from `start` by the parser rules of blackbird.g4"
    else:
        exp = "REJECT: no derivation from `start` by the parser rules of blackbird.g4; the prefix up to token #%d (%s) has no continuation" % (
            where, (names + ["EOF"])[where])
    act = "shipped parser: %s" % ("ACCEPT (no syntax error reported)" if got else "REJECT (%d syntax error(s); first: %s)" % (len(errors), errors[0][:200]))
    return {"expected": exp, "actual": act + "; token sequence (shipped lexer): " + word}


# ------------------------------------------------------------------------------------------------------ inputs
# scripts are written with blanks between all tokens; a line's leading groups of four blanks are TAB tokens
HEADERS = [
    "name prog\nversion 1.0\n",
    "name prog\nversion 1.0\ntarget gaussian ( shots = 10 )\n",
    "name prog\nversion 0.2\ntarget fock.v2\ntype tdm ( temporal_modes = 3 , copies = 1 )\n",
    "name prog\nversion 1.0\ninclude \"lib.xbb\"\n\ninclude \"b.xbb\"\n",
    "\n\nname p\n\nversion 1.0\n\n\ntarget X8_01\n\ntype tdm\n\n",
    "name p\nversion 1.0\ntype tdm ( 1 , \"a\" , x = [ 1 , 2 ] , y = [ ] )\n",
    "name p\nversion 1.0\ntarget 8x ( 1.5 , True , )\ninclude \"a\"\n",
]

FRAGMENTS = [
    "float alpha = 0.5\n",
    "complex beta = 1+2j * alpha\n",
    "int n = 3\n",
    "str s = \"hello\"\n",
    "bool b = True\n",
    "float q0 = 1\n",
    "int name = 2\n",
    "float version = 1.0\n",
    "str target = \"x\"\n",
    "bool type = False\n",
    "float array A =\n    1 , 2\n    3 , 4\n",
    "complex array B [ 2 , 2 ] =\n    1j , - 2\n    0.5 , { p }\n\n",
    "float array C [ 1 , 3 ] =\n{ c }\n",
    "int array D [ 3 ] =\n    { d }\n",
    "float array E =\n\n",
    "float array q1 =\n    pi\n",
    "Sgate ( 0.5 , 1 ) | 0\n",
    "BSgate ( phi = 0.1 , theta = [ 1 , 2 ] ) | [ 0 , 1 ]\n",
    "Vac | ( 0 , 1 )\n",
    "MeasureFock ( ) | [ 0 , 1 ]\n",
    "MeasureHomodyne ( phi = 0 , select = q0 ) | 1\n",
    "MeasureX | 0\n\n\n",
    "MZgate ( 1 , x = 2 ) | 0 , 1\n",
    "Dgate ( q0 , \"s\" , True , a = [ ] ) | [ 2 )\n",
    "Rgate ( 1 , ) | ( 0 ]\n",
    "Kgate ( , k = False ) | n\n",
    "Xgate ( a = \"s\" , b = [ \"t\" , 1 ] ) | q0\n",
    "for int i in 0 : 3\n    Sgate ( i ) | i\n    MeasureX | 0\n",
    "for float x in [ 0.1 , 0.2 ]\n    Dgate ( x ) | 0\n",
    "for int j in 1 : 7 : 2\n    Vac | j\n\n    Vac | 0\n",
    "for int m in 2 , 3\n    Vac | m\n",
    "for str t in ( \"a\" , True )\n    G ( t ) | [ 0 ]\n",
    "for complex z in [ 1j ]\n    Measure | z , 1\n    H ( z = z ) | 2\n    Vac | 3\n",
    "float e1 = ( 1 + 2 ) * - 3 ** 2 / sqrt ( x ) - A [ 0 ] + { p } ** + pi\n",
    "float e2 = sin ( 1 ) + cos ( 2 ) * tan ( 3 ) / arcsin ( a ) - arccos ( q0 )\n",
    "float e3 = arctan ( sinh ( 1 ) ) ** cosh ( 2 ) ** tanh ( - 1 )\n",
    "complex e4 = arcsinh ( 2j ) * arccosh ( 1.5e3 ) + arctanh ( { z } ) - exp ( log ( 2 ) )\n",
    "int e5 = - - 1 + + 2 - ( ( 3 ) )\n",
    "float e6 = M [ i + 1 ] * M [ M [ 0 ] ] / q12\n",
    "Rgate ( 2 * pi / 3 , - { r } ** 2 ) | [ 0 ]\n",
]

ARRAY_VARTYPE = [
    "array x = 5\n",
    "array q0 = 1\n",
    "array name = \"s\"\n",
    "array array A =\n    1 , 2\n",
    "array array B [ 2 ] =\n{ p }\n",
    "for array i in 0 : 3\n    Vac | i\n",
    "for array x in [ 1 , 2 ]\n    Vac | 0\n",
    "array y = { p } + 1\nfor array k in 1 , 2\n    array z = 3\n",            # the last line is NOT a loop body (only statements are)
    "float array array = 1\n",                                                   # `array` is not a name
]

# twelve fixed scripts that together visit every parser rule and every alternative
POOL = [
    HEADERS[0],
    HEADERS[1] + "\n" + FRAGMENTS[0] + FRAGMENTS[1] + FRAGMENTS[16] + FRAGMENTS[17],
    HEADERS[2] + FRAGMENTS[2] + FRAGMENTS[3] + FRAGMENTS[4] + FRAGMENTS[18] + FRAGMENTS[19],
    HEADERS[3] + FRAGMENTS[5] + FRAGMENTS[6] + FRAGMENTS[7] + FRAGMENTS[8] + FRAGMENTS[9] + FRAGMENTS[20],
    HEADERS[4] + FRAGMENTS[10] + FRAGMENTS[11] + FRAGMENTS[21] + FRAGMENTS[22],
    HEADERS[5] + FRAGMENTS[12] + FRAGMENTS[13] + FRAGMENTS[14] + FRAGMENTS[15] + FRAGMENTS[23],
    HEADERS[6] + FRAGMENTS[24] + FRAGMENTS[25] + FRAGMENTS[26] + FRAGMENTS[27],
    HEADERS[0] + FRAGMENTS[28] + FRAGMENTS[29] + FRAGMENTS[16],
    HEADERS[1] + FRAGMENTS[30] + FRAGMENTS[31] + FRAGMENTS[32],
    HEADERS[0] + FRAGMENTS[33] + FRAGMENTS[34],
    HEADERS[2] + FRAGMENTS[35] + FRAGMENTS[36] + FRAGMENTS[37],
    HEADERS[0] + "\n" + FRAGMENTS[38] + FRAGMENTS[39] + "\n\n",
]

NL, TAB = "\n", "    "
VOCAB = ["+", "-", "*", "/", "**", "=", "for", "in", "1", "1.5", "2j", "\"s\"", "True", "1,2", "pi", NL, TAB, "name", "version", "target", "type",
         "include", "sqrt", "sin", "exp", "arctanh", ".", ",", ":", "\"", "(", ")", "[", "]", "{", "}", "|", "array", "float", "complex", "int", "str",
         "bool", "q0", "MeasureX", "Sgate", "x", "fock.v2", "$"]
SOUP = ["name", "p", NL, "version", "1.0", "float", "int", "array", "x", "=", "1", "+", "-", "**", "(", ")", "[", "]", "{", "}", ",", "|", "0", "G",
        "MeasureX", "for", "in", ":", TAB, "sin", "\"s\"", "True", "q0", "include", "target", "type"]
_PIECE = re.compile(r'"[^"\n]*"|\S+')


def split(script):
    """pieces of a pre-spaced script: token texts, NL, TAB"""
    out = []
    lines = script.split("\n")
    for li, line in enumerate(lines):
        while line.startswith(TAB):
            out.append(TAB)
            line = line[4:]
        out.extend(_PIECE.findall(line))
        if li < len(lines) - 1:
            out.append(NL)
    return out


def render(pieces, compact):
    """text of a piece list: single blanks between tokens, none next to layout pieces (blanks would merge with a TAB into skipped SPACE);
    compact: the customary layout `G(1, x=[2]) | [0, 1]`"""
    out = []
    for k, p in enumerate(pieces):
        if k and p not in (NL, TAB) and pieces[k - 1] not in (NL, TAB):
            q = pieces[k - 1]
            if not (compact and (p in (",", ")", "]", "}") or p in ("(", "[") and q[0].isalpha() and q != "in" or q in ("(", "[", "{"))):
                out.append(" ")
        out.append(p)
    return "".join(out)


def mutate(rng, pieces, kind):
    p = list(pieces)
    n = len(p)
    if kind == "delete":
        del p[rng.randrange(n)]
    elif kind == "insert":
        p.insert(rng.randrange(n + 1), rng.choice(VOCAB))
    elif kind == "substitute":
        k = rng.randrange(n)
        new = rng.choice(VOCAB)
        while new == p[k]:
            new = rng.choice(VOCAB)
        p[k] = new
    elif kind == "swap":
        k = rng.randrange(n - 1)
        for _ in range(6):                                   # prefer a swap that changes something
            if p[k] != p[k + 1]:
                break
            k = rng.randrange(n - 1)
        p[k], p[k + 1] = p[k + 1], p[k]
    elif kind == "truncate":
        p = p[:rng.randrange(n)]
    return p


MUTATIONS = ["delete", "insert", "substitute", "swap", "truncate"]


def _valid(rng):
    if rng.random() < 0.4:
        return rng.choice(POOL)
    return rng.choice(HEADERS) + "".join(rng.choice(FRAGMENTS) for _ in range(rng.randint(1, 3)))


# ---- sentences derived from the grammar itself (they follow edits of the g4 that the fixed scripts cannot know about)
TOKEN_TEXT = {"PLUS": "+", "MINUS": "-", "TIMES": "*", "DIVIDE": "/", "PWR": "**", "ASSIGN": "=", "FOR": "for", "IN": "in", "INT": "1", "FLOAT": "1.5",
              "COMPLEX": "2j", "STR": "\"s\"", "BOOL": "True", "SEQUENCE": "1,2", "PI": "pi", "NEWLINE": NL, "TAB": TAB, "PROGNAME": "name",
              "VERSION": "version", "TARGET": "target", "PROGTYPE": "type", "INCLUDE": "include", "PERIOD": ".", "COMMA": ",", "COLON": ":", "QUOTE": "\"",
              "LBRAC": "(", "RBRAC": ")", "LSQBRAC": "[", "RSQBRAC": "]", "LBRACE": "{", "RBRACE": "}", "APPLY": "|", "TYPE_ARRAY": "array",
              "TYPE_FLOAT": "float", "TYPE_COMPLEX": "complex", "TYPE_INT": "int", "TYPE_STR": "str", "TYPE_BOOL": "bool", "REGREF": "q0",
              "MEASURE": "MeasureX", "NAME": "x", "DEVICE": "fock.v2", "ANY": "$", "EOF": ""}
_DERIVE = {}


def _derive_tables():
    if "x" not in _DERIVE:
        g = bnf()
        by = {}
        for lhs, rhs in g.prods:
            by.setdefault(lhs, []).append(rhs)
        short = dict((n, 10 ** 9) for n in range(len(g.nt_name)))               # length of the shortest sentence of each nonterminal
        changed = True
        while changed:
            changed = False
            for lhs, rhs in g.prods:
                v = sum(1 if s < 0 else short[s] for s in rhs)
                if v < short[lhs]:
                    short[lhs] = v
                    changed = True
        text = dict(TOKEN_TEXT)
        for r in g.grammar.token_rules():                                       # functions and any keyword the table does not know
            lit = g.G4.single_literal(r)
            if r.name not in text and lit is not None and "\\" not in lit:
                text[r.name] = lit
        _DERIVE["x"] = (g, by, short, text)
    return _DERIVE["x"]


def derive(rng, depth):
    """token-type names of a random sentence of `start` (without EOF): free choice of alternatives down to `depth`, shortest ones below"""
    g, by, short, _ = _derive_tables()
    out = []
    stack = [(g.nt["start"], depth)]
    while stack:
        sym, d = stack.pop()
        if sym < 0:
            out.append(g.term_name[sym])
            continue
        alts = by[sym]
        if d <= 0:
            cost = [sum(1 if s < 0 else short[s] for s in r) for r in alts]
            alts = [r for r, c in zip(alts, cost) if c == min(cost)]
        for s in reversed(alts[rng.randrange(len(alts))]):
            stack.append((s, d - 1))
        if len(out) + len(stack) > 400:
            return None
    return out[:-1] if out and out[-1] == "EOF" else out


def _derived_pieces(rng):
    try:
        text = _derive_tables()[3]
        for _ in range(20):
            names = derive(rng, rng.randint(5, 14))
            if names is not None and len(names) <= 90 and all(x in text for x in names):
                return [text[x] for x in names]
    except Exception:                                        # unreadable grammar: check() reports that as an engine error
        pass
    return split(_valid(rng))


def cases(rng, n, tier):
    for i in range(n):
        r = rng.random()
        compact = rng.random() < 0.4
        if r < 0.28:
            cls, pieces = "valid", split(_valid(rng))
        elif r < 0.38:
            cls, pieces = "derived", _derived_pieces(rng)
        elif r < 0.78:
            cls = MUTATIONS[rng.randrange(len(MUTATIONS))]
            pieces = mutate(rng, split(_valid(rng)), cls)
        elif r < 0.86:
            cls = MUTATIONS[rng.randrange(len(MUTATIONS))]
            pieces = mutate(rng, _derived_pieces(rng), cls)
            cls = "derived/" + cls
        elif r < 0.93:
            cls = "array-as-vartype"
            body = [rng.choice(ARRAY_VARTYPE)] + [rng.choice(FRAGMENTS) for _ in range(rng.randint(0, 1))]
            rng.shuffle(body)
            pieces = split(rng.choice(HEADERS[:3]) + "".join(body))
            if rng.random() < 0.25:
                cls = "array-as-vartype/" + MUTATIONS[rng.randrange(3)]
                pieces = mutate(rng, pieces, cls.split("/")[1])
        else:
            cls = "token-soup"
            pieces = [rng.choice(SOUP) for _ in range(rng.randint(1, 10))]
            if rng.random() < 0.5:
                pieces = split(HEADERS[0]) + pieces
        yield {"class": cls, "input": {"text": render(pieces, compact)}}


base.register(base.Family("parser_verdict", ["C14", "C10"], cases, check, weight=0.7,
                          bound="%d fixed scripts + compositions of %d metadata blocks / %d program fragments (every parser rule and alternative), "
                                "random sentences derived from the g4 itself (<= 90 tokens), the single-token deletions, insertions, substitutions (vocabulary of %d "
                                "token texts), adjacent swaps, truncations of all these; `array` in vartype position; token soups of 1-10 tokens" % (len(POOL), len(HEADERS), len(FRAGMENTS), len(VOCAB)),
                          rule="accept/reject of blackbirdParser.start() (no syntax error reported) vs Earley recogniser over the BNF lowered from the "
                               "parser rules of src/blackbird.g4 (atnk/g4.py); both on the shipped lexer's default-channel token sequence"))
