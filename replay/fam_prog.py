"""Program-level witness families: C01 roundtrip, C09 api_serialize, C13 readonly_ops, C16 digraph, C17 template_match,
C19 hashseed, C07 include_inline.  Oracles are taken from the property statements (properties.jsonl); the code under test is
whatever `blackbird` package PYTHONPATH resolves to.  Generators and recipe builders: replay/gen_prog.py.
"""
import copy
import json
import math
import os
import shutil
import subprocess
import sys
import tempfile
import types

from . import base as B
from . import gen_prog as G
from .base import Family, register


def _exc(e):
    return B.describe_exc(e)


def _clip(t, n=1500):
    t = str(t)
    return t if len(t) <= n else t[:n] + "…"


def _values_of(p):
    """all argument/option values of a program with a short location label"""
    for what, d in (("target", p.target), ("type", p.programtype)):
        for k, v in d["options"].items():
            yield "%s option %s" % (what, k), v
    for i, op in enumerate(p.operations):
        for j, v in enumerate(op.get("args", [])):
            yield "op %d arg %d" % (i, j), v
        for k, v in op.get("kwargs", {}).items():
            yield "op %d kwarg %s" % (i, k), v


def _nonfinite(p):
    import numpy as np
    def bad(v):
        k = B.kind(v)
        if k in ("float", "complex"):
            return not B.isfinite_num(v)
        if k == "list":
            return any(bad(x) for x in v)
        if k == "array" and v.dtype.kind in "fc":
            return not bool(np.all(np.isfinite(v)))
        return False
    return [w for w, v in _values_of(p) if bad(v)]


# =====================================================================================================================
# C01 roundtrip

def rt_cases(rng, n, tier):
    for _ in range(n):
        cls, s = G.gen_roundtrip_script(rng)
        yield {"class": cls, "input": {"script": s}}


def _is_ptype(k):
    return len(k) > 1 and k[0] == "p" and k[1:].isdigit()


def rt_check(case):
    import blackbird
    import numpy as np
    s = case["input"]["script"]
    try:
        p = blackbird.loads(s)
    except Exception as e:
        return {"class": "valid-script-fails-to-load", "expected": "the valid script loads", "actual": _exc(e)}
    nf = _nonfinite(p)
    if nf:
        raise RuntimeError("generator left the domain (non-finite value at %s)" % nf[:3])
    progs, texts = [p], []
    for g in (1, 2, 3):
        try:
            t = blackbird.dumps(progs[-1])
        except Exception as e:
            return {"expected": "dumps of generation %d succeeds" % (g - 1), "actual": _exc(e)}
        texts.append(t)
        try:
            q = blackbird.loads(t)
        except Exception as e:
            return {"expected": "generation %d: loads(dumps(P)) succeeds" % g, "actual": "%s on text:\n%s" % (_exc(e), _clip(t))}
        d = B.program_diff(progs[-1], q)
        if d:
            return {"expected": "generation %d ~= generation %d" % (g, g - 1), "actual": "%s; text:\n%s" % (d, _clip(t))}
        if progs[-1].programtype["name"] == "tdm":
            for k, v in progs[-1].variables.items():
                if _is_ptype(k) and isinstance(v, np.ndarray):
                    if k not in q.variables or not B.value_equiv(v, q.variables[k]):
                        return {"class": "tdm-variables", "expected": "generation %d keeps p-array %s = %r" % (g, k, v.tolist()),
                                "actual": "%r; text:\n%s" % (q.variables.get(k, "<missing>"), _clip(t))}
        progs.append(q)
    if texts[1] != texts[2]:
        return {"class": "text-fixpoint", "expected": "dumps(P2) == dumps(P3):\n%s" % _clip(texts[1]), "actual": _clip(texts[2])}
    return None


register(Family("roundtrip", ["C01"], rt_cases, rt_check,
                bound="random valid scripts: <= 8 declarations, <= 6 statements/loops, expression depth <= 2, 3 generations of dumps/loads",
                rule="script text; class = feature the script is built around (typed vars, arrays, lists, loops with computed modes, "
                     "prefix-overlapping parameter names in positional/keyword/list position, register transforms, options, tdm)"))


# =====================================================================================================================
# C09 api_serialize

def api_cases(rng, n, tier):
    for _ in range(n):
        cls, rec = G.gen_api_recipe(rng)
        yield {"class": cls, "input": {"recipe": rec}}


def _sign(x):
    return math.copysign(1.0, x)


ZERO_CLASSES = ["scalar-float", "array-float", "scalar-real-part", "array-real-part", "scalar-imag-part", "array-imag-part"]


def _zero_sign_diff(a, b):
    """set of class suffixes of sign-of-zero mismatches between two values already known to be value_equiv"""
    import numpy as np
    out = set()
    k = B.kind(a)
    if k == "float":
        if float(a) == 0.0 and _sign(float(a)) != _sign(float(b)):
            out.add("scalar-float")
    elif k == "complex":
        a, b = complex(a), complex(b)
        if a.real == 0.0 and _sign(a.real) != _sign(b.real):
            out.add("scalar-real-part")
        if a.imag == 0.0 and _sign(a.imag) != _sign(b.imag):
            out.add("scalar-imag-part")
    elif k == "list":
        for x, y in zip(a, b):
            out |= _zero_sign_diff(x, y)
    elif k == "array":
        if a.dtype.kind == "f":
            if bool(np.any(np.signbit(a) != np.signbit(b))):
                out.add("array-float")
        elif a.dtype.kind == "c":
            if bool(np.any(np.signbit(a.real) != np.signbit(b.real))):
                out.add("array-real-part")
            if bool(np.any(np.signbit(a.imag) != np.signbit(b.imag))):
                out.add("array-imag-part")
    return out


def _free_names(v):
    import sympy as sym
    if isinstance(v, sym.Expr):
        return {str(x) for x in v.free_symbols}
    if isinstance(v, (list, tuple)):
        return set().union(*[_free_names(x) for x in v]) if v else set()
    return set()


def api_check(case):
    import blackbird
    p = G.build_program(case["input"]["recipe"])
    try:
        t = blackbird.dumps(p)
    except Exception as e:
        return {"expected": "dumps succeeds", "actual": _exc(e)}
    try:
        q = blackbird.loads(t)
    except Exception as e:
        return {"expected": "the serialised script is accepted by the parser", "actual": "%s on text:\n%s" % (_exc(e), _clip(t))}
    d = B.program_diff(p, q)
    if d:
        res = {"expected": "loads(dumps(P)) denotes P", "actual": "%s; text:\n%s" % (d, _clip(t))}
        if d.startswith("parameters") and set(q.parameters) < set(p.parameters):
            in_ops = set()
            for w, v in _values_of(p):
                if w.startswith("op"):
                    in_ops |= _free_names(v)
            if not (set(p.parameters) - set(q.parameters)) & in_ops:
                res["class"] = "parameter-only-in-options-not-listed"
        return res
    found = {}
    for (w, a), (_, b) in zip(_values_of(p), _values_of(q)):
        for z in _zero_sign_diff(a, b):
            found.setdefault(z, (w, a, b))
    for z in ZERO_CLASSES:                                         # one report per program; float/real-part mismatches take precedence
        if z in found:
            w, a, b = found[z]
            return {"class": "negative-zero/" + z, "expected": "%s keeps the sign of zero: %r" % (w, a), "actual": "%r; text:\n%s" % (b, _clip(t))}
    return None


register(Family("api_serialize", ["C09"], api_cases, api_check,
                bound="random API-built programs: 0-14 operations, <= 3 positional + 2 keyword values each, arrays up to 6x1/1x7/3x4, "
                      "element pools with -0.0, 5e-324, 1e+-300, +-2**62/2**63, exponent-form floats",
                rule="JSON recipe of the program; class = value kind the program is built around; sign-of-zero mismatches are "
                     "re-classified negative-zero/<scalar|array>-<float|real-part|imag-part>"))


# =====================================================================================================================
# C13 readonly_ops

RO_MUTATIONS = ["args-append", "args-set", "kwargs-set", "modes-append", "op-rename", "ops-pop", "ops-append", "var-array", "var-set",
                "target-option", "target-name", "type-option", "modes-add", "list-kwarg-append", "array-arg"]


def _template_with_numeric_array(rng):
    """a template that also holds a purely numeric array, used as an operation argument: instances must own their copy of it"""
    rows, cols = rng.randrange(1, 3), rng.randrange(1, 4)
    typ = G.pick(rng, ["float", "complex", "int"])
    def el():
        x = rng.randrange(-40, 40)
        return str(x) if typ == "int" else ("%d.%d" % (x, rng.randrange(10)) if typ == "float" else "%d.5+%dj" % (x, rng.randrange(1, 9)))
    body = "\n".join("\t" + ", ".join(el() for _ in range(cols)) for _ in range(rows))
    shape = "[%d, %d]" % (rows, cols) if rng.random() < 0.5 else ""
    s = "name tmpl\nversion 1.0\n\n%s array A%s =\n%s\n\nSgate({alpha}, 0.%d) | 0\nInterferometer(A) | [0, 1]\n" % (typ, shape, body, rng.randrange(1, 9))
    if rng.random() < 0.5:
        s += "Ugate(U=A, phi={beta}) | 1\n"
    steps = [{"do": "call", "seed": rng.randrange(1000), "style": "float"}, {"do": "call", "seed": rng.randrange(1000), "style": "float"}]
    for _ in range(rng.randrange(1, 4)):
        steps.append({"do": "mutate", "instance": rng.randrange(2), "how": G.pick(rng, ["var-array", "array-arg"])})
        if rng.random() < 0.4:
            steps.append({"do": G.pick(rng, ["dumps", "digraph", "attrs"])})
    return {"class": "script/template-numeric-array", "input": {"source": {"script": s}, "steps": steps}}


def ro_cases(rng, n, tier):
    for _ in range(n):
        r = rng.random()
        if r > 0.93:
            yield _template_with_numeric_array(rng)
            continue
        if r < 0.6:
            focus = G.pick(rng, ["params-prefix-names", "params-kw-list", "params-mixed", "params-mixed", "mixed", "mixed", "regrefs", "regrefs-kw",
                                 "arrays-as-args", "tdm", "literals", "param-array-arg", "kwargs-lists", "for-loop-modes"])
            cls, s = G.gen_roundtrip_script(rng, focus)
            src = {"script": s}
            cls = "script/" + cls
        else:
            focus = G.pick(rng, ["sym-positional", "sym-keyword", "sym-list", "mixed", "mixed", "no-arg-ops", "arrays-multi", "sym-options", "lists-kw"])
            cls, rec = G.gen_api_recipe(rng, focus)
            src = {"recipe": rec}
            cls = "api/" + cls
        steps = []
        ninst = 0
        for _ in range(rng.randrange(3, 9)):
            k = G.weighted_choice(rng, ["dumps", "call", "digraph", "match", "attrs", "mutate", "mutate-graph"],
                                  {"call": 2.5, "mutate": 2.5, "digraph": 1.5})
            st = {"do": k}
            if k == "call":
                st["seed"] = rng.randrange(1000)
                st["style"] = G.pick(rng, ["float", "float", "int", "npfloat", "mixed"])
                ninst += 1
            elif k == "digraph" and ninst and rng.random() < 0.3:
                st["instance"] = rng.randrange(ninst)
            elif k in ("mutate", "match"):
                st["instance"] = rng.randrange(max(1, ninst))
                if k == "mutate":
                    st["how"] = G.pick(rng, RO_MUTATIONS)
            steps.append(st)
        yield {"class": cls, "input": {"source": src, "steps": steps}}


def _snap(p):
    return types.SimpleNamespace(name=p.name, version=p.version, target=copy.deepcopy(p.target), programtype=copy.deepcopy(p.programtype),
                                 parameters=set(p.parameters), operations=copy.deepcopy(p.operations), modes=set(p.modes),
                                 variables=copy.deepcopy(p.variables), length=len(p), is_template=p.is_template(), text=_safe_dumps(p))


def _safe_dumps(p):
    import blackbird
    try:
        return blackbird.dumps(p)
    except Exception as e:
        return "<dumps raises %s>" % type(e).__name__


def _snap_diff(s, p):
    d = B.program_diff(s, p, check_vars=True)
    if d:
        return d
    if s.length != len(p):
        return "len %d vs %d" % (s.length, len(p))
    if s.is_template != p.is_template():
        return "is_template %r vs %r" % (s.is_template, p.is_template())
    t = _safe_dumps(p)
    if t != s.text:
        return "dumps text changed:\n%s\n--- now ---\n%s" % (_clip(s.text, 600), _clip(t, 600))
    return None


def _call_values(p, seed, style):
    import numpy as np
    vals = {}
    for i, n in enumerate(sorted(p.parameters)):
        x = ((seed * 7919 + i * 104729) % 2000) / 100.0 - 10.0
        if x == 0:
            x = 0.25
        if style == "int" or (style == "mixed" and i % 3 == 0):
            v = int(x) or 3
        elif style == "npfloat" or (style == "mixed" and i % 3 == 1):
            v = np.float64(x)
        else:
            v = x
        vals[n] = v
    return vals


def _mutate_instance(inst, how):
    """mutate a program returned by a template call; returns a note (or None when not applicable)"""
    import numpy as np
    ops = inst.operations
    with_args = [o for o in ops if "args" in o]
    if how == "args-append" and with_args:
        with_args[0]["args"].append(12345)
    elif how == "args-set" and any(o["args"] for o in with_args):
        [o for o in with_args if o["args"]][-1]["args"][0] = -987.5
    elif how == "kwargs-set" and with_args:
        with_args[-1]["kwargs"]["mutated"] = 1
    elif how == "modes-append" and ops:
        ops[0]["modes"].append(99)
    elif how == "op-rename" and ops:
        ops[-1]["op"] = "Mutated"
    elif how == "ops-pop" and ops:
        ops.pop()
    elif how == "ops-append":
        ops.append({"op": "Appended", "modes": [98], "args": [1], "kwargs": {}})
    elif how == "var-array" and any(isinstance(v, np.ndarray) for v in inst.variables.values()):
        a = [v for v in inst.variables.values() if isinstance(v, np.ndarray)][0]
        a.flat[0] = 42
    elif how == "var-set":
        inst.variables["mutated_var"] = 1
    elif how == "target-option":
        inst.target["options"]["mutated"] = 1
    elif how == "target-name":
        inst.target["name"] = "mutated_device"
    elif how == "type-option":
        inst.programtype["options"]["mutated"] = 2
    elif how == "modes-add":
        inst.modes.add(77)
    elif how == "list-kwarg-append" and any(isinstance(v, list) for o in with_args for v in o["kwargs"].values()):
        [v for o in with_args for v in o["kwargs"].values() if isinstance(v, list)][0].append(5)
    elif how == "array-arg" and any(isinstance(v, np.ndarray) for o in with_args for v in list(o["args"]) + list(o["kwargs"].values())):
        a = [v for o in with_args for v in list(o["args"]) + list(o["kwargs"].values()) if isinstance(v, np.ndarray)][0]
        a.flat[0] = 42
    else:
        return None
    return how


def ro_check(case):
    import blackbird
    from blackbird.utils import to_DiGraph, match_template
    src = case["input"]["source"]
    p = blackbird.loads(src["script"]) if "script" in src else G.build_program(src["recipe"])
    s0 = _snap(p)
    instances = []                                                # [program, snapshot]
    graph = None
    for n, st in enumerate(case["input"]["steps"]):
        do = st["do"]
        note = do
        try:
            if do == "dumps":
                blackbird.dumps(p)
            elif do == "call":
                inst = p(**_call_values(p, st["seed"], st["style"]))
                instances.append([inst, _snap(inst)])
            elif do == "digraph":
                graph = to_DiGraph(instances[st["instance"] % len(instances)][0] if "instance" in st and instances else p)
            elif do == "match":
                if instances:
                    match_template(p, instances[st["instance"] % len(instances)][0])
                else:
                    match_template(p, p)
            elif do == "attrs":
                (p.name, p.version, p.target, p.programtype, p.operations, p.parameters, p.variables, p.modes, len(p), p.is_template())
            elif do == "mutate":
                if instances:
                    k = st["instance"] % len(instances)
                    how = _mutate_instance(instances[k][0], st["how"])
                    note = "mutate instance %d: %s" % (k, how)
                    others = [i for i in range(len(instances)) if i != k]
                    for i in others:
                        d = _snap_diff(instances[i][1], instances[i][0])
                        if d:
                            return {"class": "instances-not-independent", "expected": "instance %d unchanged by step %d (%s)" % (i, n, note), "actual": d}
                    d = _snap_diff(s0, p)
                    if d:
                        return {"class": "instance-aliases-template", "expected": "original unchanged by step %d (%s)" % (n, note), "actual": d}
                    instances[k][1] = _snap(instances[k][0])
            elif do == "mutate-graph":
                if graph is not None and len(graph):
                    first = sorted(graph.nodes)[0]
                    graph.nodes[first]["name"] = "mutated"
                    graph.nodes[first]["modes"] = (555,)
                    graph.add_edge(998, 999)
                    graph.remove_node(sorted(graph.nodes)[-1])
        except Exception as e:                                     # the operations may legitimately refuse (non-template call, no match)
            note = "%s raised %s" % (do, type(e).__name__)
        d = _snap_diff(s0, p)
        if d:
            return {"expected": "original program unchanged after step %d (%s)" % (n, note), "actual": d}
        for i, (inst, snap) in enumerate(instances):
            d = _snap_diff(snap, inst)
            if d:
                return {"class": "instances-not-independent", "expected": "instance %d unchanged after step %d (%s)" % (i, n, note), "actual": d}
    return None


register(Family("readonly_ops", ["C13"], ro_cases, ro_check,
                bound="programs/templates from scripts and from the API; 3-8 steps of dumps / call / to_DiGraph / match_template / attribute reads "
                      "interleaved with 15 kinds of mutations of instances and of the returned graph object",
                rule="program source + step list; oracle: dumps text and deep snapshot (incl. variables, presence of args/kwargs keys) of the original "
                     "and of every earlier instance identical after every step"))


# =====================================================================================================================
# C16 digraph

def dg_cases(rng, n, tier):
    for _ in range(n):
        yield G.gen_digraph_case(rng, tier)


def _random_topo(g, rng_state):
    import random
    rng = random.Random(rng_state)
    indeg = {v: g.in_degree(v) for v in g}
    ready = sorted(v for v in g if indeg[v] == 0)
    out = []
    while ready:
        v = ready.pop(rng.randrange(len(ready)))
        out.append(v)
        for w in g.successors(v):
            indeg[w] -= 1
            if indeg[w] == 0:
                ready.append(w)
    return out


def dg_check(case):
    import blackbird
    import networkx as nx
    from blackbird.utils import to_DiGraph
    inp = case["input"]
    desc = inp["ops"]
    p = blackbird.loads(inp["script"])
    if len(p.operations) != len(desc) or any(o["op"] != d["op"] or [int(m) for m in o["modes"]] != d["modes"] for o, d in zip(p.operations, desc)):
        return {"class": "precondition/load-differs-from-description", "expected": desc, "actual": repr(p.operations)[:800]}
    return dg_graph_check(p, to_DiGraph(p), desc, inp["script"])


def dg_graph_check(p, g, desc, key):
    """the oracle of C16 for graph g of program p whose operations are described by desc (op, modes, registers)"""
    import networkx as nx
    n = len(desc)
    if sorted(g.nodes) != list(range(n)):
        return {"expected": "exactly one node per operation: %s" % list(range(n)), "actual": "nodes %s" % sorted(g.nodes)}
    for i, (o, d) in enumerate(zip(p.operations, desc)):
        a = g.nodes[i]
        if set(a) != {"name", "args", "kwargs", "modes"}:
            return {"expected": "node %d carries name, args, kwargs, modes" % i, "actual": sorted(a)}
        if a["name"] != d["op"] or a["modes"] != tuple(d["modes"]) or not isinstance(a["modes"], tuple):
            return {"expected": "node %d: name %r modes %r" % (i, d["op"], tuple(d["modes"])), "actual": "%r %r" % (a["name"], a["modes"])}
        ea, ek = o.get("args", []), o.get("kwargs", {})
        if not (B.value_equiv(list(a["args"]), list(ea)) and list(a["kwargs"]) == list(ek) and all(B.value_equiv(a["kwargs"][k], ek[k]) for k in ek)):
            return {"expected": "node %d carries the operation's arguments %r %r" % (i, ea, ek), "actual": "%r %r" % (a["args"], a["kwargs"])}
    for i, j in g.edges:
        if not i < j:
            return {"expected": "every edge points from an earlier to a later operation", "actual": "edge %d -> %d" % (i, j)}
    if not nx.is_directed_acyclic_graph(g):
        return {"expected": "acyclic", "actual": "cycle %s" % nx.find_cycle(g)}
    wires = [set(d["modes"]) | set(d["regs"]) for d in desc]
    reach = [[i < j and bool(wires[i] & wires[j]) for j in range(n)] for i in range(n)]
    for k in range(n):                                             # chains i = k0 < k1 < ... = j, consecutive elements share a wire
        for i in range(k):
            if reach[i][k]:
                for j in range(k + 1, n):
                    if reach[k][j]:
                        reach[i][j] = True
    for i in range(n):
        desc_i = nx.descendants(g, i)
        for j in range(n):
            if i != j and (j in desc_i) != reach[i][j]:
                return {"expected": "operation %d %s from operation %d (wires %s)" % (j, "reachable" if reach[i][j] else "NOT reachable", i,
                                                                                        [sorted(w) for w in wires]),
                        "actual": "edges %s" % sorted(g.edges)}
    for t in range(6):
        order = _random_topo(g, "%s/%d" % (key, t)) if t else list(nx.topological_sort(g))
        if sorted(order) != list(range(n)):
            return {"expected": "a topological order of all operations", "actual": order}
        pos = {v: k for k, v in enumerate(order)}
        if any(pos[i] > pos[j] for i, j in g.edges):
            raise RuntimeError("internal: sampled order is not topological")
        for m in set().union(*[set(d["modes"]) for d in desc]) if desc else ():
            on = [i for i in order if m in desc[i]["modes"]]
            if on != sorted(on):
                return {"expected": "every topological order keeps program order on mode %d" % m, "actual": "order %s" % order}
    return None


register(Family("digraph", ["C16"], dg_cases, dg_check,
                bound="scripts of 0-12 operations over <= 4 modes out of 0..8, register references in positional/keyword position, 6 topological orders each",
                rule="script + abstract description (op, modes, registers); reachability oracle = transitive closure of 'earlier and shares a wire'"))


# =====================================================================================================================
# C17 template_match

def tm_cases(rng, n, tier):
    for _ in range(n):
        yield G.gen_template_case(rng, tier)


def _close(a, b, rel=1e-9):
    try:
        a, b = complex(a), complex(b)
    except Exception:
        return False
    return abs(a - b) <= rel * max(abs(a), abs(b), 1e-300)


def tm_check(case):
    import blackbird
    from blackbird.utils import match_template, TemplateError
    inp = case["input"]
    tpl = inp["template"]
    values = {k: float(v) for k, v in inp["values"].items()}
    order = inp["order"]
    t = blackbird.loads(G.template_script(tpl))
    if inp["via"] == "call":
        inst = t(**values)
        inst._operations = [inst._operations[i] for i in order]
    else:
        inst = blackbird.loads(G.template_script(tpl, values, order))
    ed = inp.get("edit")
    if ed:
        k = ed["kind"]
        if k == "gate-name":
            inst.operations[ed["index"]]["op"] = ed["to"]
        elif k == "mode-list":
            inst.operations[ed["index"]]["modes"] = list(ed["to"])
            inst._modes = set(m for o in inst.operations for m in o["modes"])
        elif k == "version":
            inst._version = ed["to"]
        elif k == "target":
            inst._target["name"] = ed["to"]
        elif k == "swap-order":
            i = ed["index"]
            inst._operations[i], inst._operations[i + 1] = inst._operations[i + 1], inst._operations[i]
        try:
            res = match_template(t, inst)
        except Exception as e:
            if type(e) is TemplateError:
                return None
            return {"expected": "TemplateError for a program with a different %s" % k, "actual": _exc(e)}
        return {"expected": "TemplateError for a program with a different %s" % k, "actual": "matched: %r" % (res,)}
    try:
        res = match_template(t, inst)
    except Exception as e:
        return {"expected": "match succeeds with %s" % inp["values"], "actual": _exc(e)}
    used = sorted({a["param"] for o in tpl["ops"] if o["args"] for a in o["args"] if "param" in a})
    if not isinstance(res, dict) or sorted(res) != used:
        return {"expected": "values for exactly the parameters %s" % used, "actual": repr(res)}
    for p_ in used:
        if not _close(res[p_], values[p_]):
            return {"expected": "%s = %r (rel 1e-9)" % (p_, values[p_]), "actual": repr(res[p_])}
    got = {k: float(v) for k, v in res.items()}
    for pos, i in enumerate(order):
        o = tpl["ops"][i]
        if o["args"] is None:
            continue
        for j, a in enumerate(o["args"]):
            y = inst.operations[pos]["args"][j]
            x = G.affine_value(a, got)
            if abs(complex(x) - complex(y)) > 1e-9 * max(1.0, abs(complex(y))):
                return {"expected": "substituting the returned values reproduces argument %d of operation %d: %r" % (j, pos, y), "actual": repr(x)}
    return None


register(Family("template_match", ["C17"], tm_cases, tm_check,
                bound="templates of 1-7 operations over <= 4 modes, <= 3 parameters, 10 affine forms, values 1e-8..1e7 of either sign, "
                      "reorderings by <= 11 adjacent swaps of mode-disjoint operations, 5 kinds of single structural edits",
                rule="abstract template + values + order + edit; class = repetition shape / reordered / negative kind"))


# =====================================================================================================================
# include trees on disk (shared by include_inline and hashseed)

def _write_tree(inp, root):
    files = G.include_files(inp)
    for rel, text in files.items():
        path = os.path.join(root, rel)
        os.makedirs(os.path.dirname(path), exist_ok=True)
        with open(path, "w") as f:
            f.write(text.replace("@ROOT@", root))
    return os.path.join(root, inp["main"]["dir"], inp["main"]["file"])


# =====================================================================================================================
# C07 include_inline

def inc_cases(rng, n, tier):
    for _ in range(n):
        yield G.gen_include_case(rng, tier)


def inc_check(case):
    import blackbird
    inp = case["input"]
    root = os.path.realpath(tempfile.mkdtemp(prefix="bb_inc_"))
    other = os.path.realpath(tempfile.mkdtemp(prefix="bb_cwd_"))
    old = os.getcwd()
    try:
        main_path = _write_tree(inp, root)
        cwd = {"unrelated": other, "root": root, "main-dir": os.path.dirname(main_path), "slash": "/",
               "lib-dir": os.path.join(root, inp["libs"][0]["dir"])}[inp["cwd"]]
        arg = main_path if inp["load"] == "abs" else os.path.relpath(main_path, cwd)
        exc = p = None
        os.chdir(cwd)
        try:
            p = blackbird.load(arg)
        except Exception as e:
            exc = e
        finally:
            os.chdir(old)
        files = G.include_files(inp)
        shown = _clip("\n".join("### %s\n%s" % kv for kv in sorted(files.items())), 2500)
        if inp.get("negative"):
            if exc is None:
                return {"expected": "ValueError for %s" % inp["negative"]["kind"], "actual": "loaded: %r\n%s" % (p.operations[-3:], shown)}
            if not isinstance(exc, ValueError):
                return {"expected": "ValueError for %s" % inp["negative"]["kind"], "actual": "%s\n%s" % (_exc(exc).replace(root, "@ROOT@"), shown)}
            return None
        if exc is not None:
            return {"expected": "load(%r) from cwd=%s succeeds" % (arg.replace(root, "@ROOT@"), inp["cwd"]),
                    "actual": "%s\n%s" % (_exc(exc).replace(root, "@ROOT@"), shown)}
        ops = G.inline_expected(inp)
        none = {"name": None, "options": {}}
        exp = types.SimpleNamespace(name=inp["main"]["name"], version=inp["main"]["version"], target=none, programtype=none, parameters=set(),
                                    operations=ops, modes={m for o in ops for m in o["modes"]})
        d = B.program_diff(exp, p, exact=False, rel=1e-12)
        if d:
            return {"expected": "the textually inlined program: %s" % _clip(ops, 1200), "actual": "%s\n%s" % (d, shown)}
        return None
    finally:
        shutil.rmtree(root, ignore_errors=True)
        shutil.rmtree(other, ignore_errors=True)


register(Family("include_inline", ["C07"], inc_cases, inc_check,
                bound="1-4 library files nested 1-3 deep in <= 5 directories, 12 mode sets (e.g. {3,10}, {1,8,16}), 1-3 calls (+ call in a loop), "
                      "relative/absolute include paths, 5 working directories, 5 kinds of ill-formed calls",
                rule="abstract tree (libraries, calls, bindings, layout, cwd); oracle = inlining computed from the description"))


# =====================================================================================================================
# C19 hashseed

def hs_cases(rng, n, tier):
    thorough = tier != "quick"
    ncases = min(n, 12 if thorough else 4)                          # subprocess-heavy: few bundles, many scripts per bundle
    for _ in range(ncases):
        items = [G.gen_hashseed_item(rng) for _ in range(24 if thorough else 16)]
        seeds = sorted(rng.sample(range(1, 100000), 16 if thorough else 4))
        yield {"class": "+".join(sorted({it["class"].split("/")[0] for it in items})), "input": {"items": items, "seeds": seeds}}


def hs_check(case):
    inp = case["input"]
    roots = []
    try:
        items = []
        for it in inp["items"]:
            if "script" in it:
                items.append({"script": it["script"]})
            elif "files" in it:                                    # literal tree {relative path: text}, entry point it["main"]
                root = os.path.realpath(tempfile.mkdtemp(prefix="bb_hs_"))
                roots.append(root)
                for rel, text in it["files"].items():
                    path = os.path.join(root, rel)
                    os.makedirs(os.path.dirname(path), exist_ok=True)
                    with open(path, "w") as f:
                        f.write(text.replace("@ROOT@", root))
                items.append({"path": os.path.join(root, it["main"])})
            else:
                root = os.path.realpath(tempfile.mkdtemp(prefix="bb_hs_"))
                roots.append(root)
                items.append({"path": _write_tree(it["include"], root)})
        payload = json.dumps({"items": items})
        procs = []
        for seed in inp["seeds"]:
            env = dict(os.environ)
            env["PYTHONHASHSEED"] = str(seed)
            for k in ("OMP_NUM_THREADS", "OPENBLAS_NUM_THREADS", "MKL_NUM_THREADS"):
                env.setdefault(k, "1")
            procs.append((seed, subprocess.Popen([sys.executable, "-m", "replay._hashseed_driver"], stdin=subprocess.PIPE, stdout=subprocess.PIPE,
                                                 stderr=subprocess.PIPE, env=env, text=True)))
        for _, pr in procs:
            pr.stdin.write(payload)
            pr.stdin.close()
        outs = {}
        for seed, pr in procs:
            out = pr.stdout.read()
            err = pr.stderr.read()
            if pr.wait() != 0:
                raise RuntimeError("hashseed driver failed (seed %d): %s" % (seed, err[-800:]))
            outs[seed] = json.loads(out.strip().splitlines()[-1])
        ref_seed = inp["seeds"][0]
        for k, it in enumerate(inp["items"]):
            variants = {}
            for seed in inp["seeds"]:
                variants.setdefault(outs[seed][k], []).append(seed)
            if len(variants) > 1:
                (a, sa), (b, sb) = sorted(variants.items(), key=lambda kv: kv[1])[:2]
                la, lb = a.split("\n"), b.split("\n")
                diff = [(x, y) for x, y in zip(la, lb) if x != y] or [(a, b)]
                src = it.get("script") or _clip("\n".join("### %s\n%s" % kv for kv in sorted((it.get("files") or G.include_files(it["include"])).items())), 2000)
                return {"class": it["class"], "expected": "one description for all PYTHONHASHSEED values %s; item %d:\n%s" % (inp["seeds"], k, src),
                        "actual": "%d distinct; seeds %s: %s  vs  seeds %s: %s" % (len(variants), sa, _clip(diff[0][0], 500), sb, _clip(diff[0][1], 500))}
        return None
    finally:
        for r in roots:
            shutil.rmtree(r, ignore_errors=True)


register(Family("hashseed", ["C19"], hs_cases, hs_check, parallel=False,
                bound="quick: 4 bundles x 16 scripts x 4 PYTHONHASHSEED values; thorough: 12 x 24 x 16 (subprocesses, run in parallel per bundle)",
                rule="bundle of scripts/include trees with several parameters or registers per argument, array-valued parameters, includes on "
                     "unsorted mode sets; oracle: canonical description (dumps text, operations, transforms bound by register, parameters, variables) "
                     "identical for all seeds"))
