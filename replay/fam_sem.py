"""Semantic witness families: template_subst (C04), regref_transform (C08), syntax_errors (C10), illformed (C11),
history (C12), tdm (C15).  Oracles are taken from the property statements (properties.jsonl), not from the code.

Every check depends on case["input"] only.  The tree under test is whatever `import blackbird` finds on sys.path.
"""
import json
import os
import re
import subprocess
import sys
import warnings
from concurrent.futures import ThreadPoolExecutor

from . import base
from . import gen_sem as G
from .base import Family, register

warnings.simplefilter("ignore")


def _bb():
    import blackbird
    return blackbird


def _exc(e):
    return base.describe_exc(e)


def _fail(expected, actual, cls=None):
    d = {"expected": expected, "actual": actual}
    if cls:
        d["class"] = cls
    return d


def _num_like(a, b, rel=1e-9):
    """numeric comparison that ignores int/float/complex class (used only where the statement compares values numerically)"""
    import numpy as np
    import sympy as sym
    for v in (a, b):
        if isinstance(v, (sym.Expr, str)) or not isinstance(v, (int, float, complex, np.number)):
            return False
    return base.num_close(a, b, rel)


def _vars_diff(pv, qv, rel=1e-9):
    """variables of an instance vs variables of the substituted script: scalars by value equivalence, arrays same shape and
    numerically equal element-wise (an instantiated array holds Python objects, the substituted one typed numbers)"""
    import numpy as np
    if set(pv) != set(qv):
        return "variable names %r vs %r" % (sorted(pv), sorted(qv))
    for k in pv:
        a, b = pv[k], qv[k]
        if isinstance(a, np.ndarray) and isinstance(b, np.ndarray):
            if a.shape != b.shape:
                return "variable %s: shape %r vs %r" % (k, a.shape, b.shape)
            if a.dtype.kind == "O" or b.dtype.kind == "O" or a.dtype.kind != b.dtype.kind:
                for x, y in zip(a.flatten(), b.flatten()):
                    if not _num_like(x, y, rel):
                        return "variable %s: element %r vs %r in %r vs %r" % (k, x, y, a.tolist(), b.tolist())
                continue
        if not base.value_equiv(a, b, False, rel):
            return "variable %s: %r (%s) vs %r (%s)" % (k, a, base.kind(a), b, base.kind(b))
    return None


# =====================================================================================================================
# C04 template_subst

_PAR_RE = re.compile(r"\{([A-Za-z][0-9A-Za-z_]*)\}")


def substitute(text, vals):
    """the script in which every {p} has been replaced by its parenthesised value; a 2-D value is written out element by
    element, one array row per row (the generator puts a whole-array parameter alone on an indented row)"""
    def rep(m):
        v = vals[m.group(1)]
        if isinstance(v, list):
            return "\n    ".join(", ".join("(%s)" % G.fmt_num(x) for x in row) for row in v)
        return "(%s)" % G.fmt_num(v)
    return _PAR_RE.sub(rep, text)


def _pick_names(rng, k):
    names = []
    r = rng.random()
    if k >= 2 and r < 0.35:
        names += list(rng.choice([("a", "ab"), ("ab", "a"), ("alpha", "alpha_1"), ("x", "xx"), ("ab", "abc"), ("p1", "p12")]))
    elif r < 0.6:
        names.append(rng.choice(["p1", "p0", "p12"]))
    while len(names) < k:
        n = rng.choice(G.PARAM_NAMES)
        if n not in names:
            names.append(n)
    names = names[:k]
    rng.shuffle(names)
    return names


def _c(rng, kind=None, nonzero=True):
    kind = kind or rng.choice(["int", "float"])
    if kind == "int":
        return ["num", str(rng.choice([1, 2, 2, 3, 4, 5, 7, 10, 12]))]
    return ["num", rng.choice(["0.5", "1.5", "2.0", "0.25", "3.3", "1e-2", "2.5e1", "0.1", "1.0"])]


def _texpr(rng, pars, roles, extra_leaf=None, int_only=False):
    """expression AST over the given parameter names (each used once); fills roles[name] with constraints on its values"""
    P = [["par", p] for p in pars]
    c = (lambda: _c(rng, "int")) if int_only else (lambda: _c(rng))
    if len(P) == 1:
        p = P[0]
        shapes = ["p", "neg", "cp", "pc", "cp+c", "p-c", "c-p", "p2", "npw", "(p+c)c", "(p+c)2", "p+p"]
        if not int_only:
            shapes += ["p/c", "c/p", "c**p", "(p+c)/c", "c/(p+c)", "p**-1", "p**c"]
        if extra_leaf:
            shapes += ["v*p", "p+v", "v*p", "p+v"] + ([] if int_only else ["p/v"])
        s = rng.choice(shapes)
        if s == "p":
            return p
        if s == "neg":
            return ["neg", p]
        if s == "cp":
            return ["mul", c(), p]
        if s == "pc":
            return ["mul", p, c()]
        if s == "cp+c":
            return ["add", ["mul", c(), p], c()]
        if s == "p-c":
            return ["sub", p, c()]
        if s == "c-p":
            return ["sub", c(), p]
        if s == "p2":
            return ["pow", p, ["num", rng.choice(["2", "3"])]]
        if s == "npw":
            return ["npw", p, ["num", rng.choice(["2", "3"])]]
        if s == "(p+c)c":
            return ["mul", ["add", p, c()], c()]
        if s == "(p+c)2":
            return ["pow", ["add", p, c()], ["num", "2"]]
        if s == "p+p":
            return ["add", ["mul", c(), p], p]
        if s == "p/c":
            return ["div", p, c()]
        if s == "c/p":
            roles[p[1]] = "nonzero"
            return ["div", c(), p]
        if s == "c**p":
            roles[p[1]] = "exp"
            return ["pow", ["num", rng.choice(["2", "3", "1.5", "10"])], p]
        if s == "(p+c)/c":
            return ["div", ["add", p, c()], c()]
        if s == "c/(p+c)":
            return ["div", c(), ["add", p, c()]]
        if s == "p**-1":
            roles[p[1]] = "nonzero"
            return ["pow", p, ["neg", ["num", "1"]]]
        if s == "p**c":
            roles[p[1]] = "positive"
            return ["pow", p, ["num", rng.choice(["0.5", "1.5"])]]
        if s == "v*p":
            return ["mul", extra_leaf, p]
        if s == "p+v":
            return ["add", p, extra_leaf]
        if s == "p/v":
            return ["div", p, extra_leaf]
    if len(P) == 2:
        p, r = P
        shapes = ["p*r", "p+r", "p-r", "cp+cr", "p(r+c)"]
        if not int_only:
            shapes += ["p/r", "p**r", "(p+c)/r", "c*p/r"]
        s = rng.choice(shapes)
        if s == "p*r":
            return ["mul", p, r]
        if s == "p+r":
            return ["add", p, r]
        if s == "p-r":
            return ["sub", p, r]
        if s == "cp+cr":
            return ["add", ["mul", c(), p], ["mul", c(), r]]
        if s == "p(r+c)":
            return ["mul", p, ["add", r, c()]]
        if s == "p/r":
            roles[r[1]] = "nonzero"
            return ["div", p, r]
        if s == "p**r":
            roles[p[1]] = "positive"
            roles[r[1]] = "exp"
            return ["pow", p, r]
        if s == "(p+c)/r":
            roles[r[1]] = "nonzero"
            return ["div", ["add", p, c()], r]
        if s == "c*p/r":
            roles[r[1]] = "nonzero"
            return ["div", ["mul", c(), p], r]
    p, r, s3 = P[:3]
    if int_only or rng.random() < 0.5:
        return ["add", ["mul", p, r], s3]
    roles[s3[1]] = "nonzero"
    return ["div", ["mul", p, r], s3]


def _tvalue(rng, role, kind):
    if role == "exp":
        return rng.choice([1, 2, 3, -1, -2]) if kind != "float" else rng.choice([0.5, 1.5, 2.5, -0.5])
    if kind == "int":
        v = G.rand_int(rng, nonzero=role in ("nonzero", "positive"))
        return abs(v) if role == "positive" else v
    return G.rand_float(rng, positive=(role == "positive"))


def _tmpl_build(rng):
    """one template script + two value assignments; returns (class, input) or None if the draw was unfit"""
    feats = set()
    special = None
    r = rng.random()
    if r < 0.02:
        special = "function-of-parameter"
    elif r < 0.035:
        special = "kwarg-list-element-parameter"
    elif r < 0.05:
        special = "param-array-as-argument"
    elif r < 0.06:
        special = "python-keyword-parameter-name"
    elif r < 0.075:
        special = "scalar-init/value-kind-differs-from-declared-type"
    elif r < 0.085:
        special = "no-parameters"
    k = rng.randint(1, 4)
    names = _pick_names(rng, k)
    if special == "python-keyword-parameter-name":
        names[0] = rng.choice(["lambda", "is", "def", "class", "None", "if", "as", "yield"])
    if special == "no-parameters":
        names = []
    if any(re.fullmatch(r"p\d+", n) for n in names):
        feats.add("pname")
    if any(a != b and b.startswith(a) for a in names for b in names):
        feats.add("prefix-names")
    if any(n[0].isupper() for n in names):
        feats.add("upper")
    unused = list(names)
    roles, kinds = {}, {}                      # kinds[name] = forced value kind ("int"/"float"/"complex-ok")
    lines = G.header(rng, typ=None)
    if rng.random() < 0.15:
        lines.insert(len(lines) - 1, "type %s" % rng.choice(["standard", "TDM (copies=1)", "other (n=2)"]))   # NOT tdm
    env_decl = []                              # [(varname, ast or None, type)] scalars in order
    plain = {}                                 # numeric constants declared: name -> value
    exprs = []                                 # (ast, loopvals or None) for the conditioning check
    arrays = []                                # (name, type, [[elem]], indexed?)  elem = ["par", n] | ["num", t]
    whole = {}                                 # whole-array parameter name -> (rows, cols, type)
    stmts = []

    def take(n=None, allow_reuse=True):
        n = n or rng.choice([1, 1, 1, 2, 2, 3])
        out = []
        while unused and len(out) < n:
            out.append(unused.pop(rng.randrange(len(unused))))
        while allow_reuse and len(out) < n and rng.random() < 0.3:
            cand = [x for x in names if x not in out and x not in whole and kinds.get(x) != "arrayonly"]
            if not cand:
                break
            out.append(rng.choice(cand))
        return out

    # a plain numeric variable now and then, usable inside arithmetic
    if rng.random() < 0.4:
        vn, vt = rng.choice([("y0", "float"), ("m", "int")])
        val = rng.choice([2, 3, 5]) if vt == "int" else rng.choice([0.5, 2.5, 1.25])
        lines.append("%s %s = %s" % (vt, vn, G.fmt_num(val)))
        plain[vn] = val

    def leaf_var():
        if plain and rng.random() < 0.5:
            return ["var", rng.choice(sorted(plain))]
        return None

    # --- declarations that carry parameters
    if names and special is None and rng.random() < 0.4:                    # scalar initialiser, then used
        ty = rng.choice(["float", "float", "int"])
        ps = take(rng.choice([1, 1, 2]), allow_reuse=False)
        if ps:
            ast = _texpr(rng, ps, roles, leaf_var() if ty == "float" else None, int_only=(ty == "int"))
            for p in ps:
                kinds[p] = ty
            vn = rng.choice(["y", "z", "w", "u_1"])
            lines.append("%s %s = %s" % (ty, vn, G.show(ast)))
            env_decl.append((vn, ast, ty))
            exprs.append((ast, None))
            feats.add("scalar-init")
    if special == "scalar-init/value-kind-differs-from-declared-type":
        ty = rng.choice(["float", "int"])
        p = unused.pop(0)
        kinds[p] = "int" if ty == "float" else "float"
        ast = ["par", p]
        lines.append("%s y = %s" % (ty, G.show(ast)))
        env_decl.append(("y", ast, ty))
    if names and special in (None, "param-array-as-argument") and (special or rng.random() < 0.45):   # bare {p} as elements
        ty = rng.choice(["float", "float", "int", "complex"])
        nr, nc = rng.randint(1, 3), rng.randint(1, 4)
        if nr * nc == 1:
            nc = 2
        cells = [(i, j) for i in range(nr) for j in range(nc)]
        npar = min(len(cells), rng.choice([1, 1, 2, 2, 3, nr * nc]))
        where = rng.sample(cells, npar)
        if rng.random() < 0.5:
            where[0] = rng.choice([(0, 0), (nr - 1, nc - 1)])                # first / last position on purpose
        where = sorted(set(where))
        pool = take(min(len(where), rng.randint(1, 3)), allow_reuse=True) or [rng.choice(names)]
        pool = [p for p in pool if kinds.get(p) in (None, ty)] or None
        if pool:
            intvals = ty == "int" or (ty == "float" and rng.random() < 0.2)
            rows = []
            for i in range(nr):
                row = []
                for j in range(nc):
                    if (i, j) in where:
                        p = pool[where.index((i, j)) % len(pool)]
                        row.append(["par", p])
                        if ty == "int":
                            kinds[p] = "int"
                        elif ty == "float":
                            kinds.setdefault(p, "int" if intvals else "float")
                        else:
                            kinds.setdefault(p, rng.choice(["float", "int", "complex"]))
                    else:
                        t = str(rng.randint(-5, 9)) if ty == "int" else rng.choice(["", "-"]) + G.number_text(rng)
                        row.append(["num", t])
                rows.append(row)
            an = rng.choice(["Arr", "B", "M_1"])
            lines += G.array_decl(ty, an, [[G.show(e) for e in row] for row in rows], shape=rng.random() < 0.4)
            indexable = ty == "float" and not intvals
            arrays.append((an, ty, rows, indexable))
            feats.add("array-elements" + ("-multirow" if nr > 1 else ""))
            if len(where) > 1:
                feats.add("array-several-params")
    if names and special in (None, "param-array-as-argument") and unused and rng.random() < 0.3:       # whole array
        ty = rng.choice(["float", "float", "int", "complex"])
        wn = unused.pop(rng.randrange(len(unused)))
        nr, nc = rng.randint(1, 3), rng.randint(1, 3)
        lines += ["%s array W_%s[%d, %d] =" % (ty, "a" if wn != "a" else "b", nr, nc), "    {%s}" % wn]
        whole[wn] = (nr, nc, ty, ty == "int" or (ty == "float" and rng.random() < 0.2))
        feats.add("array-whole")

    # --- statements
    def arg_expr(loopvar=None):
        ps = take()
        if not ps:
            ps = [rng.choice([n for n in names if n not in whole and kinds.get(n) != "complex"] or [None])]
            if ps[0] is None:
                return None
        ps = [p for p in ps if kinds.get(p) != "complex"]
        if not ps:
            return None
        extra = ["var", loopvar] if loopvar and rng.random() < 0.7 else leaf_var()
        ast = _texpr(rng, ps, roles, extra)
        if ast[0] != "par":
            feats.add("arithmetic")
        return ast

    def plain_arg():
        r2 = rng.random()
        if r2 < 0.5:
            return G.number_text(rng)
        if r2 < 0.65:
            return rng.choice(['"txt"', "True", "False"])
        if r2 < 0.8 and plain:
            return rng.choice(sorted(plain))
        if r2 < 0.9 and env_decl:
            return env_decl[0][0] + rng.choice(["", "*2", " + 1"])
        return "pi/2"

    def make_stmt(loopvar=None, loopvals=None):
        args, kw = [], []
        for _ in range(rng.randint(0, 3)):
            if rng.random() < 0.6 and names:
                a = arg_expr(loopvar)
                if a is not None:
                    exprs.append((a, (loopvar, loopvals) if loopvar else None))
                    args.append(G.show(a))
                    feats.add("positional")
                    continue
            args.append(plain_arg())
        for kname in rng.sample(G.KWNAMES[:5], rng.choice([0, 0, 1, 2])):
            if rng.random() < 0.7 and names:
                a = arg_expr(loopvar)
                if a is not None:
                    exprs.append((a, (loopvar, loopvals) if loopvar else None))
                    kw.append((kname, G.show(a)))
                    feats.add("keyword")
                    continue
            kw.append((kname, plain_arg()))
        for (an, ty, rows, indexable) in arrays:
            if indexable and rng.random() < 0.3:
                flat = [e for row in rows for e in row]
                args.append("%s[%d]" % (an, rng.randrange(len(flat))))
                feats.add("array-index-use")
        for wn, (nr, nc, ty, intvals) in whole.items():
            if ty == "float" and not intvals and rng.random() < 0.3:
                args.append("W_%s[%d]" % ("a" if wn != "a" else "b", rng.randrange(nr * nc)))
                feats.add("array-index-use")
        modes = [str(m) for m in rng.sample(range(0, 5), rng.randint(1, 2))]
        if loopvar and rng.random() < 0.5:
            modes[0] = loopvar
        return G.call_text(rng.choice(G.OPS), args, kw, G.modes_text(rng, modes))

    if special == "function-of-parameter":
        p = (unused or names)[0]
        if p in unused:
            unused.remove(p)
        fn = rng.choice(["sin", "cos", "exp", "sqrt", "log", "arctan", "tanh"])
        roles[p] = "positive"
        kinds[p] = "float"
        stmts.append(G.call_text("Sgate", ["%s({%s})" % (fn, p)] if rng.random() < 0.6 else ["2*%s({%s}) + 1" % (fn, p)], [], "0"))
    if special == "kwarg-list-element-parameter":
        p = unused.pop(0)
        stmts.append("Dgate(x=[%s]) | 0" % rng.choice(["{%s}, 2", "1, {%s}", "{%s}", "0.5, 2*{%s}"]) % p)
    if special == "param-array-as-argument" and (arrays or whole):
        an = arrays[0][0] if arrays else "W_%s" % ("a" if list(whole)[0] != "a" else "b")
        stmts.append(rng.choice(["Interferometer(%s) | [0, 1]", "Ggate(U=%s) | 0"]) % an)
    elif special == "param-array-as-argument":
        return None
    n_st = rng.randint(1, 3)
    for _ in range(n_st):
        stmts.append(make_stmt())
    if rng.random() < 0.35 or (unused and rng.random() < 0.5):
        lv = rng.choice(["i", "j", "m2"])
        if rng.random() < 0.5:
            a0, a1 = rng.randint(1, 3), rng.randint(4, 6)
            st = rng.choice([1, 1, 2])
            head, lvals = "for int %s in %d:%d%s" % (lv, a0, a1, ":%d" % st if st != 1 or rng.random() < 0.2 else ""), list(range(a0, a1, st))
        else:
            lvals = [rng.randint(1, 6) for _ in range(rng.randint(1, 3))]
            head = "for int %s in [%s]" % (lv, ", ".join(map(str, lvals)))
        body = ["    " + make_stmt(lv, lvals) for _ in range(rng.randint(1, 2))]
        stmts.insert(rng.randint(0, len(stmts)), "\n".join([head] + body))
        feats.add("loop")
    guard = 0
    while unused and guard < 6:                # every parameter written at least once
        guard += 1
        stmts.append(make_stmt())
    if unused:
        return None
    if arrays or whole or env_decl or plain:
        lines.append("")
    script = "\n".join(lines + stmts) + "\n"
    if special and special != "no-parameters":
        feats = {special}

    # --- values: two assignments, each checked to be inside the property's domain
    written = set(_PAR_RE.findall(script))
    if written != set(names):
        return None
    valsets = []
    for _ in range(2 if rng.random() < 0.4 else 1):
        for attempt in range(40):
            vals = {}
            for n in names:
                if n in whole:
                    nr, nc, ty, intvals = whole[n]
                    vals[n] = [[(G.rand_int(rng) if intvals else G.rand_float(rng)) for _ in range(nc)]
                               for _ in range(nr)]
                    if ty == "complex" and rng.random() < 0.5:
                        vals[n][0][0] = complex(G.rand_int(rng, small=True), G.rand_int(rng, small=True, nonzero=True))
                    continue
                kd = kinds.get(n) or rng.choice(["int", "float", "float"])
                if kd == "complex":
                    vals[n] = complex(G.rand_int(rng, small=True), G.rand_int(rng, small=True, nonzero=True))
                else:
                    vals[n] = _tvalue(rng, roles.get(n, "any"), kd)
            try:
                env = dict(plain)
                env.update({n: v for n, v in vals.items() if not isinstance(v, (list, complex))})
                for vn, ast, ty in env_decl:
                    v, _k = G.ev(ast, env)
                    env[vn] = v
                for ast, loop in exprs:
                    if loop:
                        for lval in loop[1]:
                            e2 = dict(env)
                            e2[loop[0]] = lval
                            G.ev(ast, e2)
                    else:
                        G.ev(ast, env)
            except (G.Unfit, KeyError):
                continue
            valsets.append(vals)
            break
        else:
            return None
    inp = {"script": script, "values": [{k: G.enc(v) for k, v in vs.items()} for vs in valsets]}
    if whole and rng.random() < 0.5:
        inp["as_ndarray"] = True
    if special == "param-array-as-argument":
        # a sub-class of its own: every entry of the passed array (written numbers and the values given to its parameters) is of a NARROWER
        # kind than the declared element type (a complex array with real values only, a float array with integers only)
        def narrower(ty, vs):
            ks = set()
            if arrays:
                for row in arrays[0][2]:
                    for c in row:
                        v = vs.get(c[1]) if c[0] == "par" else G.ev(c, {})[0]
                        ks.add("complex" if isinstance(v, complex) else "int" if isinstance(v, int) and not isinstance(v, bool) else "float")
            else:
                for row in vs[list(whole)[0]]:
                    for v in row:
                        ks.add("complex" if isinstance(v, complex) else "int" if isinstance(v, int) and not isinstance(v, bool) else "float")
            return (ty == "complex" and "complex" not in ks) or (ty == "float" and ks == {"int"})
        try:
            ty0 = arrays[0][1] if arrays else whole[list(whole)[0]][2]
            if any(narrower(ty0, vs) for vs in valsets):
                feats = {"param-array-as-argument/value-kinds-narrower-than-declared-type"}
        except Exception:                        # noqa: classification only
            pass
    return ("+".join(sorted(feats)) or "plain", inp)


def _tmpl_cases(rng, n, tier):
    out = 0
    while out < n:
        got = _tmpl_build(rng)
        if got is None:
            continue
        out += 1
        yield {"class": got[0], "input": got[1]}


def _tmpl_check(case):
    import numpy as np
    bb = _bb()
    inp = case["input"]
    T = inp["script"]
    valsets = [{k: G.dec(v) for k, v in vs.items()} for vs in inp["values"]]
    written = set(_PAR_RE.findall(T))
    expected = set()
    for w in written:
        v = valsets[0].get(w) if valsets else None
        if isinstance(v, list):
            expected |= {"%s_%d_%d" % (w, i, j) for i, row in enumerate(v) for j, _x in enumerate(row)}
        else:
            expected.add(w)
    try:
        P = bb.loads(T)
    except Exception as e:
        return _fail("the template script loads (parameters allowed anywhere a numeric expression is)", "loads raised " + _exc(e))
    if P.parameters != expected:
        return _fail("parameters == %r (exactly the written names)" % sorted(expected), "parameters == %r" % sorted(P.parameters))
    if bool(P.is_template()) != bool(expected):
        return _fail("is_template() == %r" % bool(expected), "is_template() == %r" % P.is_template())
    if not expected:
        try:
            P()
        except ValueError:
            return None
        except Exception as e:
            return _fail("calling a non-template raises ValueError", _exc(e))
        return _fail("calling a non-template raises ValueError", "returned a program")
    for vi, vals in enumerate(valsets):
        call = {k: (np.array(v) if (inp.get("as_ndarray") and isinstance(v, list)) else v) for k, v in vals.items()}
        try:
            Q = P(**call)
        except Exception as e:
            return _fail("instantiation #%d with %r succeeds" % (vi, vals), "raised " + _exc(e))
        if Q.parameters != set() or Q.is_template():
            return _fail("instance has no free parameters", "parameters %r, is_template %r" % (sorted(Q.parameters), Q.is_template()))
        Tp = substitute(T, vals)
        try:
            R = bb.loads(Tp)
        except Exception as e:
            return _fail("the substituted script loads:\n" + Tp, "raised " + _exc(e))
        d = base.program_diff(Q, R, exact=False, rel=1e-9, check_vars=False) or _vars_diff(Q.variables, R.variables)
        if d:
            return _fail("instance #%d == load of substituted text:\n%s" % (vi, Tp), "instance vs substituted: " + d)
        try:
            Q(**call)
            return _fail("calling an instance (not a template) raises ValueError", "returned a program")
        except ValueError:
            pass
        except Exception as e:
            return _fail("calling an instance (not a template) raises ValueError", _exc(e))
        if P.parameters != expected:
            return _fail("the template is unchanged by instantiation", "template parameters now %r" % sorted(P.parameters))
    keys = sorted(valsets[0])
    for drop in {keys[0], keys[-1]}:
        call = {k: v for k, v in valsets[0].items() if k != drop}
        try:
            P(**call)
            return _fail("missing value for %r is refused with ValueError" % drop, "returned a program")
        except ValueError:
            pass
        except Exception as e:
            return _fail("missing value for %r is refused with ValueError" % drop, _exc(e))
    return None


register(Family(
    "template_subst", ["C04"], _tmpl_cases, _tmpl_check,
    bound="random template scripts, 1-4 parameters (names incl. prefixes of one another, p<digits>, upper case, SymPy singleton "
          "letters) in positional/keyword arguments, arithmetic, typed scalar initialisers, bare array elements at any position, "
          "whole arrays with declared shape, loop bodies with >=1 iteration (loop values >= 1); one or two value assignments each "
          "(ints |v|<=1e5, floats 1e-5..1e8 either sign, 2-D lists/ndarrays), filtered so that no sub-expression divides by ~0, "
          "cancels (amplification <= 1e5) or leaves the int64 range; values have the declared kind where a parameter feeds a "
          "typed scalar/int array (the opposite is its own rare class)",
    rule="a case = (template text, one or two assignments); oracle = loads of the text with every {p} replaced by (value); "
         "rel 1e-9; array variables compared numerically element-wise; also parameters/is_template/no-free-parameters/ValueError clauses"))


# =====================================================================================================================
# C08 regref_transform

_REG_POOL = [0, 1, 2, 3, 4, 5, 7, 9, 10, 11, 12, 17, 23, 31, 100, 128]


def _rr_expr(rng, regs, numvars):
    """rational expression AST in which every register of `regs` occurs"""
    def coef():
        r = rng.random()
        if r < 0.4:
            return ["num", str(rng.randint(2, 9))]
        if r < 0.8 or not numvars:
            return ["num", rng.choice(["0.5", "1.5", "2.25", "0.1", "3.0", "1e-1", "12.5"])]
        return ["var", rng.choice(sorted(numvars))]

    def power(x):
        r = rng.random()
        if r < 0.65:
            return x
        if r < 0.9:
            return ["pow", x, ["num", rng.choice(["2", "2", "3"])]]
        return ["pow", x, ["neg", ["num", "1"]]] if rng.random() < 0.5 else ["pow", x, ["br", ["neg", ["num", rng.choice(["1", "2"])]]]]

    pending = list(regs)
    rng.shuffle(pending)
    terms = []
    while pending:
        take = [pending.pop() for _ in range(min(len(pending), rng.choice([1, 1, 2])))]
        t = power(["reg", take[0]])
        for x in take[1:]:
            t = [rng.choice(["mul", "mul", "div"]), t, power(["reg", x])]
        r = rng.random()
        if r < 0.35:
            t = ["mul", coef(), t]
        elif r < 0.5:
            t = ["mul", t, coef()]
        elif r < 0.6:
            t = ["div", t, coef()]
        elif r < 0.7:
            t = ["div", coef(), ["add", t, coef()]]
        elif r < 0.75:
            t = ["neg", t]
        terms.append(t)
    if rng.random() < 0.4:
        terms.insert(rng.randint(0, len(terms)), coef())
    if rng.random() < 0.25:                                      # a register occurring twice
        terms.append(["mul", coef(), ["reg", rng.choice(regs)]])
    e = terms[0]
    for t in terms[1:]:
        e = [rng.choice(["add", "add", "sub"]), e, t]
    r = rng.random()
    if r < 0.12:
        e = ["mul", coef(), e]
    elif r < 0.2:
        e = ["div", e, coef()]
    elif r < 0.26:
        e = ["pow", e, ["num", "2"]]
    elif r < 0.3:
        e = ["neg", e]
    elif r < 0.36:
        e = ["div", coef(), e]
    return e


def _rr_points(rng, ast, regs, env):
    """measurement assignments at which the expression is well conditioned and depends on every register"""
    pts = []
    for attempt in range(60):
        if attempt % 4 == 3:
            m = {"q%d" % r: rng.randint(-3, 5) for r in regs}                       # photon-number-like integers
        else:
            m = {"q%d" % r: round(rng.uniform(-4, 4), rng.choice([2, 6, 15])) for r in regs}
        e2 = dict(env)
        e2.update(m)
        try:
            v, k = G.ev(ast, e2)
            ok = True
            for r in regs:
                e3 = dict(e2)
                e3["q%d" % r] = e3["q%d" % r] + 0.8125
                v3, _k = G.ev(ast, e3)
                if abs(v3 - v) <= 1e-6 * max(1.0, abs(v)):
                    ok = False
            if not ok:
                continue
        except G.Unfit:
            continue
        pts.append({k2[1:]: v2 for k2, v2 in m.items()})
        if len(pts) == 3:
            break
    return pts


def _rr_build(rng):
    lines = G.header(rng)
    numvars = {}
    for vn, ty in rng.sample([("x", "float"), ("n", "int"), ("gain", "float"), ("k_2", "int")], rng.randint(0, 2)):
        numvars[vn] = rng.choice([2, 3, 4]) if ty == "int" else rng.choice([0.5, 1.25, 2.5, 0.3])
        lines.append("%s %s = %s" % (ty, vn, G.fmt_num(numvars[vn])))
    if numvars:
        lines.append("")
    ops, feats = [], set()
    used_regs = set()
    n_ops = rng.randint(1, 3)
    for oi in range(n_ops):
        if rng.random() < 0.3:
            ms = sorted(rng.sample(_REG_POOL[:8], rng.randint(1, 2)))
            lines.append("%s | %s" % (rng.choice(G.MEASURES), ms[0] if len(ms) == 1 else "[%s]" % ", ".join(map(str, ms))))
            ops.append({"args": [], "kwargs": {}, "noargs": True})
        descs_pos, descs_kw, texts_pos, texts_kw = [], {}, [], []
        n_args = rng.randint(1, 3)
        for ai in range(n_args):
            r = rng.random()
            force = (oi == 0 and ai == 0)
            if force or r < 0.55:
                nreg = rng.choice([1, 1, 2, 2, 2, 3, 3, 4])
                regs = rng.sample(_REG_POOL, nreg)
                for _try in range(20):
                    ast = _rr_expr(rng, regs, numvars)
                    pts = _rr_points(rng, ast, regs, numvars)
                    if len(pts) >= 2:
                        break
                else:
                    return None
                d = {"t": "rrt", "ast": ast, "regs": sorted(regs), "meas": pts}
                feats.add("%dreg" % nreg)
                used_regs |= set(regs)
                if any(r2 >= 10 for r2 in regs):
                    feats.add("multidigit")
                if leaves(ast, "var"):
                    feats.add("var")
                txt = G.show(ast)
            elif r < 0.75:
                ast = rng.choice([["num", G.number_text(rng)], ["mul", ["num", "2"], ["num", "0.5"]]] +
                                 ([["mul", ["var", v], ["num", "2"]] for v in numvars] or [["num", "3"]]))
                d = {"t": "num", "ast": ast}
                txt = G.show(ast)
            elif r < 0.9:
                pn = rng.choice(["a", "ab", "p1", "q", "Q1", "x_1"])
                ast = rng.choice([["par", pn], ["mul", ["num", "2"], ["par", pn]], ["add", ["par", pn], ["num", "1.5"]]])
                d = {"t": "par", "names": [pn]}
                feats.add("with-template-parameter")
                txt = G.show(ast)
            else:
                s = rng.choice(["abc", "q0", "fock"])
                d = {"t": "str", "value": s}
                txt = '"%s"' % s
            if ai > 0 and rng.random() < 0.45 or (ai == 0 and rng.random() < 0.25 and n_args == 1):
                kn = [k for k in G.KWNAMES if k not in descs_kw][0] if rng.random() < 0.5 else "k%d" % ai
                descs_kw[kn] = d
                texts_kw.append((kn, txt))
                if d["t"] == "rrt":
                    feats.add("keyword")
            elif not texts_kw:
                descs_pos.append(d)
                texts_pos.append(txt)
                if d["t"] == "rrt":
                    feats.add("positional")
            else:
                kn = "kw%d" % ai
                descs_kw[kn] = d
                texts_kw.append((kn, txt))
                if d["t"] == "rrt":
                    feats.add("keyword")
        mode = rng.choice([20, 21, 6, 8])
        lines.append(G.call_text(rng.choice(G.OPS), texts_pos, texts_kw, str(mode)))
        ops.append({"args": descs_pos, "kwargs": descs_kw})
    script = "\n".join(lines) + "\n"
    return ("+".join(sorted(feats)), {"script": script, "ops": ops, "vars": numvars})


def leaves(ast, kind):
    return G.leaves(ast, kind)


def _rr_cases(rng, n, tier):
    out = 0
    while out < n:
        got = _rr_build(rng)
        if got is None:
            continue
        out += 1
        yield {"class": got[0], "input": got[1]}


def _rr_check_arg(bb, where, d, got, env):
    import sympy as sym
    is_rrt = isinstance(got, bb.RegRefTransform)
    if d["t"] == "rrt":
        if not is_rrt:
            return _fail("%s is a RegRefTransform over registers %r" % (where, d["regs"]), "%r (%s)" % (got, type(got).__name__))
        rr = list(got.regrefs)
        if sorted(rr) != d["regs"] or any(base.kind(x) != "int" for x in rr):
            return _fail("%s: regrefs are exactly %r, each once" % (where, d["regs"]), "regrefs %r" % (rr,))
        for m in d["meas"]:
            e2 = dict(env)
            e2.update({"q" + k: v for k, v in m.items()})
            want, _k = G.ev(d["ast"], e2)
            try:
                have = got.func(*[m[str(r)] for r in rr])          # listed order, whatever it is, pairs with func
            except Exception as e:
                return _fail("%s: func(*measurements in regrefs order) == %r at %r" % (where, want, m), "func raised " + _exc(e))
            if not _num_like(have, want, 1e-9):
                return _fail("%s: func(*[m[r] for r in regrefs=%r]) == %r (value of %s) at m=%r" % (where, rr, want, G.show(d["ast"]), m),
                             "%r" % (have,), )
        return None
    if is_rrt:
        return _fail("%s stays a plain value (no register occurs)" % where, "RegRefTransform %r" % (got,))
    if d["t"] == "num":
        want, _k = G.ev(d["ast"], env)
        if isinstance(got, sym.Expr) or not _num_like(got, want, 1e-12) or base.kind(got) != base.kind(want):
            return _fail("%s == %r" % (where, want), "%r (%s)" % (got, base.kind(got)))
    elif d["t"] == "str":
        if got != d["value"] or not isinstance(got, str):
            return _fail("%s == %r" % (where, d["value"]), "%r" % (got,))
    elif d["t"] == "par":
        if not isinstance(got, sym.Expr) or sorted(map(str, got.free_symbols)) != sorted(d["names"]):
            return _fail("%s is a symbolic expression over parameters %r, not a transform" % (where, d["names"]), "%r (%s)" % (got, type(got).__name__))
    return None


def _rr_check(case):
    bb = _bb()
    inp = case["input"]
    try:
        P = bb.loads(inp["script"])
    except Exception as e:
        return _fail("script loads", "raised " + _exc(e))
    ops = P.operations
    if len(ops) != len(inp["ops"]):
        return _fail("%d operations" % len(inp["ops"]), "%d operations" % len(ops))
    pars = set()
    for i, (o, d) in enumerate(zip(ops, inp["ops"])):
        if d.get("noargs"):
            continue
        args, kwargs = o.get("args", []), o.get("kwargs", {})
        if len(args) != len(d["args"]) or list(kwargs) != list(d["kwargs"]):
            return _fail("op %d: %d positional, keywords %r" % (i, len(d["args"]), list(d["kwargs"])), "%r / %r" % (args, kwargs))
        for j, (dd, a) in enumerate(zip(d["args"], args)):
            res = _rr_check_arg(bb, "op %d arg %d" % (i, j), dd, a, inp["vars"])
            if res:
                return res
        for kname, dd in d["kwargs"].items():
            res = _rr_check_arg(bb, "op %d kwarg %s" % (i, kname), dd, kwargs[kname], inp["vars"])
            if res:
                return res
        for dd in list(d["args"]) + list(d["kwargs"].values()):
            if dd["t"] == "par":
                pars |= set(dd["names"])
    if P.parameters != pars:
        return _fail("parameters == %r (registers are not parameters)" % sorted(pars), "%r" % sorted(P.parameters))
    return None


register(Family(
    "regref_transform", ["C08"], _rr_cases, _rr_check,
    bound="1-3 operations, arguments = polynomial/rational expressions over 1-4 distinct registers from %r with int/float "
          "coefficients and declared int/float variables, powers 2, 3, -1, -2, in positional and keyword position, next to plain "
          "numbers, strings and template parameters in OTHER arguments; 2-3 measurement assignments per argument (reals in "
          "[-4, 4] and small integers) filtered to be away from poles, well conditioned and to make the value depend on every "
          "register" % (_REG_POOL,),
    rule="oracle = own evaluation of the written expression; func is applied to the measurements in the order of the delivered "
         "regrefs list (any order accepted as long as it pairs with func); regrefs must be the registers occurring, each once"))


# =====================================================================================================================
# C10 syntax_errors

_SYN_BASES = [
    # every rule context once: metadata with target/type/options, include, scalars of every type, arrays with/without shape,
    # statements with args / kwargs / lists, all three mode bracket styles, Measure, range and list loops, parameters
    'name prog_A\nversion 1.0\ntarget X8_01 (shots=100, mode="fast", flag=True)\ntype tdm (temporal_modes=2, copies=1)\n'
    'include "lib.xbb"\n\nfloat alpha = 0.3423\nint n = 3\ncomplex c = 1+2j\nstr s = "hello"\nbool b = True\n'
    'float array A =\n    1.0, 2.5\n    -0.3, 4\nint array B[1, 3] =\n    1, 2, 3\n\n'
    'Sgate(alpha, 0) | 0\nBSgate(phi=alpha/2, theta=sqrt(2)*pi) | [0, 1]\nDgate(A[0]**2, x=[1, 2.5, "z"]) | (1)\n'
    'Kgate(-n + 2*(alpha - 1)) | 2\nMeasureFock() | [0, 1, 2]\nMeasureHomodyne(phi=0.5, select=q0) | 0\n'
    'for int i in 0:3\n    Rgate(i*0.1) | i\nfor float x in [0.1, 0.2]\n    Xgate(x) | 0\n    Zgate({p}) | 1\nVac | 3\n',
    'name a\nversion 1.0\n',
    'name t2\nversion 1.0\ntarget gaussian.fock\n\nVac | 0',
    '\n\n# comment\nname t3\nversion 1.0\n\n\nfloat array W[2, 2] =\n    {W}\n\nfloat array V =\n    {a}, 2\n    3, {b}\n\nG(W, {c}*2, y=-{c}) | [0, 1]\n',
    'name loops\nversion 1.0\ntype other (n=2)\n\nint k = 2\nfor int i in 1:6:2\n    MZgate(i, k) | [i, 0]\n    Sgate(0.1) | i\n'
    'for int j in (3, 4)\n    Rgate(j) | j\nfor int m in 5, 6\n    Rgate | m\nMeasureX | 0\n',
    'name inc\nversion 1.0\ninclude "a.xbb"\ninclude "b.xbb"\n\nint array p0 =\n    1, 2\n\nfoo(p0, 1e-3) | 1, 2\nbar(True, "s", x=[]) | [0]\n',
    'name arr\nversion 1.0\n\ncomplex array C[2, 2] =\n    1+1j, -2j\n    0.5, 1e2\n\nGate(C) | 0\nGate(cos(C[1]) + exp(2)/log(3)) | 1\n',
]

_SYN_VOCAB = ["+", "-", "*", "/", "**", "=", "for", "in", "1", "42", "2.5", "1e3", "1j", "2+3j", '"s"', "True", "False", "1,2", "pi",
              "\n", "\t", "    ", "name", "version", "target", "type", "include", "sqrt", "sin", "exp", "log", "arctanh", ".", ",", ":",
              '"', "(", ")", "[", "]", "{", "}", "|", "array", "float", "complex", "int", "str", "bool", "q0", "q12", "MeasureX",
              "foo", "x_1", "dev.x", "0.1.2", ";", "$", "@", "&", "%", "~", "?", "\\", "`", "!", "^", "<", ">", "'", "#", "é", "\r\n"]

_LEAF_RULES = {"number", "function", "name", "vartype", "nonnumeric", "programname", "versionnumber", "device", "programtype",
               "operation", "measure", "reserved", "invalid", "parameter"}
_MAJOR_RULES = {"declarename", "version", "target", "declaretype", "include", "expressionvar", "arrayvar", "statement", "forloop"}
_SYN_CACHE = {}


def _lex(text):
    import antlr4
    from blackbird.blackbirdLexer import blackbirdLexer
    lexer = blackbirdLexer(antlr4.InputStream(text))
    lexer.removeErrorListeners()
    return lexer.getAllTokens()


class _FirstError(Exception):
    pass


def _first_error(text):
    """None if the shipped parser accepts the text, else (line, column0, msg, token_index) of the FIRST reported syntax error"""
    import antlr4
    from antlr4.error.ErrorListener import ErrorListener
    from blackbird.blackbirdLexer import blackbirdLexer
    from blackbird.blackbirdParser import blackbirdParser

    class Collect(ErrorListener):
        def __init__(self):
            self.errs = []

        def syntaxError(self, recognizer, offendingSymbol, line, column, msg, e):
            self.errs.append((line, column, msg, offendingSymbol.tokenIndex if offendingSymbol is not None else -1))
            raise _FirstError()          # everything after the first report is error recovery, irrelevant here

    lexer = blackbirdLexer(antlr4.InputStream(text))
    lexer.removeErrorListeners()
    col = Collect()
    lexer.addErrorListener(col)
    parser = blackbirdParser(antlr4.CommonTokenStream(lexer))
    parser.removeErrorListeners()
    parser.addErrorListener(col)
    try:
        parser.start()
    except _FirstError:
        pass
    return col.errs[0] if col.errs else None


def _token_contexts(text):
    """for a grammatical text: token list and, per token index, the label 'innermost rule<enclosing construct'"""
    if text in _SYN_CACHE:
        return _SYN_CACHE[text]
    import antlr4
    from blackbird.blackbirdLexer import blackbirdLexer
    from blackbird.blackbirdParser import blackbirdParser
    lexer = blackbirdLexer(antlr4.InputStream(text))
    lexer.removeErrorListeners()
    stream = antlr4.CommonTokenStream(lexer)
    parser = blackbirdParser(stream)
    parser.removeErrorListeners()
    tree = parser.start()
    assert parser.getNumberOfSyntaxErrors() == 0, "base script is not grammatical: %r" % text
    toks = [t for t in stream.tokens if t.type != antlr4.Token.EOF]
    ctx = {}

    def walk(node, chain):
        if isinstance(node, antlr4.tree.Tree.TerminalNode):
            idx = node.symbol.tokenIndex
            inner = next((r for r in reversed(chain) if r not in _LEAF_RULES), "start")
            major = next((r for r in reversed(chain) if r in _MAJOR_RULES), chain[1] if len(chain) > 1 else "start")
            ctx[idx] = inner if inner == major else "%s<%s" % (inner, major)
            return
        name = blackbirdParser.ruleNames[node.getRuleIndex()]
        for ch in node.getChildren():
            walk(ch, chain + [name])
    walk(tree, [])
    _SYN_CACHE[text] = (toks, ctx)
    return toks, ctx


def _syn_bases(rng):
    bases = list(_SYN_BASES)
    for _ in range(3):
        bases.append(G.render(G.valid_script(rng), trailing_newline=rng.random() < 0.8))
    return bases


def _syn_mutate(rng, basetext):
    toks, ctx = _token_contexts(basetext)
    n = len(toks)
    kind = rng.choice(["delete", "insert", "insert", "substitute", "substitute", "swap", "truncate"])
    i = rng.randrange(n)
    t = toks[i]
    label = ctx.get(i, "start")
    if kind == "delete":
        text = basetext[:t.start] + basetext[t.stop + 1:]
    elif kind in ("insert", "substitute"):
        v = rng.choice(_SYN_VOCAB)
        glue = rng.random() < 0.3 or v in ("\n", "\t", "    ", "\r\n")
        ins = v if glue else " " + v + " "
        if kind == "insert":
            text = basetext[:t.start] + ins + basetext[t.start:]
        else:
            if v == t.text:
                v = "$" if t.text != "$" else ";"
                ins = v
            text = basetext[:t.start] + ins + basetext[t.stop + 1:]
        kind += ":" + ("invalid-symbol" if v in (";", "$", "@", "&", "%", "~", "?", "\\", "`", "!", "^", "<", ">", "'", "é")
                       else "bracket" if v in "()[]{}" else "newline/indent" if v.strip() == "" else "token")
    elif kind == "swap":
        if i + 1 >= n:
            i -= 1
            t = toks[i]
            label = ctx.get(i, "start")
        u = toks[i + 1]
        text = basetext[:t.start] + u.text + basetext[t.stop + 1:u.start] + t.text + basetext[u.stop + 1:]
    else:
        text = basetext[:t.start]
        if rng.random() < 0.3:
            text = text.rstrip(" ")
    return kind, label, text


def _syn_soup(rng):
    k = rng.randint(1, 25)
    parts = []
    for _ in range(k):
        parts.append(rng.choice(_SYN_VOCAB))
        parts.append(rng.choice([" ", " ", "", "\n"]))
    pre = rng.choice(["", "", "name x\nversion 1.0\n", "name x\n", "name x\nversion 1.0\nfloat array A =\n    "])
    return pre + "".join(parts)


_SYN_FIXED = [
    ("fixed", "arrayrow<arrayvar", 'name t\nversion 1.0\nfloat array A =\n    1, 2 $\n'),
    ("fixed", "arrayrow<arrayvar", 'name t\nversion 1.0\nfloat array A =\n    1, 2 3\n'),
    ("fixed", "arrayvar", 'name t\nversion 1.0\nfloat array A = 1, 2\n'),
    ("fixed", "arrayvar", 'name t\nversion 1.0\nfloat array A =\n    1, 2'),
    ("fixed", "statement", 'name t\nversion 1.0\nSgate(0.1, ) 0\n'),
    ("fixed", "statement", 'name t\nversion 1.0\nSgate(0.1) |\n'),
    ("fixed", "statement", 'name t\nversion 1.0\nSgate(0.1) | 0 1\n'),
    ("fixed", "statement", 'name t\nversion 1.0\nSgate(0.1) | [0, 1\nVac | 1\n'),
    ("fixed", "declarename", 'version 1.0\nVac | 0\n'),
    ("fixed", "declarename", 'name\nversion 1.0\n'),
    ("fixed", "version", 'name t\nVac | 0\n'),
    ("fixed", "version", 'name t\nversion\nVac | 0\n'),
    ("fixed", "version", 'name t\nversion 1\n'),
    ("fixed", "target", 'name t\nversion 1.0\ntarget\n'),
    ("fixed", "target", 'name t\nversion 1.0\ntarget dev (shots=)\n'),
    ("fixed", "declaretype", 'name t\nversion 1.0\ntype (n=1)\n'),
    ("fixed", "expressionvar", 'name t\nversion 1.0\nfloat x 5\n'),
    ("fixed", "expressionvar", 'name t\nversion 1.0\nfloat x =\n'),
    ("fixed", "expressionvar", 'name t\nversion 1.0\nfloat x = 5 +\n'),
    ("fixed", "expressionvar", 'name t\nversion 1.0\nfloat = 5\n'),
    ("fixed", "forloop", 'name t\nversion 1.0\nfor int i in 0:3\nVac | i\n'),
    ("fixed", "forloop", 'name t\nversion 1.0\nfor int i in 0:\n    Vac | i\n'),
    ("fixed", "start", ''),
    ("fixed", "start", '\n\n'),
    ("fixed", "start", 'name t\nversion 1.0\nVac | 0\n)'),
    ("fixed", "start", 'name t\nversion 1.0\nVac | 0\nname u\n'),
    ("fixed", "eof", 'name t\nversion 1.0\nSgate(0.1'),
    ("fixed", "eof", 'name t\nversion 1.0\nSgate(0.1) |'),
    ("fixed", "eof", 'name t\nversion 1.0\nfloat x ='),
    ("fixed", "eof", 'name t'),
]


def _syn_cases(rng, n, tier):
    bases = _syn_bases(rng)
    out = 0
    for kind, label, text in _SYN_FIXED:
        if out >= max(4, n // 4):
            break
        out += 1
        yield {"class": "%s|%s" % (kind, label), "input": {"text": text, "base": None}}
    while out < n:
        out += 1
        if rng.random() < 0.1:
            yield {"class": "soup|-", "input": {"text": _syn_soup(rng), "base": None}}
            continue
        b = rng.choice(bases) if rng.random() < 0.6 else bases[0]
        kind, label, text = _syn_mutate(rng, b)
        yield {"class": "%s|%s" % (kind, label), "input": {"text": text, "base": b}}


def _through_syntax_error(exc):
    tb = exc.__traceback__
    while tb is not None:
        code = tb.tb_frame.f_code
        if code.co_name == "syntaxError" and os.path.basename(code.co_filename) == "error.py":
            return True
        tb = tb.tb_next
    return False


def _syn_check(case):
    bb = _bb()
    from blackbird.error import BlackbirdSyntaxError
    inp = case["input"]
    text = inp["text"]
    first = _first_error(text)
    outcome, exc = "program", None
    try:
        bb.loads(text)
    except BaseException as e:                                   # noqa: the property is about *every* exception type
        if isinstance(e, (KeyboardInterrupt, SystemExit, MemoryError)):
            raise
        exc, outcome = e, type(e).__name__
    cls = "%s|%s" % (case.get("class") or "?", outcome)
    if first is None:
        if exc is not None and _through_syntax_error(exc):
            return _fail("grammatical text (the shipped parser reports nothing): no syntax-stage error",
                         "loads raised through error.py syntaxError: " + _exc(exc), cls)
        return None
    line, col, msg, tokidx = first
    want = "Blackbird SyntaxError (line %d:%d)" % (line, col + 1)
    if exc is None:
        return _fail("ungrammatical text (first parser report at line %d col %d: %s): loads raises BlackbirdSyntaxError" % (line, col, msg),
                     "loads returned a program", cls)
    if not isinstance(exc, BlackbirdSyntaxError):
        return _fail("ungrammatical text (first parser report at line %d col %d: %s): loads raises BlackbirdSyntaxError starting %r"
                     % (line, col, msg, want), _exc(exc), cls)
    if not str(exc).startswith(want):
        return _fail("message starts with %r (line and 1-based column of the offending token; parser said: %s)" % (want, msg), str(exc)[:300], cls)
    if inp.get("base") is not None:
        a, b = _lex(inp["base"]), _lex(text)
        k = 0
        while k < len(a) and k < len(b) and a[k].type == b[k].type and a[k].text == b[k].text:
            k += 1
        if 0 <= tokidx < k:
            return _fail("reported position not before the first token that differs from the grammatical original (token #%d)" % k,
                         "reported at token #%d (line %d:%d)" % (tokidx, line, col + 1), cls)
    return None


register(Family(
    "syntax_errors", ["C10"], _syn_cases, _syn_check,
    bound="%d fixed grammatical scripts covering every rule context + 3 random ones; single-token deletion, insertion and "
          "substitution (vocabulary of %d token texts incl. invalid symbols and brackets, padded or glued), adjacent swap, "
          "truncation at a token, sampled uniformly over (kind, token position); 10%% token soups of 1-25 vocabulary items; "
          "%d fixed ungrammatical scripts (array body, statement, metadata, EOF)" % (len(_SYN_BASES), len(_SYN_VOCAB), len(_SYN_FIXED)),
    rule="oracle = shipped lexer+parser with a recording listener: grammatical or (line, column) of the FIRST report; "
         "ungrammatical => BlackbirdSyntaxError starting 'Blackbird SyntaxError (line L:C+1)', position not before the first "
         "changed token; grammatical => no exception through error.py; class = mutation kind | rule context | outcome"))


# =====================================================================================================================
# C11 illformed

_UNDEF = ["zz", "undefinedName", "u_9", "Q", "beta", "p3", "alpha2"]
_EXPR_FORMS = ["%s", "%s", "2*%s", "%s + 1", "1 - %s/2", "sqrt(%s)", "-%s", "(%s)", "%s**2", "0.5*(%s - 1)"]
_COMPLEX_TEXTS = ["1j", "1+2j", "2*1j", "1j*1j", "cz", "cz*2", "cz - 1", "Cz[0]", "Cz[1]*2", "exp(1j)", "sqrt(1j)", "1j**2", "(1+2j)/2",
                  "-1j", "2.5 + 1j", "0j", "1j - 1j", "cz/cz", "3 * (1 - 2j)"]


def _ill_build(rng):
    sk = G.valid_script(rng, with_loop=True if rng.random() < 0.5 else None)
    # fixed helper declarations so that every fault has the variables it needs (all valid by themselves)
    sk["decls"] = [["complex cz = 1+1j"], ["float fz = 2.5"], ["str sz = \"abc\""], ["float array Af =", "    1, 2, 3"],
                   ["complex array Cz =", "    1j, 2+1j"]] + sk["decls"]
    taken = set(sk["scalars"]) | set(sk["arrays"]) | {"cz", "fz", "sz", "Af", "Cz", "i", "j", "m"}
    kind = rng.choice(["undefined", "undefined", "undefined", "reserved", "mode", "complex", "looptype"])
    ident, fault, slot, where = None, None, None, "items"
    op = rng.choice(G.OPS)
    if kind == "undefined":
        ident = rng.choice([u for u in _UNDEF if u not in taken])
        e = rng.choice(_EXPR_FORMS) % ident
        slot = rng.choice(["positional", "keyword", "list-element", "mode", "array-base", "array-index", "loop-list", "loop-body",
                           "after-loop", "metadata-option", "scalar-init", "array-init", "defined-later", "measure-arg"])
        if slot == "positional":
            fault = [G.call_text(op, rng.choice([[e], ["1", e], [e, '"s"'], ["0.5", e, "2"]]), [], "0")]
        elif slot == "keyword":
            fault = [G.call_text(op, rng.choice([[], ["1"]]), rng.choice([[("phi", e)], [("r", "1"), ("phi", e)]]), "[0, 1]")]
        elif slot == "list-element":
            fault = [G.call_text(op, [], [("x", "[%s]" % rng.choice(["%s", "1, %s", "%s, 2", "1, 2, %s"]) % e)], "0")]
        elif slot == "mode":
            fault = [G.call_text(op, rng.choice([[], ["1"]]), [], rng.choice(["%s", "[0, %s]", "(%s, 1)", "0, %s"]) % ident)]
        elif slot == "array-base":
            fault = [G.call_text(op, [rng.choice(["%s[0]", "%s[1]*2", "1 + %s[0]", "sqrt(%s[2])"]) % ident], [], "0")
                     if rng.random() < 0.6 else G.call_text(op, [], [("phi", "%s[0]" % ident)], "0")]
        elif slot == "array-index":
            fault = [G.call_text(op, [rng.choice(["Af[%s]", "2*Af[%s]"]) % ident], [], "0")]
        elif slot == "loop-list":
            fault = ["for int i2 in %s" % rng.choice(["[1, %s]", "[%s]", "(%s, 2)", "1, %s"]) % ident, "    %s(i2) | 0" % op]
        elif slot == "loop-body":
            fault = ["for int i2 in %s" % rng.choice(["0:3", "[1, 2]", "2:3"]), "    Vac | i2", "    " + G.call_text(op, [e], [], "i2")]
        elif slot == "after-loop":
            ident = "i2"
            fault = ["for int i2 in 0:2", "    %s(i2) | i2" % op, rng.choice([G.call_text(op, ["i2"], [], "0"), G.call_text(op, ["1"], [], "i2"),
                                                                                G.call_text(op, [], [("k", "2*i2")], "0")])]
        elif slot == "metadata-option":
            where = "header"
            fault = [rng.choice(["target dev_1 (shots=%s)", "target dev_1 (a=1, shots=%s)", "type tdm (copies=%s)",
                                 "type other (n=2, lst=[1, %s])"]) % e]
        elif slot == "scalar-init":
            if rng.random() < 0.25:
                ident = "w_new"                                     # refers to itself
                fault = ["float w_new = w_new + 1"]
            else:
                fault = ["%s v_new = %s" % (rng.choice(["float", "int", "complex"]), e)]
        elif slot == "array-init":
            fault = G.array_decl(rng.choice(["float", "int", "complex"]), "B_new",
                                 rng.choice([[["1", ident]], [[ident, "2"]], [["1", "2"], ["3", ident]], [[ident]], [["1", "2*%s" % ident]]]))
        elif slot == "defined-later":
            ident = "late_1"
            fault = [G.call_text(op, [e.replace(e, rng.choice(_EXPR_FORMS) % ident)], [], "0")]
            sk["items"].append(["float late_1 = 0.5"])
        elif slot == "measure-arg":
            fault = [G.call_text(rng.choice(G.MEASURES), [], [("phi", e)], "0")]
    elif kind == "reserved":
        ident = rng.choice(["q0", "q7", "q12", "name", "version", "target", "type"])
        ty = rng.choice(["float", "int", "complex", "str", "bool"])
        if rng.random() < 0.5:
            slot = "scalar-decl"
            val = {"float": "1.5", "int": "2", "complex": "1j", "str": '"a"', "bool": "True"}[ty]
            fault = ["%s %s = %s" % (ty, ident, val)]
        else:
            slot = "array-decl"
            ty = rng.choice(["float", "int", "complex"])
            fault = G.array_decl(ty, ident, [["1", "2"]] if rng.random() < 0.6 else [["1", "2"], ["3", "4"]], shape=rng.random() < 0.4)
    elif kind == "mode":
        m = rng.choice(["1.0", "4/2", "1j", "2*1j", "sz", "fz", "cz", "0.5", "2.0*1", "sqrt(4)", "Af[0]", "1e0", "pi", "1+0j"])
        slot = rng.choice(["single", "list", "loop-body"])
        if slot == "single":
            fault = [G.call_text(op, rng.choice([[], ["1"]]), [], m)]
        elif slot == "list":
            fault = [G.call_text(op, ["1"], [], rng.choice(["[0, %s]", "(%s, 1)", "0, 1, %s", "[%s]"]) % m)]
        else:
            fault = ["for int i2 in 0:2", "    Vac | i2", "    " + G.call_text(op, [], [], rng.choice(["%s", "[i2, %s]"]) % m)]
        slot += ":" + ("string" if m == "sz" else "complex" if "j" in m or m == "cz" else "float")
    elif kind == "complex":
        cx = rng.choice(_COMPLEX_TEXTS)
        ty = rng.choice(["float", "int"])
        if rng.random() < 0.55:
            slot = "scalar"
            fault = ["%s v_new = %s" % (ty, cx)]
        else:
            slot = "array-element"
            rows = rng.choice([[["1", "2"]], [["1", "2"], ["3", "4"]], [["1"]], [["1", "2", "3"]]])
            r0 = rng.randrange(len(rows))
            rows = [list(r) for r in rows]
            rows[r0][rng.randrange(len(rows[r0]))] = cx
            fault = G.array_decl(ty, "B_new", rows, shape=rng.random() < 0.3)
        slot += ":" + ("literal" if cx in ("1j", "1+2j", "-1j", "0j") else "variable" if cx in ("cz", "Cz[0]") else "computed") + ":" + ty
    else:
        lt, vals = rng.choice([("int", "[1, 2.5]"), ("int", '[1, "a"]'), ("float", "[1j]"), ("int", "[1j]"), ("float", '[0.5, "a"]'),
                               ("int", "[1, 2, 3.5]"), ("complex", '["a"]'), ("int", "[1, fz]"), ("int", "[sz]"), ("int", "(0.5, 1)"),
                               ("float", "[cz]"), ("int", "[2*1j, 1]"), ("int", "[3/2]"), ("float", "[1, 2+1j]"), ("bool", "[2]"),
                               ("int", "1, 2.5"), ("int", '["1"]')])
        slot = "loop-list:" + lt
        fault = ["for %s i2 in %s" % (lt, vals), "    " + G.call_text(op, ["i2"] if rng.random() < 0.6 else [], [], "0")]
    # place the fault: any statement position (declarations are allowed anywhere in the program block too)
    if where == "header":
        hdr = [l for l in sk["header"] if not l.startswith(fault[0].split()[0] + " ")]
        blank = hdr and hdr[-1] == ""
        if blank:
            hdr = hdr[:-1]
        if fault[0].startswith("target"):
            hdr = hdr[:2] + fault + hdr[2:]
        else:
            hdr = hdr + fault
        sk["header"] = hdr + [""]
        pos_item = "header"
    else:
        k = rng.randint(0, len(sk["items"]) - (1 if slot == "defined-later" else 0))
        sk["items"].insert(k, fault)
        pos_item = "first" if k == 0 else "last" if k == len(sk["items"]) - 1 else "middle"
    script = G.render(sk)
    inp = {"script": script, "kind": kind}
    if ident is not None:
        # position of the identifier token: last line of the fault block that mentions it (the use, not a loop header binding it)
        lines = script.split("\n")
        cand = []
        for fl in fault:
            for ln, l in enumerate(lines):
                if l == fl:
                    for mm in re.finditer(r"(?<![0-9A-Za-z_])%s(?![0-9A-Za-z_])" % re.escape(ident), l):
                        cand.append((ln + 1, mm.start()))
        if not cand:
            return None
        if slot == "after-loop":
            pick = [c for c in cand if c[0] == max(x[0] for x in cand)][0]
        elif kind == "undefined" and ident == "w_new":
            pick = cand[-1]
        else:
            pick = cand[0]
        if sum(1 for l in lines if l in fault) != len(fault):
            return None                                            # a fault line also occurs elsewhere: position ambiguous
        inp["ident"], inp["pos"] = ident, list(pick)
    return ("%s|%s|%s" % (kind, slot, pos_item), inp)


def _ill_cases(rng, n, tier):
    out = 0
    while out < n:
        got = _ill_build(rng)
        if got is None:
            continue
        out += 1
        yield {"class": got[0], "input": got[1]}


def _ill_check(case):
    bb = _bb()
    from blackbird.error import BlackbirdSyntaxError
    inp = case["input"]
    try:
        P = bb.loads(inp["script"])
    except BaseException as e:
        if isinstance(e, (KeyboardInterrupt, SystemExit, MemoryError)):
            raise
        exc = e
        if _through_syntax_error(exc):
            raise AssertionError("generator defect: the ill-formed script is not grammatical: " + _exc(exc))
    else:
        if _first_error(inp["script"]) is not None:
            raise AssertionError("generator defect: the ill-formed script is not grammatical")
        return _fail("loading raises an exception (%s fault); never a program" % inp["kind"],
                     "program returned: operations %r variables %r" % (P.operations, P.variables))
    if inp["kind"] in ("undefined", "reserved"):
        line, col = inp["pos"]
        sline = inp["script"].split("\n")[line - 1]
        assert sline[col:col + len(inp["ident"])] == inp["ident"], "generator defect: identifier position"
        if not isinstance(exc, BlackbirdSyntaxError):
            return _fail("BlackbirdSyntaxError naming %r and line %d, column %d (0-based) or %d (1-based)" % (inp["ident"], line, col, col + 1), _exc(exc))
        msg = str(exc)
        named = re.search(r"(?<![0-9A-Za-z_])%s(?![0-9A-Za-z_])" % re.escape(inp["ident"]), msg) is not None
        mpos = re.search(r"line\s*(\d+)\s*[:,]\s*(?:col(?:umn)?\s*)?(\d+)", msg)
        okpos = mpos is not None and int(mpos.group(1)) == line and int(mpos.group(2)) in (col, col + 1)
        if not (named and okpos):
            return _fail("message names %r and line %d, column %d (0-based) or %d (1-based)" % (inp["ident"], line, col, col + 1), msg[:300])
    return None


register(Family(
    "illformed", ["C11"], _ill_cases, _ill_check,
    bound="random valid scripts (2-6 statements, optional loop, 2-5 scalars, 0-2 arrays) with exactly one fault inserted at a "
          "random statement position: undefined name (positional/keyword/list element/mode/array base/array index/loop list/"
          "loop body/after the loop that bound it/metadata option/scalar and array initialiser/self reference/defined only "
          "later/Measure argument, inside 10 expression forms), reserved name as scalar or array (qN, name, version, target, "
          "type), non-integer mode (float literal, computed float, complex, string or float variable), complex value (literal, "
          "computed, via variable or array element) into int/float scalar or array element, loop value not of the loop type. "
          "Excluded as ambiguous: bool as mode, integral float (2.0) in an int loop, include-call faults (covered elsewhere)",
    rule="oracle: loads raises (never returns a program); undefined/reserved: BlackbirdSyntaxError whose message contains the "
         "identifier and 'line L:C' with L exact and C the 0- or 1-based column of the identifier token; class = fault|slot|position"))


# =====================================================================================================================
# C12 history

def _canon(v):
    """plain-data image of a value, exact (no tolerance): two processes with the same hash seed must agree literally"""
    import numpy as np
    import sympy as sym
    if v is None:
        return None
    if isinstance(v, (bool, np.bool_)):
        return ["bool", bool(v)]
    if isinstance(v, (int, np.integer)):
        return ["int", int(v)]
    if isinstance(v, (float, np.floating)):
        return ["float", repr(float(v))]
    if isinstance(v, (complex, np.complexfloating)):
        return ["complex", repr(complex(v))]
    if isinstance(v, str):
        return ["str", v]
    if isinstance(v, (list, tuple)):
        return ["list", [_canon(x) for x in v]]
    if isinstance(v, np.ndarray):
        return ["array", v.dtype.kind, list(v.shape), [_canon(x) for x in v.flatten().tolist()]]
    if isinstance(v, dict):
        return ["dict", [[str(k), _canon(x)] for k, x in v.items()]]
    if isinstance(v, (set, frozenset)):
        return ["set", sorted(json.dumps(_canon(x)) for x in v)]
    if isinstance(v, sym.Basic):
        return ["sym", sym.srepr(v)]
    if type(v).__name__ == "RegRefTransform":
        return ["rrt", sym.srepr(v.expr), sorted(int(r) for r in v.regrefs), v.func_str]
    return ["other", type(v).__name__, repr(v)]


def _canon_program(p):
    return {"name": p.name, "version": p.version, "target": _canon(p.target), "type": _canon(p.programtype),
            "parameters": sorted(p.parameters), "is_template": bool(p.is_template()), "modes": sorted(int(m) for m in p.modes),
            "operations": _canon(p.operations), "variables": _canon(p.variables)}


def _mutate_program(p):
    import numpy as np

    def wreck(x):
        if isinstance(x, list):
            for y in x:
                wreck(y)
            x.append("MUT")
        elif isinstance(x, dict):
            for y in list(x.values()):
                wreck(y)
            x["MUT"] = "MUT"
        elif isinstance(x, np.ndarray) and x.size:
            try:
                x.flat[0] = 12345
            except Exception:
                pass
        elif isinstance(x, set):
            x.add(12345)
    for op in p.operations:
        op["op"] = op["op"] + "_MUT"
    wreck(p.operations)
    wreck(p.variables)
    wreck(p.target)
    wreck(p.programtype)
    wreck(p.modes)
    p.target["name"] = "MUT"
    p.programtype["name"] = "MUT"
    for attr in ("_parameters", "_forvar"):
        try:
            wreck(getattr(p, attr))
        except Exception:
            pass


def _mutable_ids(x, acc, depth=0):
    import numpy as np
    if isinstance(x, (list, dict, set, np.ndarray)):
        acc[id(x)] = type(x).__name__
        if isinstance(x, dict):
            for y in x.values():
                _mutable_ids(y, acc, depth + 1)
        elif isinstance(x, list):
            for y in x:
                _mutable_ids(y, acc, depth + 1)
    return acc


def _hist_driver_main():
    """runs inside a fresh interpreter: loads the given scripts one after the other, reports each outcome; optionally checks
    that the returned programs share no mutable state"""
    warnings.simplefilter("ignore")
    req = json.loads(sys.stdin.read())
    import blackbird
    outcomes, progs = [], []
    for s in req["scripts"]:
        try:
            p = blackbird.loads(s)
        except BaseException as e:                               # noqa
            outcomes.append({"exc": type(e).__name__, "msg": str(e)})
            progs.append(None)
        else:
            outcomes.append({"program": _canon_program(p)})
            progs.append(p)
    sharing = []
    if req.get("mutate"):
        live = [(i, p) for i, p in enumerate(progs) if p is not None]
        for a in range(len(live)):
            for b in range(a + 1, len(live)):
                (i, p), (j, q) = live[a], live[b]
                for what, x, y in (("operations", p.operations, q.operations), ("variables", p.variables, q.variables),
                                   ("target", p.target, q.target), ("target options", p.target["options"], q.target["options"]),
                                   ("programtype", p.programtype, q.programtype), ("modes", p.modes, q.modes),
                                   ("type options", p.programtype["options"], q.programtype["options"])):
                    if x is y:
                        sharing.append("results #%d and #%d: %s is the same object" % (i, j, what))
                ids_p, ids_q = {}, {}
                for x in (p.operations, p.variables, p.target, p.programtype, p.modes):
                    _mutable_ids(x, ids_p)
                for y in (q.operations, q.variables, q.target, q.programtype, q.modes):
                    _mutable_ids(y, ids_q)
                common = set(ids_p) & set(ids_q)
                if common:
                    sharing.append("results #%d and #%d share %d mutable object(s): %s" % (i, j, len(common), sorted(ids_p[c] for c in common)))
        for a, (i, p) in enumerate(live):
            _mutate_program(p)
            for (j, q) in live[a + 1:]:
                now = {"program": _canon_program(q)}
                if now != outcomes[j]:
                    sharing.append("mutating result #%d changed result #%d" % (i, j))
    sys.stdout.write("\n" + json.dumps({"outcomes": outcomes, "sharing": sharing}) + "\n")


_HIST_POOL = None
_HIST_FUT = {}


def _hist_run(payload_json):
    env = dict(os.environ)
    env["PYTHONPATH"] = os.pathsep.join(p for p in sys.path if p)          # the tree under test is whatever this process sees
    env["PYTHONHASHSEED"] = "0"
    env["PYTHONDONTWRITEBYTECODE"] = "1"
    p = subprocess.run([sys.executable, "-c", "from replay.fam_sem import _hist_driver_main as m; m()"], input=payload_json.encode(),
                       stdout=subprocess.PIPE, stderr=subprocess.PIPE, env=env, timeout=300,
                       cwd=os.path.dirname(os.path.dirname(os.path.abspath(__file__))))
    out = p.stdout.decode("utf-8", "replace").strip().splitlines()
    if p.returncode != 0 or not out:
        raise RuntimeError("history driver failed (exit %d): %s" % (p.returncode, p.stderr.decode("utf-8", "replace")[-800:]))
    return json.loads(out[-1])


def _hist_submit(scripts, mutate):
    global _HIST_POOL
    key = json.dumps({"scripts": scripts, "mutate": mutate})
    if key not in _HIST_FUT:
        if _HIST_POOL is None:
            _HIST_POOL = ThreadPoolExecutor(16)
        _HIST_FUT[key] = _HIST_POOL.submit(_hist_run, key)
    return _HIST_FUT[key]


def _hist_prefetch(scripts):
    _hist_submit(list(scripts), True)
    for s in scripts:
        _hist_submit([s], False)


_H = "name %s\nversion 1.0\n"


def _hist_pool(rng):
    """(kind, script) pools: polluters (leave something behind if tables are not reset) and probes (would pick it up)"""
    pol = [
        ("valid", _H % "v1" + "\nfloat alpha = 0.5\nint x = 3\nint n = 4\nSgate(alpha, x) | 0\nfor int i in 0:2\n    Rgate(n) | i\n"),
        ("valid-target-options", _H % "v2" + "target X8_01 (shots=10, cutoff=[1, 2])\ntype other (n=2)\n\nint x = 7\nfloat array A =\n    1, 2\nDgate(A, x) | [0, 1]\n"),
        ("valid-random", G.render(G.valid_script(rng))),
        ("template", _H % "t1" + "\nfloat y = {alpha}*2\nSgate({a}, {x}) | 0\nDgate(y, phi={n}) | 1\n"),
        ("template-array", _H % "t2" + "\nfloat array x[1, 2] =\n    {x}\nfloat array B =\n    {a}, 1\nG(B[0], x[1]) | 0\n"),
        ("tdm", _H % "d1" + "type tdm (temporal_modes=2)\n\nfloat array p0 =\n    1, 2\nint array p1 =\n    3, 4\nSgate(p0, 1) | 0\nRgate(phi=p1) | 1\n"),
        ("fail-syntax", _H % "f1" + "\nint x = 5\nfloat alpha = 0.25\nSgate(0.1 | 0\n"),
        ("fail-syntax-array", _H % "f1b" + "\nint x = 5\nfloat array A =\n    1, 2 $\n"),
        ("fail-undefined-after-declarations", _H % "f2" + "\nint x = 5\nfloat alpha = 0.25\nint n = 7\nint i = 9\nSgate(zz) | 0\n"),
        ("fail-in-loop-body", _H % "f3" + "\nint x = 5\nfor int i in 2:5\n    Sgate(i) | i\n    Dgate(zz) | 0\n"),
        ("fail-mode-in-loop", _H % "f4" + "\nint n = 2\nfor int i in [4, 5]\n    Sgate(0.1) | 1.5\n"),
        ("fail-reserved", _H % "f5" + "\nint x = 5\nfloat alpha = 1.5\nfloat q0 = 1\n"),
        ("fail-template", _H % "f6" + "\nSgate({a}, {x}) | 0\nint x = 5\nint a = 6\nDgate(zz) | 1\n"),
        ("fail-tdm", _H % "f7" + "type tdm (temporal_modes=2)\n\nfloat array p0 =\n    1, 2\nint x = 5\nSgate(p0) | zz\n"),
        ("fail-complex", _H % "f8" + "\nint x = 5\nint n = 3\nfloat y = 2*1j\n"),
        ("fail-include-missing", _H % "f9" + "include \"no_such_file_%d.xbb\"\n\nint x = 5\nVac | 0\n" % rng.randint(0, 9)),
        ("fail-metadata", _H % "f10" + "target dev (shots=zz)\n\nint x = 5\nVac | 0\n"),
        ("fail-looptype", _H % "f11" + "\nint x = 5\nfor int i in [1, 2.5]\n    Vac | 0\n"),
    ]
    probes = [
        ("probe-target-x", _H % "p1" + "target dev (shots=x)\n\nVac | 0\n"),
        ("probe-type-n", _H % "p2" + "type tdm (copies=n)\n\nVac | 0\n"),
        ("probe-target-i", _H % "p3" + "target dev (shots=i, cutoff=5)\n\nVac | 0\n"),
        ("probe-target-alpha-list", _H % "p4" + "target dev (opts=[1, alpha], k=alpha*2)\n\nVac | 0\n"),
        ("probe-target-p0", _H % "p5" + "target dev (data=p0)\n\nVac | 0\n"),
        ("probe-body-x", _H % "p6" + "\nSgate(x) | 0\n"),
        ("probe-body-alpha-init", _H % "p7" + "\nfloat y = alpha*2\nSgate(y) | 0\n"),
        ("probe-body-a", _H % "p8" + "\nSgate(a, n) | 0\n"),
        ("probe-nontdm-p0", _H % "p9" + "\nfloat array p0 =\n    1, 2\nSgate(p0) | 0\n"),
        ("probe-plain", _H % "p10" + "\nSgate(0.5) | 0\n"),
        ("probe-template-b", _H % "p11" + "\nSgate({b}) | 0\n"),
        ("probe-regref-a", _H % "p12" + "\nfloat a = 2.0\nSgate(a*q0) | 0\n"),
        ("probe-loop-x", _H % "p13" + "\nfor int x in 0:2\n    Sgate(x) | x\nDgate(x) | 0\n"),
        ("probe-same-names", _H % "p14" + "\nfloat alpha = 1.5\nint x = 1\nSgate(alpha, x) | x\n"),
        ("probe-tdm-p1-undeclared", _H % "p15" + "type tdm (temporal_modes=2)\n\nfloat array p0 =\n    5, 6\nSgate(p0, p1) | 0\n"),
    ]
    return pol, probes


_HIST_LEAVES = {"fail-undefined-after-declarations": "x alpha n i", "fail-in-loop-body": "x i", "fail-mode-in-loop": "n i",
                "fail-reserved": "x alpha", "fail-template": "x a", "fail-tdm": "p0 x", "fail-complex": "x n", "fail-looptype": "x i"}
_HIST_NEEDS = {"probe-target-x": "x", "probe-type-n": "n", "probe-target-i": "i", "probe-target-alpha-list": "alpha", "probe-target-p0": "p0"}


def _hist_cases(rng, n, tier):
    n = min(n, 25 if tier == "quick" else 150)
    pol, probes = _hist_pool(rng)
    dpol, dprobe = dict(pol), dict(probes)
    pairs = [(a, b) for a in sorted(_HIST_LEAVES) for b in sorted(_HIST_NEEDS) if _HIST_NEEDS[b] in _HIST_LEAVES[a].split()]
    rng.shuffle(pairs)
    cases = []
    for ci in range(n):
        if ci % 5 < 3:
            # a load that fails while the program block is being evaluated, directly followed by a script whose METADATA mentions
            # a name the failed one had defined; optionally something before and after
            a, b = pairs[(ci // 5 * 3 + ci % 5) % len(pairs)]
            seq = [(a, dpol[a]), (b, dprobe[b])]
            if rng.random() < 0.35:
                seq.insert(0, rng.choice(pol + probes))
            if len(seq) < 4 and rng.random() < 0.35:
                seq.append(rng.choice(pol + probes))
        else:
            L = rng.choice([2, 2, 3, 3, 4])
            seq = [pol[(ci * 3) % len(pol)]]
            while len(seq) < L - 1:
                seq.append(rng.choice(pol + probes))
            seq.append(rng.choice(probes + probes + pol))
        cases.append({"class": " > ".join(k for k, _s in seq), "input": {"scripts": [s for _k, s in seq]}})
    for c in cases:
        _hist_prefetch(c["input"]["scripts"])                     # memoised; check() would start them on demand otherwise
    return cases


def _short(o):
    if "exc" in o:
        return "%s: %s" % (o["exc"], o["msg"][:200])
    pr = o["program"]
    return "program name=%s target=%s type=%s parameters=%s variables=%s operations=%s" % (
        pr["name"], json.dumps(pr["target"]), json.dumps(pr["type"]), pr["parameters"], json.dumps(pr["variables"])[:300],
        json.dumps(pr["operations"])[:400])


def _hist_check(case):
    scripts = list(case["input"]["scripts"])
    _hist_prefetch(scripts)
    seq = _hist_submit(scripts, True).result()
    for k, s in enumerate(scripts):
        alone = _hist_submit([s], False).result()["outcomes"][0]
        got = seq["outcomes"][k]
        if got != alone:
            return _fail("load #%d of the history has the outcome it has in a pristine process: %s" % (k, _short(alone)),
                         "after %d earlier load(s): %s" % (k, _short(got)))
    if seq["sharing"]:
        return _fail("programs returned by different loads share no mutable state", "; ".join(seq["sharing"][:4]))
    return None


register(Family(
    "history", ["C12"], _hist_cases, _hist_check, parallel=False,
    bound="sequences of 2-4 loads calls in one fresh interpreter over 18 polluting scripts (valid, templates, tdm, failing at "
          "syntax / undefined name after declarations / inside a loop body / mode / reserved name / after parameters / tdm / "
          "complex / missing include / metadata / loop type) and 15 probes (metadata options and bodies mentioning the names "
          "x, n, i, alpha, a, p0 that earlier scripts define); quick tier: at most 25 sequences",
    rule="oracle: outcome of each call (exact image of the program incl. variables, or exception type+message) == outcome of "
         "the same script alone in a fresh interpreter (same hash seed); results pairwise share no mutable object and "
         "mutating one leaves the others equal to their snapshot"))


# =====================================================================================================================
# C15 tdm

_CPLX_ELEMS = [("1+2j", complex(1, 2)), ("-0.5j", complex(0, -0.5)), ("2", complex(2, 0)), ("-1-1j", complex(-1, -1)), ("3.5", complex(3.5, 0)),
               ("0.25j", complex(0, 0.25)), ("-2.5+0.5j", complex(-2.5, 0.5)), ("1e-2j", complex(0, 0.01)), ("0j", 0j)]


def _tdm_array(rng, ty, nr, nc):
    rows_t, rows_v = [], []
    for _i in range(nr):
        rt, rv = [], []
        for _j in range(nc):
            if ty == "int":
                v = rng.randint(-9, 20)
                rt.append(str(v))
            elif ty == "float":
                v = rng.choice([round(rng.uniform(-5, 5), rng.choice([1, 3])), float(rng.randint(0, 9)), rng.uniform(1, 10) * 10.0 ** rng.randint(-6, 8),
                                0.1, 1 / 3])
                rt.append(str(rng.randint(0, 9)) if (v == int(v) and 0 <= v < 10 and rng.random() < 0.5) else repr(v))
                if rt[-1].isdigit():
                    v = float(rt[-1])
            else:
                t, v = rng.choice(_CPLX_ELEMS)
                rt.append(t)
            rv.append(v)
        rows_t.append(rt)
        rows_v.append(rv)
    return rows_t, rows_v


def _tdm_build(rng):
    r = rng.random()
    variant = "tdm" if r < 0.82 else "nontdm-parray-by-value" if r < 0.94 else "tdm-ordinary-variables-only"
    if variant == "nontdm-parray-by-value":
        typ = rng.choice([None, None, "other (n=2)", "TDM (temporal_modes=2)", "tdm2"])
    else:
        typ = "tdm" + rng.choice(["", " (temporal_modes=2)", " (temporal_modes=3, copies=10)", " (copies=1)"])
    lines = G.header(rng, typ=typ)
    feats = {variant}
    variables, parr = {}, []
    if variant != "tdm-ordinary-variables-only":
        for nm in rng.sample(["p0", "p1", "p12", "p2", "p007"], rng.randint(1, 3)):
            ty = rng.choice(["int", "float", "float", "complex"])
            nr, nc = rng.choice([1, 1, 1, 2, 3]), rng.randint(1, 5)
            rt, rv = _tdm_array(rng, ty, nr, nc)
            lines += G.array_decl(ty, nm, rt, shape=rng.random() < 0.3)
            variables[nm] = {"t": "arr", "type": ty, "rows": G.enc(rv)}
            parr.append(nm)
            feats.add("p:" + ty)
            if nr > 1:
                feats.add("mxn")
    scal = {}
    for nm, ty in rng.sample([("y", "float"), ("n", "int"), ("s", "str"), ("phi0", "float"), ("c0", "complex")],
                             rng.randint(1, 3) if variant == "tdm-ordinary-variables-only" else rng.randint(0, 2)):
        if ty == "float":
            v = rng.choice([2.5, 0.125, -1.75, 3.0])
            t = repr(v)
        elif ty == "int":
            v = rng.randint(0, 7)
            t = str(v)
        elif ty == "str":
            v = rng.choice(["abc", "x y"])
            t = '"%s"' % v
        else:
            v = complex(1, -2)
            t = "1-2j"
        lines.append("%s %s = %s" % (ty, nm, t))
        variables[nm] = {"t": ty, "v": G.enc(v)}
        scal[nm] = (ty, v)
        feats.add("scalar")
    oarr = []
    for nm in rng.sample(["B", "U_1", "pp", "P0", "p_1"], rng.choice([0, 0, 1, 2]) if variant != "tdm-ordinary-variables-only" else rng.randint(0, 2)):
        ty = rng.choice(["int", "float", "complex"])
        rt, rv = _tdm_array(rng, ty, rng.choice([1, 2]), rng.randint(1, 3))
        lines += G.array_decl(ty, nm, rt, shape=rng.random() < 0.3)
        variables[nm] = {"t": "arr", "type": ty, "rows": G.enc(rv)}
        oarr.append(nm)
        feats.add("ordinary-array")
    lines.append("")
    params = []
    if rng.random() < 0.25:
        params = rng.sample(["a", "ab", "theta_1", "p3", "p9"], rng.randint(1, 2))
        params = [p for p in params if p not in parr]
    ops = []
    used_par = set()

    def one_arg(loopvar, loopval):
        r2 = rng.random()
        if parr and r2 < 0.4:
            nm = rng.choice(parr)
            if variant == "nontdm-parray-by-value":
                return nm, {"t": "arrvar", "name": nm}
            return nm, {"t": "pname", "v": nm}
        if parr and r2 < 0.47:
            nm = rng.choice(parr)
            if variables[nm]["type"] in ("int", "float"):
                flat = [x for row in G.dec(variables[nm]["rows"]) for x in row]
                k = rng.randrange(len(flat))
                feats.add("p-array-indexed")
                return "%s[%d]" % (nm, k), {"t": "num", "v": flat[k]}
        if scal and r2 < 0.6:
            nm = rng.choice(sorted(scal))
            ty, v = scal[nm]
            return nm, ({"t": "str", "v": v} if ty == "str" else {"t": "num", "v": G.enc(v)})
        if oarr and r2 < 0.7:
            nm = rng.choice(oarr)
            return nm, {"t": "arrvar", "name": nm}
        if params and r2 < 0.85:
            p = rng.choice(params)
            used_par.add(p)
            return "{%s}" % p, {"t": "par", "names": [p]}
        if loopvar and r2 < 0.93:
            return loopvar, {"t": "num", "v": loopval}
        v = rng.choice([0.5, 2, 1.25, 10, -0.75])
        if isinstance(v, float) and v < 0:
            return repr(v), {"t": "num", "v": v}
        return G.fmt_num(v), {"t": "num", "v": v}

    def stmt(loopvar=None, loopval=None, texts=None):
        """returns (text, op description); with texts given, re-describes the same text for another loop value"""
        args, kw, dargs, dkw = [], [], [], {}
        for _ in range(rng.randint(0 if ops else 1, 3)):
            t, d = one_arg(loopvar, loopval)
            if rng.random() < 0.35 or kw:
                k = "k%d" % len(kw) if rng.random() < 0.5 else G.KWNAMES[len(kw) % len(G.KWNAMES)]
                if k in dkw:
                    k += "_2"
                kw.append((k, t))
                dkw[k] = d
                if d["t"] == "pname":
                    feats.add("keyword-pname")
            else:
                args.append(t)
                dargs.append(d)
                if d["t"] == "pname":
                    feats.add("positional-pname")
        name = rng.choice(G.OPS)
        modes = [rng.randint(0, 3)] if rng.random() < 0.7 else rng.sample(range(4), 2)
        mt = [str(m) for m in modes]
        return name, args, kw, dargs, dkw, modes, mt

    for _ in range(rng.randint(1, 4)):
        name, args, kw, dargs, dkw, modes, mt = stmt()
        lines.append(G.call_text(name, args, kw, G.modes_text(rng, mt)))
        ops.append({"op": name, "modes": modes, "args": dargs, "kwargs": dkw, "has_args": bool(args or kw)})
    if rng.random() < 0.35:
        lv, lvals = "i", rng.choice([[0, 1], [1, 2, 3], [2]])
        head = "for int i in %s" % (rng.choice(["%d:%d" % (lvals[0], lvals[-1] + 1), "[%s]" % ", ".join(map(str, lvals))]))
        name, args, kw, dargs, dkw, modes, mt = stmt("i", "LOOP")
        use_mode = rng.random() < 0.6
        if use_mode:
            mt = ["i"]
        lines += [head, "    " + G.call_text(name, args, kw, G.modes_text(rng, mt))]
        for val in lvals:
            sub = lambda d: ({"t": "num", "v": val} if d.get("v") == "LOOP" else d)
            ops.append({"op": name, "modes": [val] if use_mode else modes, "args": [sub(d) for d in dargs],
                        "kwargs": {k: sub(d) for k, d in dkw.items()}, "has_args": bool(args or kw)})
        feats.add("loop")
    if variant == "nontdm-parray-by-value" and not any(d["t"] == "arrvar" and d["name"] in parr
                                                       for o in ops for d in list(o["args"]) + list(o["kwargs"].values())):
        nm = parr[0]
        lines.append("Sgate(%s) | 0" % nm)
        ops.append({"op": "Sgate", "modes": [0], "args": [{"t": "arrvar", "name": nm}], "kwargs": {}, "has_args": True})
    script = "\n".join(lines) + "\n"
    if used_par:
        feats.add("template")
        if any(re.fullmatch(r"p\d+", p) for p in used_par):
            feats.add("pnamed-template-parameter")
    return ("+".join(sorted(feats)), {"script": script, "ops": ops, "variables": variables, "parameters": sorted(used_par),
                                      "parrays": parr, "tdm": variant != "nontdm-parray-by-value"})


def _tdm_cases(rng, n, tier):
    for _ in range(n):
        cls, inp = _tdm_build(rng)
        yield {"class": cls, "input": inp}


def _decl_array(d):
    import numpy as np
    return np.array(G.dec(d["rows"]), dtype={"int": np.int64, "float": np.float64, "complex": np.complex128}[d["type"]])


def _tdm_check_ops(P, inp, where, after_reload=False):
    import numpy as np
    import sympy as sym
    if len(P.operations) != len(inp["ops"]):
        return _fail("%s: %d operations" % (where, len(inp["ops"])), "%d: %r" % (len(P.operations), P.operations))
    for i, (o, d) in enumerate(zip(P.operations, inp["ops"])):
        if o["op"] != d["op"] or [int(m) for m in o["modes"]] != d["modes"] or any(base.kind(m) != "int" for m in o["modes"]):
            return _fail("%s: operation %d is %s on modes %r" % (where, i, d["op"], d["modes"]), "%r" % (o,))
        if ("args" in o) != d["has_args"] and not (after_reload and "args" in o):
            return _fail("%s: operation %d %s arguments" % (where, i, "has" if d["has_args"] else "has no"), "%r" % (o,))
        args, kwargs = o.get("args", []), o.get("kwargs", {})
        if len(args) != len(d["args"]) or list(kwargs) != list(d["kwargs"]):
            return _fail("%s: operation %d: %d positional, keywords %r" % (where, i, len(d["args"]), list(d["kwargs"])), "%r" % (o,))
        for lab, dd, got in [("arg %d" % j, dd, a) for j, (dd, a) in enumerate(zip(d["args"], args))] + \
                            [("kwarg " + k, dd, kwargs[k]) for k, dd in d["kwargs"].items()]:
            t = dd["t"]
            if t == "pname":
                ok = isinstance(got, str) and got == dd["v"]
                want = "the NAME %r (p-array of a tdm program is passed by name)" % dd["v"]
            elif t == "arrvar":
                want_arr = _decl_array(inp["variables"][dd["name"]])
                ok = isinstance(got, np.ndarray) and base.value_equiv(got, want_arr, False, 1e-12)
                want = "the array %s by value: %r" % (dd["name"], want_arr.tolist())
            elif t == "num":
                wv = G.dec(dd["v"])
                ok = not isinstance(got, (sym.Expr, str, np.ndarray)) and base.value_equiv(got, wv, False, 1e-12)
                want = "%r" % (wv,)
            elif t == "str":
                ok = isinstance(got, str) and got == dd["v"]
                want = "%r" % dd["v"]
            else:
                ok = isinstance(got, sym.Expr) and sorted(map(str, got.free_symbols)) == dd["names"] and type(got).__name__ != "RegRefTransform"
                want = "symbolic parameter %r" % dd["names"]
            if not ok:
                return _fail("%s: operation %d %s == %s" % (where, i, lab, want), "%r (%s)" % (got, type(got).__name__))
    return None


def _tdm_check(case):
    import numpy as np
    bb = _bb()
    inp = case["input"]
    try:
        P = bb.loads(inp["script"])
    except Exception as e:
        return _fail("script loads", "raised " + _exc(e))
    res = _tdm_check_ops(P, inp, "loaded")
    if res:
        return res
    if set(P.variables) != set(inp["variables"]):
        return _fail("variables %r" % sorted(inp["variables"]), "%r" % sorted(P.variables))
    for k, d in inp["variables"].items():
        got = P.variables[k]
        want = _decl_array(d) if d["t"] == "arr" else G.dec(d["v"])
        if not base.value_equiv(got, want, False, 1e-12):
            return _fail("variables[%r] holds the declared value %r" % (k, want.tolist() if d["t"] == "arr" else want), "%r (%s)" % (got, base.kind(got)))
    pars = set(inp["parameters"])
    if P.parameters != pars or bool(P.is_template()) != bool(pars):
        return _fail("parameters == %r (p-array names are never free parameters), is_template == %r" % (sorted(pars), bool(pars)),
                     "parameters %r, is_template %r" % (sorted(P.parameters), P.is_template()))
    # serialise and re-load
    try:
        text = bb.dumps(P)
    except Exception as e:
        return _fail("program serialises", "dumps raised " + _exc(e))
    try:
        Q = bb.loads(text)
    except Exception as e:
        return _fail("serialised text re-loads:\n" + text, "raised " + _exc(e))
    res = _tdm_check_ops(Q, inp, "re-loaded", after_reload=True)
    if res:
        res["expected"] += "\nserialised text:\n" + text
        return res
    if inp["tdm"]:
        for nm in inp["parrays"]:
            if nm not in Q.variables or not base.value_equiv(Q.variables[nm], P.variables[nm], False, 1e-12):
                return _fail("re-loaded program keeps p-array %s == %r\nserialised text:\n%s" % (nm, P.variables[nm].tolist(), text),
                             "%r" % (Q.variables.get(nm),))
        if Q.programtype["name"] != "tdm":
            return _fail("re-loaded program is of type tdm", "%r" % (Q.programtype,))
    if Q.parameters != pars:
        return _fail("re-loaded parameters == %r" % sorted(pars), "%r" % sorted(Q.parameters))
    if pars:
        vals = {p: 0.5 + i for i, p in enumerate(sorted(pars))}
        try:
            I = P(**vals)
        except Exception as e:
            return _fail("tdm template instantiates with %r" % vals, "raised " + _exc(e))
        inst = json.loads(json.dumps(inp))
        for o in inst["ops"]:
            for dd in list(o["args"]) + list(o["kwargs"].values()):
                if dd["t"] == "par":
                    dd.update({"t": "num", "v": vals[dd["names"][0]]})
        res = _tdm_check_ops(I, inst, "instantiated")
        if res:
            return res
        for nm in inp["parrays"]:
            if nm not in I.variables or not base.value_equiv(I.variables[nm], P.variables[nm], False, 1e-12):
                return _fail("instance keeps p-array %s" % nm, "%r" % (I.variables.get(nm),))
        if I.parameters != set():
            return _fail("instance has no free parameters", "%r" % sorted(I.parameters))
    return None


register(Family(
    "tdm", ["C15"], _tdm_cases, _tdm_check,
    bound="scripts of type tdm (with/without options) with 1-3 arrays among p0, p1, p2, p12, p007 (int/float/complex, 1..3 x 1..5, "
          "with or without declared shape) used as bare names in positional and keyword position (and indexed, for int/float), "
          "next to ordinary scalars (float/int/str/complex), ordinary arrays (incl. names like pp, P0, p_1), template parameters "
          "(incl. p<digits>-named ones that are not arrays) and a loop; 12%% NON-tdm programs (no type / other type / 'TDM' / "
          "'tdm2') with the same arrays; 6%% tdm programs with ordinary variables only",
    rule="oracle from the declarations: p-array argument == its NAME, variables[name] == declared array, others by value, "
         "parameters == written {names} only, is_template iff non-empty; loads(dumps(P)) has the same operations (names still "
         "names), p-arrays value-equal, type tdm; instance of a tdm template keeps names and arrays; non-tdm: array by value"))
