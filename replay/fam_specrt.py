"""Witness family spec_conformance: the REAL code against the SPEC-LEVEL PROGRAM executed concretely (replay/spec_rt.py).

PyVC proves "real function == sidecar spec function" symbolically, function by function, callees read as their specs.  This family runs
the closed spec-level program (every spec function of contracts/c_*.py, ALLCAPS primitives read as pyvc/lib.py documents them) on
concrete inputs next to the real package and compares the observable outcome.  A difference means one of
  * the symbolic semantics of PyVC is unsound somewhere (it proved an equality that does not hold concretely),
  * a contract is read differently by the engine than by Python (a primitive, a default, a property, the modular reading of a call),
  * or spec_rt's concrete reading of a primitive is wrong (a bug of THIS layer; triaged, never reported as a finding).
Bounded layer: it proves nothing; it can only expose.

Inputs are taken from the generators of the other families (their `cases` functions), re-packed into five input kinds:

  {"kind": "loads",    "script": text}                                       loads; then serialisation and dependency graph of the result
  {"kind": "sequence", "scripts": [text, ...]}                               loads one after the other (module tables carried along)
  {"kind": "template", "script": text, "values": [{...}], "as_ndarray": b}   loads, then program(**values) per assignment (+ a missing key)
  {"kind": "files",    "files": {rel: text}, "main": rel, "how": "abs"|"rel"}  load() of an include tree written to a scratch directory
  {"kind": "api",      "recipe": {...}}                                      API-built program (replay/gen_prog.py recipe): dumps, loads of the text
  {"kind": "match",    "template": ..., "values": ..., "order": ..., "via": ..., "edit": ...}    match_template

check() depends on case["input"] only.  A mismatch is reported with class "spec-vs-real/<what>"; "expected" is the outcome of the
spec-level program (the reference the proofs are about), "actual" the outcome of the real code.
"""
import io
import os
import random
import re
import shutil
import tempfile
import warnings

from . import base
from . import spec_rt
from . import gen_prog as GP
from . import gen_sem as GS

NAME = "spec_conformance"
PROPS = ["C01", "C02", "C03", "C04", "C05", "C06", "C07", "C08", "C09", "C10", "C11", "C12", "C13", "C15", "C16", "C17", "C18"]
STRICT_MESSAGES = os.environ.get("SPECRT_STRICT_MESSAGES", "1") != "0"     # whole exception message must agree (PyVC proves .../exception-message)
STRICT_TYPES = os.environ.get("SPECRT_STRICT_TYPES", "1") != "0"          # Python vs NumPy scalar class of every value must agree


def _scratch():
    d = os.environ.get("VERIF_SCRATCH")
    if d and os.path.isdir(d):
        return d
    return "/root/scratch" if os.path.isdir("/root/scratch") and os.access("/root/scratch", os.W_OK) else None


# =====================================================================================================================
# case generation: the generators of the other families, re-packed

def _source_families():
    import importlib
    for m in ("fam_load", "fam_sem", "fam_prog", "fam_extra", "fam_parser"):
        importlib.import_module("replay." + m)
    return base.FAMILIES


def _a_script(key="script"):
    def f(rng, c):
        t = c["input"].get(key)
        if isinstance(t, str):
            yield {"kind": "loads", "script": t}
    return f


def _a_loop(rng, c):
    i = c["input"]
    if "unrolled" in i and rng.random() < 0.3:
        yield {"kind": "loads", "script": i["unrolled"]}
    else:
        yield {"kind": "loads", "script": i["script"]}


def _a_layout(rng, c):
    i = c["input"]
    yield {"kind": "sequence", "scripts": [i["base"], i["script"]]}


def _a_template(rng, c):
    i = c["input"]
    vals = i.get("values")
    if isinstance(vals, dict):
        vals = [vals]
    if not vals and isinstance(i.get("tarray"), dict):
        vals = [i["tarray"].get("values") or {}]
    if not vals:
        yield {"kind": "loads", "script": i["script"]}
        return
    yield {"kind": "template", "script": i["script"], "values": vals, "as_ndarray": bool(i.get("as_ndarray"))}


def _a_include(rng, c):
    i = c["input"]
    files = GP.include_files(i)
    yield {"kind": "files", "files": files, "main": os.path.join(i["main"]["dir"], i["main"]["file"]), "how": rng.choice(["abs", "abs", "rel"])}


def _a_files(rng, c):
    i = c["input"]
    if "files" in i:
        yield {"kind": "files", "files": i["files"], "main": i.get("main", "main.xbb") if isinstance(i.get("main"), str) else "main.xbb",
               "how": rng.choice(["abs", "rel"])}


def _a_sym(rng, c):
    from . import fam_extra
    yield {"kind": "files", "files": fam_extra._sym_files(c["input"]), "main": "main.xbb", "how": "abs"}


def _a_hashseed(rng, c):
    for it in c["input"].get("items", []):
        if "files" in it:
            yield {"kind": "files", "files": it["files"], "main": it.get("main", "main.xbb"), "how": "abs"}
        elif "script" in it:
            yield {"kind": "loads", "script": it["script"]}


def _a_history(rng, c):
    yield {"kind": "sequence", "scripts": list(c["input"]["scripts"])}


def _a_api(rng, c):
    yield {"kind": "api", "recipe": c["input"]["recipe"]}


def _a_match(rng, c):
    i = c["input"]
    yield {"kind": "match", "template": i["template"], "values": i["values"], "order": i["order"], "via": i["via"], "edit": i.get("edit")}


def _a_readonly(rng, c):
    s = c["input"].get("source", {})
    if "script" in s:
        yield {"kind": "loads", "script": s["script"]}
    elif "recipe" in s:
        yield {"kind": "api", "recipe": s["recipe"]}


# (source family, weight, adapter)
SOURCES = [
    ("load_denote", 3.0, _a_script()), ("expr_value", 3.0, _a_script()), ("decl_types", 2.0, _a_script()), ("forloop_unroll", 2.5, _a_loop),
    ("layout_edits", 1.0, _a_layout), ("illformed", 2.5, _a_script()), ("syntax_errors", 2.0, _a_script("text")), ("parser_verdict", 1.0, _a_script("text")),
    ("roundtrip", 2.5, _a_script()), ("tdm", 2.0, _a_script()), ("regref_transform", 2.0, _a_script()), ("digraph", 1.5, _a_script()),
    ("template_subst", 3.0, _a_template), ("template_match", 2.5, _a_match), ("api_serialize", 3.0, _a_api), ("include_inline", 2.0, _a_include),
    ("history", 1.0, _a_history), ("readonly_ops", 0.7, _a_readonly),
    # directed input classes added later (fam_extra)
    ("template_subst_x", 0.7, _a_template), ("decl_types_x", 0.5, _a_script()), ("expr_value_x", 0.5, _a_script()), ("tdm_x", 0.5, _a_script()),
    ("roundtrip_x", 0.7, _a_script()), ("digraph_x", 0.5, _a_script()), ("include_x", 0.5, _a_files), ("load_denote_x", 0.3, _a_script()),
    ("decl_types_y", 0.6, _a_template), ("expr_value_y", 0.4, _a_script()), ("forloop_unroll_x", 0.4, _a_loop), ("regref_transform_x", 0.4, _a_script()),
    ("roundtrip_y", 0.4, _a_script()), ("api_serialize_x", 0.5, _a_api), ("syntax_errors_x", 0.4, _a_script("text")),
    ("syntax_errors_ws", 0.3, _a_script("text")), ("include_y", 0.5, _a_files), ("tdm_y", 0.5, _a_template), ("digraph_y", 0.3, _a_script()),
    ("include_sym", 0.6, _a_sym), ("include_own_modes", 0.4, _a_include), ("hashseed_y", 0.2, _a_hashseed),
]


def cases(rng, n, tier):
    fams = _source_families()
    srcs = [s for s in SOURCES if s[0] in fams]
    if n < len(srcs):
        srcs = rng.sample(srcs, max(1, n))
    wsum = sum(w for _, w, _ in srcs)
    out = []
    for name, w, adapt in srcs:
        k = max(1, int(round(n * w / wsum)))
        sub = random.Random("%s/%r" % (name, rng.random()))
        got = 0
        try:
            # bundle generators (hashseed_y) yield few, large cases: ask for few
            for c in fams[name].cases(sub, k if name != "hashseed_y" else 1, tier):
                for inp in adapt(sub, c):
                    out.append({"class": "%s:%s/%s" % (inp["kind"], name, str(c.get("class", ""))[:80]), "input": inp})
                    got += 1
                if got >= k:
                    break
        except Exception as e:                                       # a source generator that crashes costs its share, not the family
            out.append({"class": "generator-crash/%s" % name, "input": {"kind": "noop", "note": "%s: %s" % (type(e).__name__, str(e)[:200])}})
    rng.shuffle(out)
    return out


# =====================================================================================================================
# running both sides

def _real():
    import blackbird
    return blackbird


def _outcome(f, *a, **kw):
    with warnings.catch_warnings():
        warnings.simplefilter("ignore")
        try:
            return f(*a, **kw), None
        except Exception as e:                                       # noqa: the outcome IS the exception
            return None, e


def _fail(what, spec, real, extra=""):
    return {"class": "spec-vs-real/" + what, "expected": ("spec: %s" % (spec,))[:1800], "actual": ("real: %s%s" % (real, ("\n" + extra) if extra else ""))[:2400]}


_POS = re.compile(r"line (\d+):(\d+)")
_QUOTED = re.compile(r"'([^']*)'")


def _exc_key(e):
    """what must agree of an exception: its class; for BlackbirdSyntaxError also line, column and the quoted identifiers"""
    n = type(e).__name__
    if n == "BlackbirdSyntaxError":
        m = _POS.search(str(e))
        return (n, m.groups() if m else None, tuple(_QUOTED.findall(str(e))))
    return (n,)


def _cmp_outcomes(what, rv, re_, sv, se, root=None):
    """exception part of an outcome: None if both returned, "same" if both raised alike, else a failure dict"""
    clean = (lambda t: t.replace(root, "@ROOT@")) if root else (lambda t: t)
    if (re_ is None) != (se is None):
        return _fail(what + "/outcome", "raised " + clean(base.describe_exc(se)) if se is not None else "returned %s" % _brief(sv),
                     "raised " + clean(base.describe_exc(re_)) if re_ is not None else "returned %s" % _brief(rv))
    if re_ is None:
        return None
    if isinstance(se, spec_rt.SpecRuntimeError):
        raise se
    if type(re_) is not type(se):
        return _fail(what + "/exception-class", clean(base.describe_exc(se)), clean(base.describe_exc(re_)))
    if _exc_key(re_) != _exc_key(se):
        return _fail(what + "/exception-position", clean(base.describe_exc(se)), clean(base.describe_exc(re_)))
    if STRICT_MESSAGES and str(re_) != str(se):
        return _fail(what + "/exception-message", clean(base.describe_exc(se)), clean(base.describe_exc(re_)))
    return "same"


def _brief(v):
    try:
        if hasattr(v, "operations"):
            return "program %r" % ({"operations": v.operations, "variables": v.variables},)
    except Exception:
        pass
    return repr(v)


# ---------------------------------------------------------------------------------------------------------------------
# values, programs, tables, graphs

def _is_rrt(v):
    return type(v).__name__ == "RegRefTransform"


def _tname(v):
    import sympy as sym
    if isinstance(v, sym.Expr):
        return "sym.Expr"                                           # the SymPy node class follows from the expression, which is compared
    return type(v).__name__


def _veq(a, b):
    """None if equal as values (base.value_equiv, exact) and -- STRICT_TYPES -- of the same class, else a description"""
    import numpy as np
    if isinstance(a, np.ndarray) and isinstance(b, np.ndarray) and a.dtype.kind in "fc" and b.dtype.kind in "fc":
        ok = a.shape == b.shape and a.dtype == b.dtype and bool(np.array_equal(a, b, equal_nan=True))
    else:
        ok = base.value_equiv(a, b, exact=True)
    if not ok:
        return "%r (%s) vs %r (%s)" % (a, _tname(a), b, _tname(b))
    if STRICT_TYPES:
        d = _type_diff(a, b)
        if d:
            return d
    if _is_rrt(a):
        return _rrt_diff(a, b)
    return None


def _type_diff(a, b):
    import numpy as np
    if _tname(a) != _tname(b):
        return "value classes differ: %r is %s vs %r is %s" % (a, _tname(a), b, _tname(b))
    if isinstance(a, (list, tuple)):
        for x, y in zip(a, b):
            d = _type_diff(x, y)
            if d:
                return d
    if isinstance(a, np.ndarray):
        if a.dtype != b.dtype:
            return "dtypes differ: %s vs %s" % (a.dtype, b.dtype)
        if a.dtype == object:
            for x, y in zip(a.flatten(), b.flatten()):
                d = _type_diff(x, y)
                if d:
                    return d
    return None


_POINTS = [0.7310585, -1.3862943, 2.2360679, 0.1234567, -0.9876543, 1.6180339]


def _rrt_diff(a, b):
    """two register transforms: text, registers, and the compiled function applied to the registers in each side's OWN order"""
    if str(a) != str(b):
        return "transform text %r vs %r" % (str(a), str(b))
    if getattr(a, "func_str", None) != getattr(b, "func_str", None):
        return "transform func_str %r vs %r" % (getattr(a, "func_str", None), getattr(b, "func_str", None))
    if sorted(a.regrefs) != sorted(b.regrefs):
        return "transform registers %r vs %r" % (a.regrefs, b.regrefs)
    for shift in (0, 1):
        val = {r: _POINTS[(k + shift) % len(_POINTS)] for k, r in enumerate(sorted(a.regrefs))}
        (x, ex), (y, ey) = _outcome(a.func, *[val[r] for r in a.regrefs]), _outcome(b.func, *[val[r] for r in b.regrefs])
        if (ex is None) != (ey is None) or (ex is not None and type(ex) is not type(ey)):
            return "transform function at %r: %r / %r vs %r / %r" % (val, x, ex, y, ey)
        if ex is None and not (base.num_close(x, y, 1e-12) or (x != x and y != y)):
            return "transform function at %r: %r vs %r" % (val, x, y)
    return None


def _walk_values(p):
    for what, d in (("target", p.target), ("type", p.programtype)):
        for k, v in d["options"].items():
            yield "%s option %s" % (what, k), v
    for i, op in enumerate(p.operations):
        for j, m in enumerate(op["modes"]):
            yield "operation %d mode %d" % (i, j), m
        for j, v in enumerate(op.get("args", [])):
            yield "operation %d arg %d" % (i, j), v
        for k, v in op.get("kwargs", {}).items():
            yield "operation %d kwarg %s" % (i, k), v
    for k, v in p.variables.items():
        yield "variable %s" % k, v
    for k, v in getattr(p, "_forvar", {}).items():
        yield "loop values %s" % k, v


def _program_diff(sp, rp):
    """None or a description of the first difference between the spec-level program sp and the real program rp"""
    d = base.program_diff(sp, rp, exact=True, check_vars=False)
    if d and "nan" not in d.lower():
        return d
    if list(sp.variables) != list(rp.variables):
        return "variable names (in order) %r vs %r" % (list(sp.variables), list(rp.variables))
    if list(getattr(sp, "_forvar", {})) != list(getattr(rp, "_forvar", {})):
        return "loop variables %r vs %r" % (list(getattr(sp, "_forvar", {})), list(getattr(rp, "_forvar", {})))
    a, b = list(_walk_values(sp)), list(_walk_values(rp))
    if [w for w, _ in a] != [w for w, _ in b]:
        return "value positions %r vs %r" % ([w for w, _ in a], [w for w, _ in b])
    for (w, x), (_, y) in zip(a, b):
        d = _veq(x, y)
        if d:
            return "%s: %s" % (w, d)
    if sorted(sp.modes) != sorted(rp.modes) or sorted(_tname(m) for m in sp.modes) != sorted(_tname(m) for m in rp.modes):
        return "mode set %r vs %r" % (sp.modes, rp.modes)
    if [str(x) for x in sp._parameters] != [str(x) for x in rp._parameters]:
        return "parameter list %r vs %r" % (sp._parameters, rp._parameters)
    if len(sp) != len(rp) or bool(sp.is_template()) != bool(rp.is_template()):
        return "len / is_template: %r %r vs %r %r" % (len(sp), sp.is_template(), len(rp), rp.is_template())
    return None


def _tables_diff():
    """module tables of the spec runtime vs the real auxiliary module's"""
    import blackbird.auxiliary as aux
    sv, sp = spec_rt.runtime().tables
    rv, rp = aux._VAR, aux._PARAMS
    if list(sv) != list(rv):
        return "_VAR names %r vs %r" % (list(sv), list(rv))
    for k in sv:
        d = _veq(sv[k], rv[k])
        if d:
            return "_VAR[%r]: %s" % (k, d)
    if [(_tname(x), str(x)) for x in sp] != [(_tname(x), str(x)) for x in rp]:
        return "_PARAMS %r vs %r" % (sp, rp)
    return None


def _graph_diff(sg, rg):
    if list(sg.nodes) != list(rg.nodes):
        return "nodes (insertion order) %r vs %r" % (list(sg.nodes), list(rg.nodes))
    if list(sg.edges) != list(rg.edges):
        return "edges %r vs %r" % (list(sg.edges), list(rg.edges))
    for n in sg.nodes:
        a, b = sg.nodes[n], rg.nodes[n]
        if list(a) != list(b):
            return "node %r attribute names %r vs %r" % (n, list(a), list(b))
        if a["name"] != b["name"] or a["modes"] != b["modes"] or type(a["modes"]) is not type(b["modes"]):
            return "node %r: %r %r vs %r %r" % (n, a["name"], a["modes"], b["name"], b["modes"])
        if type(a["args"]) is not type(b["args"]) or len(a["args"]) != len(b["args"]):
            return "node %r args %r vs %r" % (n, a["args"], b["args"])
        for x, y in zip(a["args"], b["args"]):
            d = _veq(x, y)
            if d:
                return "node %r argument: %s" % (n, d)
        if list(a["kwargs"]) != list(b["kwargs"]):
            return "node %r kwargs %r vs %r" % (n, a["kwargs"], b["kwargs"])
        for k in a["kwargs"]:
            d = _veq(a["kwargs"][k], b["kwargs"][k])
            if d:
                return "node %r keyword %s: %s" % (n, k, d)
    return None


def _after_load(what, sp, rp, script_note=""):
    """both sides returned a program: the programs, then their serialisation and their dependency graph"""
    rt = spec_rt.runtime()
    bb = _real()
    from blackbird.utils import to_DiGraph
    d = _program_diff(sp, rp)
    if d:
        return _fail(what + "/program", _brief(sp), _brief(rp), "first difference (spec vs real): " + d + script_note)
    for (rv, re_), (sv, se), nm in ((_outcome(bb.dumps, rp), _outcome(rt.dumps, sp), "dumps"),):
        r = _cmp_outcomes(what + "/" + nm, rv, re_, sv, se)
        if isinstance(r, dict):
            return r
        if r is None and rv != sv:
            return _fail(what + "/dumps-text", sv, rv, script_note)
    rbuf, sbuf = io.StringIO(), io.StringIO()
    (_, re_), (_, se) = _outcome(bb.dump, rp, rbuf), _outcome(rt.dump, sp, sbuf)
    r = _cmp_outcomes(what + "/dump", None, re_, None, se)
    if isinstance(r, dict):
        return r
    if rbuf.getvalue() != sbuf.getvalue():
        return _fail(what + "/dump-text", sbuf.getvalue(), rbuf.getvalue(), script_note)
    (rg, re_), (sg, se) = _outcome(to_DiGraph, rp), _outcome(rt.to_DiGraph, sp)
    r = _cmp_outcomes(what + "/to_DiGraph", rg, re_, sg, se)
    if isinstance(r, dict):
        return r
    if r is None:
        d = _graph_diff(sg, rg)
        if d:
            return _fail(what + "/graph", "nodes %r edges %r" % (list(sg.nodes), list(sg.edges)), "nodes %r edges %r" % (list(rg.nodes), list(rg.edges)),
                         "first difference (spec vs real): " + d + script_note)
    # serialising / graphing must not have changed either program differently
    d = _program_diff(sp, rp)
    if d:
        return _fail(what + "/program-after-read-only-operations", _brief(sp), _brief(rp), d)
    return None


_UNINIT = re.compile(r"\bfor\s+array\s")


def _load_pair(what, real_f, spec_f, arg, root=None, note=""):
    """run one load on both sides; returns (failure or None, spec program or None, real program or None)"""
    (rp, re_), (sp, se) = _outcome(real_f, arg), _outcome(spec_f, arg)
    r = _cmp_outcomes(what, rp, re_, sp, se, root)
    if isinstance(r, dict):
        r["actual"] = (r["actual"] + note)[:2400]
        return r, None, None
    d = _tables_diff()
    if d:
        return _fail(what + ("/tables-after-exception" if r == "same" else "/tables"), "spec tables %r" % (spec_rt.runtime().tables,),
                     "see difference", "first difference (spec vs real): " + d + note), None, None
    if r == "same":
        return None, None, None
    f = _after_load(what, sp, rp, note)
    return f, sp, rp


# =====================================================================================================================
# the six input kinds

def _check_loads(inp):
    f, _, _ = _load_pair("loads", _real().loads, spec_rt.runtime().loads, inp["script"])
    return f


def _check_sequence(inp):
    for k, s in enumerate(inp["scripts"]):
        f, _, _ = _load_pair("loads", _real().loads, spec_rt.runtime().loads, s, note="\n(script %d of a sequence of %d)" % (k + 1, len(inp["scripts"])))
        if f:
            return f
    return None


def _check_template(inp):
    import numpy as np
    f, sp, rp = _load_pair("loads", _real().loads, spec_rt.runtime().loads, inp["script"])
    if f or sp is None:
        return f
    valsets = [{k: GS.dec(v) for k, v in vs.items()} for vs in inp["values"]]
    calls = []
    for vals in valsets:
        calls.append({k: (np.array(v) if (inp.get("as_ndarray") and isinstance(v, list)) else v) for k, v in vals.items()})
    if valsets and valsets[0]:
        drop = sorted(valsets[0])[0]
        calls.append({k: v for k, v in calls[0].items() if k != drop})          # a missing value
        calls.append(dict(calls[0], zz_extra=1.5))                                # a value nobody asked for
    calls.append({})
    for call in calls:
        (rq, re_), (sq, se) = _outcome(lambda: rp(**call)), _outcome(lambda: sp(**call))
        r = _cmp_outcomes("call", rq, re_, sq, se)
        if isinstance(r, dict):
            r["actual"] += "\ncall values %r" % (call,)
            return r
        if r is None:
            f = _after_load("call", sq, rq, "\ncall values %r" % (call,))
            if f:
                return f
            (rq2, re2), (sq2, se2) = _outcome(lambda: rq(**call)), _outcome(lambda: sq(**call))     # an instance is not a template
            r2 = _cmp_outcomes("call-on-instance", rq2, re2, sq2, se2)
            if isinstance(r2, dict):
                return r2
        d = _program_diff(sp, rp)                                      # the template itself after the call
        if d:
            return _fail("call/template-after-call", _brief(sp), _brief(rp), d)
    return None


def _check_files(inp):
    root = os.path.realpath(tempfile.mkdtemp(prefix="specrt_inc_", dir=_scratch()))
    old = os.getcwd()
    try:
        for rel, text in inp["files"].items():
            path = os.path.join(root, rel)
            os.makedirs(os.path.dirname(path), exist_ok=True)
            with open(path, "w") as fh:
                fh.write(text.replace("@ROOT@", root))
        main = os.path.join(root, inp["main"])
        arg = main
        if inp.get("how") == "rel":
            os.chdir(os.path.dirname(main))
            arg = os.path.basename(main)
        shown = "\n" + "\n".join("### %s\n%s" % kv for kv in sorted(inp["files"].items()))[:1500]
        f, _, _ = _load_pair("load", _real().load, spec_rt.runtime().load, arg, root=root, note=shown)
        return f
    finally:
        os.chdir(old)
        shutil.rmtree(root, ignore_errors=True)


def build_spec_program(recipe):
    """the recipe of gen_prog.build_program, assembled on the SPEC-LEVEL BlackbirdProgram (same field writes)"""
    import sympy as sym
    rt = spec_rt.runtime()
    bb = rt.BlackbirdProgram(name=recipe["name"], version=recipe["version"])
    for attr, key in (("_target", "target"), ("_type", "type")):
        d = recipe.get(key)
        if d is not None:
            getattr(bb, attr)["name"] = d["name"]
            getattr(bb, attr)["options"] = {k: GP.build_value(v) for k, v in d.get("options", [])}
    for op in recipe["ops"]:
        o = {"op": op["op"], "modes": [GP.build_value(m) if isinstance(m, dict) else int(m) for m in op["modes"]]}
        if op.get("args") is not None:
            o["args"] = [GP.build_value(v) for v in op["args"]]
            o["kwargs"] = {k: GP.build_value(v) for k, v in (op.get("kwargs") or [])}
        bb._operations.append(o)
        bb._modes |= set(int(m) for m in o["modes"])
    bb._var = {k: GP.build_value(v) for k, v in recipe.get("vars", [])}
    bb._parameters = [sym.Symbol(n) for n in recipe.get("params", [])]
    return bb


def _check_api(inp):
    rt = spec_rt.runtime()
    bb = _real()
    rp, sp = GP.build_program(inp["recipe"]), build_spec_program(inp["recipe"])
    d = _program_diff(sp, rp)
    if d:
        raise RuntimeError("internal: the two builders disagree: " + d)
    (rt_, re_), (st, se) = _outcome(bb.dumps, rp), _outcome(rt.dumps, sp)
    f = _after_load("api", sp, rp)
    if f:
        return f
    if re_ is None and se is None and rt_ == st:
        f, _, _ = _load_pair("api-text/loads", bb.loads, rt.loads, st, note="\n(text serialised from an API-built program)")
        return f
    return None


def _check_match(inp):
    from blackbird.utils import match_template
    rt = spec_rt.runtime()
    bb = _real()
    tpl = inp["template"]
    values = {k: float(v) for k, v in inp["values"].items()}
    order = inp["order"]
    text = GP.template_script(tpl)
    f, st, rt_ = _load_pair("loads", bb.loads, rt.loads, text)
    if f or st is None:
        return f
    def instance(t, loads):
        if inp["via"] == "call":
            inst = t(**values)
            inst._operations = [inst._operations[i] for i in order]
        else:
            inst = loads(GP.template_script(tpl, values, order))
        ed = inp.get("edit")
        if ed:
            k = ed["kind"]
            if k == "gate-name":
                inst.operations[ed["index"]]["op"] = ed["to"]
            elif k == "mode-list":
                inst.operations[ed["index"]]["modes"] = list(ed["to"])
                inst._modes = set(m for o in inst.operations for m in o["modes"])
            elif k == "version":
                inst._version = ed["to"]
            elif k == "target":
                inst._target["name"] = ed["to"]
            elif k == "swap-order":
                i = ed["index"]
                inst._operations[i], inst._operations[i + 1] = inst._operations[i + 1], inst._operations[i]
        return inst

    (ri, re_), (si, se) = _outcome(instance, rt_, bb.loads), _outcome(instance, st, rt.loads)
    r = _cmp_outcomes("match/instance", ri, re_, si, se)
    if r is not None:
        return r if isinstance(r, dict) else None
    d = _program_diff(si, ri)
    if d:
        return _fail("match/instance", _brief(si), _brief(ri), d)
    pairs = [("match_template", (st, si), (rt_, ri)), ("match_template/swapped-arguments", (si, st), (ri, rt_)),
             ("match_template/template-vs-itself", (st, st), (rt_, rt_)), ("match_template/instance-vs-itself", (si, si), (ri, ri))]
    for what, sa, ra in pairs:
        (rr, re_), (sr, se) = _outcome(match_template, *ra), _outcome(rt.match_template, *sa)
        r = _cmp_outcomes(what, rr, re_, sr, se)
        if isinstance(r, dict):
            return r
        if r is None:
            if type(rr) is not type(sr) or list(rr) != list(sr):
                return _fail(what + "/result", repr(sr), repr(rr))
            for k in sr:
                d = _veq(sr[k], rr[k])
                if d:
                    return _fail(what + "/result", repr(sr), repr(rr), "parameter %s: %s" % (k, d))
        d = _program_diff(st, rt_) or _program_diff(si, ri)
        if d:
            return _fail(what + "/arguments-after-match", "", "", d)
    return None


_KINDS = {"loads": _check_loads, "sequence": _check_sequence, "template": _check_template, "files": _check_files, "api": _check_api,
          "match": _check_match, "noop": lambda inp: None}


def check(case):
    inp = case["input"]
    # both sides start from empty module tables: the worker process also serves other families, whose failed loads leave entries in the
    # real module's tables (harmless: enterStart empties them) that the spec runtime never saw
    import blackbird.auxiliary as aux
    aux._VAR.clear()
    aux._PARAMS.clear()
    sv, sp = spec_rt.runtime().tables
    sv.clear()
    sp.clear()
    with warnings.catch_warnings():
        warnings.simplefilter("ignore")
        return _KINDS[inp["kind"]](inp)


base.register(base.Family(
    NAME, PROPS, cases, check,
    bound="inputs of the other families' generators (40 sources: scripts valid / ill-formed / ungrammatical, templates with 1-2 assignments, include "
          "trees on disk, API recipes, template-match cases, load sequences), re-packed; per input: load on both sides, then dumps and to_DiGraph "
          "of the result, program(**values), match_template in four argument arrangements",
    rule="real package vs the spec-level program (every spec function of contracts/c_*.py compiled from the sidecar text, callees bound to their "
         "specs, ALLCAPS primitives read as pyvc/lib.py documents them; replay/spec_rt.py): same exception class (BlackbirdSyntaxError: same "
         "line / column / identifiers; whole message unless SPECRT_STRICT_MESSAGES=0) or equal programs (operations, modes, variables with dtype and "
         "shape, parameters, target, type, name, version, loop values; value classes unless SPECRT_STRICT_TYPES=0), equal module tables _VAR / "
         "_PARAMS after the load, equal serialisation text, equal graph (nodes in order with attributes, edges), equal match result",
    weight=0.5))
